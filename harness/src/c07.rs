//! C07 — paged iteration yields every row exactly once, in order, then ends.
//!
//! The real pagers run against the scripted mock node: `pg` = the single-connection pager
//! (`Connection::execute_iter` -> `SingleConnectionPagingExecutor` -> `QueryPager` -> `rows_stream`),
//! `sess` = `Session::execute_iter` (`PagingExecutor`, default execution profile) on a one-node mock
//! cluster (the handler also answers the control connection's system.peers / system.local queries).
//! The case line is the server's page script (rows per page, paging state returned with each page,
//! faults injected before a page is served) and the consumer's behaviour.
//!
//! `sessdg` = the session pager with an idempotent statement and DowngradingConsistencyRetryPolicy (fault
//! `W`, a WriteTimeout, is then answered with IgnoreWriteError: pager.rs 220-226, 278-290).
//! `sess` / `sessdg` + `o` | `p` | `s`: WHERE the retry policy and the request timeout in force are configured
//! (`PagingExecutor::new`, pager.rs 147-186): statement override next to a contradicting profile / the statement's
//! own profile handle / the session's default profile (see `Via`).
//! Consumers: `eager`, `slow`, `drop<k>` (drop after k rows), `pdrop<k>` (k rows, ONE more poll, drop).
//!
//! Case: `pg|sess|sessdg <skip 0|1> <consumer> <page> <page> ...`, page = `<rows>:<state>:<faults>`;
//! state `.` = none (no more pages), `-` = empty byte string, else hex; rows are numbered 0,1,2,...
//! across the pages (one `int` column). Faults (letters, consumed one per incoming EXECUTE of that page,
//! `d` excepted): `u` UNPREPARED, `o` Overloaded, `r` ReadTimeout (too few replies), `R` ReadTimeout with
//! enough replies but no data (the one the default retry policy retries), `s` ServerError, `c` close the
//! connection, `T` answer later than the request timeout, `v` RESULT/Void, `d` short delay then go on.
//!
//! Output: `rows=<delivered> fin=<end | err:<e>+end | ctor:<e> | dropped> log=<paging state of every EXECUTE>`.
use crate::mockcluster::{host_id_of, Act, ClusterHandler, MockCluster, NodeSpec, Req, Topology};
use crate::mocknode::*;
use crate::rng::Rng;
use crate::util::{hex, nat_list, unhex};
use crate::{Ctx, Tier};
use futures::StreamExt;
use scylla::client::caching_session::CachingSession;
use scylla::client::Compression;
use scylla::client::session::Session;
use scylla::client::session_builder::SessionBuilder;
use scylla::errors::{NextPageError, NextRowError, PagerExecutionError, RequestAttemptError, RequestError};
use scylla_cql_core::serialize::row::SerializedValues;
use scylla::client::execution_profile::ExecutionProfile;
use scylla::policies::retry::{DefaultRetryPolicy, DowngradingConsistencyRetryPolicy, FallthroughRetryPolicy, RetryPolicy};
use scylla::statement::unprepared::Statement;
use scylla::verif_hooks::connection::{VerifConn, VerifConnOptions};
use std::cell::RefCell;
use std::collections::VecDeque;
use std::sync::atomic::{AtomicUsize, Ordering};
use std::sync::{Arc, Mutex};
use std::time::Duration;

const REQUEST_TIMEOUT: Duration = Duration::from_millis(1200);
const LATE: Duration = Duration::from_millis(3500);
const QUERY: &str = "SELECT a FROM ks.t";

// ---------------------------------------------------------------------------------------------
// case syntax
// ---------------------------------------------------------------------------------------------

#[derive(Clone, Debug)]
struct PageSpec {
    rows: usize,
    state: Option<Vec<u8>>,
    faults: Vec<char>,
    /// the result metadata of the statement changes right before this page is served (`:m`): with the
    /// metadata-id extension negotiated the page then carries METADATA_CHANGED, a new id and new columns
    meta_change: bool,
    /// `:B<n>`: the RESULT body of this page is exactly `n` bytes (rows then carry a blob column; the last
    /// row's blob is padded to reach the size) - page SIZE as a dimension (frames around and above 1 MiB)
    body_bytes: Option<usize>,
    /// `:Z<n>`: every row of this page carries a blob of `n` ZERO bytes - a highly compressible page (an LZ4
    /// block expands at most 255:1; `n` steers the ratio: ~1000 -> 64:1, 4096 -> 146:1, 65536 -> 240:1)
    zero_blob: Option<usize>,
}

#[derive(Clone, Copy, Debug, PartialEq)]
enum Consumer {
    /// a bare `while let Some(..) = stream.next().await` loop: the only wake source is the stream itself
    Eager,
    Slow,
    /// `next()` under `select!` with a 3 ms timer that re-polls it (a lost wake-up cannot hang this one)
    Timed,
    Drop(usize),
    /// cluster family: after `k` rows (and once the producer has run as far ahead as it can) the node that
    /// served the last page is STOPPED and the driver is given time to notice that its pool is empty; then
    /// the rest is consumed eagerly
    Kill(usize),
    /// `k` rows, then ONE more poll of `next()` (which may swallow an empty page and stay pending), then drop
    PollDrop(usize),
}

/// WHERE the retry policy and the request timeout in force for the pager are configured
/// (`PagingExecutor::new`, pager.rs 147-186: statement override -> the statement's own execution profile
/// handle -> the session's default profile). Kind suffix of `sess` / `sessdg`: none, `o`, `p`, `s`.
#[derive(Clone, Copy, Debug, PartialEq)]
enum Via {
    /// on the statement itself (`set_retry_policy` / `set_request_timeout`), no profile handle on it
    Statement,
    /// `o`: on the statement, which ALSO carries a profile handle saying otherwise (FallthroughRetryPolicy,
    /// a 60 s timeout): the statement's own settings must win
    Override,
    /// `p`: only in the execution profile whose handle the statement carries (the session's default differs)
    StmtProfile,
    /// `s`: only in the session's default execution profile (a session of its own per case)
    SessProfile,
}

struct Case {
    via: Via,
    /// `pg`: single-connection pager; `sess`: `Session::execute_iter` against a one-node mock cluster
    session: bool,
    /// `sessdg`: session pager, idempotent statement, DowngradingConsistencyRetryPolicy
    downgrading: bool,
    /// `squery`: `Session::query_iter` with an unprepared statement without values (QUERY frames)
    unprepared: bool,
    /// `squeryv`: `Session::query_iter` with values (prepares, then pages like execute_iter)
    with_values: bool,
    /// `scache`: `CachingSession::execute_iter`
    caching: bool,
    /// `ctl`: the script answers the control connection's paged `system.peers` query while a Session is built
    ctl: bool,
    /// `pgk`: the bound values lack the partition-key value (PartitionKeyError before the first fetch)
    pk_error: bool,
    /// `clu<n><i|n>`: session pager on an n-node mock cluster, statement idempotent or not (0 = no cluster);
    /// `cls<n><i|n>`: the same with 2 shards per node (a target is then a (node, shard) pair)
    cluster: usize,
    sharded: bool,
    idempotent: bool,
    /// mode 2|3: SCYLLA_USE_METADATA_ID negotiated (3: the node sends full metadata on every page, 2: only
    /// when asked to or when the id presented is stale)
    ext: bool,
    always_full: bool,
    /// frame compression negotiated by the client (the node then compresses every page it serves)
    comp: Option<Compression>,
    skip: bool,
    consumer: Consumer,
    pages: Vec<PageSpec>,
}

fn fmt_state(s: &Option<Vec<u8>>) -> String {
    match s {
        None => ".".to_owned(),
        Some(b) => hex(b),
    }
}

fn fmt_page(p: &PageSpec) -> String {
    let f: String = if p.faults.is_empty() { "-".into() } else { p.faults.iter().collect() };
    format!(
        "{}:{}:{}{}{}",
        p.rows,
        fmt_state(&p.state),
        f,
        if p.meta_change { ":m" } else { "" },
        match (p.body_bytes, p.zero_blob) {
            (Some(n), _) => format!(":B{}", n),
            (None, Some(n)) => format!(":Z{}", n),
            (None, None) => String::new(),
        }
    )
}

fn fmt_sess_case(skip: bool, consumer: Consumer, pages: &[PageSpec]) -> String {
    fmt_case(skip, consumer, pages).replacen("pg ", "sess ", 1)
}

fn fmt_dg_case(skip: bool, consumer: Consumer, pages: &[PageSpec]) -> String {
    fmt_case(skip, consumer, pages).replacen("pg ", "sessdg ", 1)
}

/// mode 2 / 3 (metadata-id extension) variant of a case line
fn with_ext(line: String, always_full: bool) -> String {
    let mut w: Vec<String> = line.split(' ').map(|x| x.to_owned()).collect();
    w[1] = if always_full { "3".into() } else { "2".into() };
    w.join(" ")
}

fn fmt_case(skip: bool, consumer: Consumer, pages: &[PageSpec]) -> String {
    let c = match consumer {
        Consumer::Eager => "eager".to_owned(),
        Consumer::Slow => "slow".to_owned(),
        Consumer::Timed => "timed".to_owned(),
        Consumer::Kill(k) => format!("kill{}", k),
        Consumer::Drop(k) => format!("drop{}", k),
        Consumer::PollDrop(k) => format!("pdrop{}", k),
    };
    format!("pg {} {} {}", skip as u8, c, pages.iter().map(fmt_page).collect::<Vec<_>>().join(" "))
}

fn parse_case(line: &str) -> Option<Case> {
    let w: Vec<&str> = line.split_whitespace().collect();
    if w.len() < 4 {
        return None;
    }
    let (mut cluster, mut idempotent) = (0usize, false);
    let sharded = w[0].starts_with("cls");
    if w[0].len() == 5 && (w[0].starts_with("clu") || sharded) {
        let b = w[0].as_bytes();
        if !(b'1'..=b'9').contains(&b[3]) || (b[4] != b'i' && b[4] != b'n') {
            return None;
        }
        cluster = (b[3] - b'0') as usize;
        idempotent = b[4] == b'i';
    } else if !["pg", "pgk", "sessk", "sess", "squery", "squeryv", "scache", "sessdg", "ctl", "sesso", "sessp", "sesss", "sessdgo", "sessdgp", "sessdgs"].contains(&w[0]) {
        return None;
    }
    let via = match w[0] {
        "sesso" | "sessdgo" => Via::Override,
        "sessp" | "sessdgp" => Via::StmtProfile,
        "sesss" | "sessdgs" => Via::SessProfile,
        _ => Via::Statement,
    };
    let session = !(w[0] == "pg" || w[0] == "pgk");
    let downgrading = w[0].starts_with("sessdg");
    let unprepared = w[0] == "squery" || w[0] == "squeryv";
    let with_values = w[0] == "squeryv";
    let caching = w[0] == "scache";
    // `sessk`: the SESSION constructor's PartitionKeyError (pager.rs 949-958): the values serialize, but the
    // composite partition key is too long to compute a token for
    let pk_error = w[0] == "pgk" || w[0] == "sessk";
    let ctl = w[0] == "ctl";
    // modes 4..7: frame COMPRESSION negotiated (4 = LZ4, 5 = Snappy, 6 / 7 = the same with cached result metadata)
    let (skip, ext, always_full, comp) = match w[1] {
        "0" => (false, false, false, None),
        "1" => (true, false, false, None),
        "2" => (false, true, false, None),
        "3" => (false, true, true, None),
        "4" => (false, false, false, Some(Compression::Lz4)),
        "5" => (false, false, false, Some(Compression::Snappy)),
        "6" => (true, false, false, Some(Compression::Lz4)),
        "7" => (true, false, false, Some(Compression::Snappy)),
        _ => return None,
    };
    let consumer = match w[2] {
        "eager" => Consumer::Eager,
        "slow" => Consumer::Slow,
        "timed" => Consumer::Timed,
        s if s.starts_with("kill") => Consumer::Kill(s[4..].parse().ok()?),
        s if s.starts_with("pdrop") => Consumer::PollDrop(s[5..].parse().ok()?),
        s if s.starts_with("drop") => Consumer::Drop(s[4..].parse().ok()?),
        _ => return None,
    };
    let mut pages = Vec::new();
    for pw in &w[3..] {
        let parts: Vec<&str> = pw.split(':').collect();
        if parts.len() < 3 || parts.len() > 5 {
            return None;
        }
        let (mut meta_change, mut body_bytes, mut zero_blob) = (false, None, None);
        for extra in &parts[3..] {
            if *extra == "m" && !meta_change {
                meta_change = true;
            } else if extra.starts_with('B') && body_bytes.is_none() && zero_blob.is_none() {
                body_bytes = Some(extra[1..].parse::<usize>().ok().filter(|n| *n <= 16 << 20)?);
            } else if extra.starts_with('Z') && body_bytes.is_none() && zero_blob.is_none() {
                zero_blob = Some(extra[1..].parse::<usize>().ok().filter(|n| *n <= 16 << 20)?);
            } else {
                return None;
            }
        }
        let rows: usize = parts[0].parse().ok()?;
        let state = if parts[1] == "." { None } else { Some(unhex(parts[1])?) };
        let faults: Vec<char> = if parts[2] == "-" { vec![] } else { parts[2].chars().collect() };
        pages.push(PageSpec { rows, state, faults, meta_change, body_bytes, zero_blob });
    }
    if ext && pages.iter().any(|p| p.body_bytes.is_some() || p.zero_blob.is_some()) {
        return None; // sized pages use their own fixed columns (a int, c blob)
    }
    if !ext && pages.iter().any(|p| p.meta_change) {
        return None; // a metadata change can only be announced with the extension negotiated
    }
    if downgrading && pages.iter().any(|p| p.faults.iter().any(|c| !"uWodQV".contains(*c))) {
        return None; // only these faults are modelled for the downgrading policy
    }
    // which fault letters a kind knows, and where (the same rule as the model driver's `lettersOk`)
    let later: Vec<char> = pages.iter().skip(1).flat_map(|p| p.faults.iter().copied()).collect();
    let all: Vec<char> = pages.iter().flat_map(|p| p.faults.iter().copied()).collect();
    if later.iter().any(|c| "XkK".contains(*c))
        || (!session && all.iter().any(|c| "kK".contains(*c)))
        || (unprepared && !with_values && all.contains(&'u'))
        || (cluster > 0 && all.iter().any(|c| !"doUbRrsWi".contains(*c)))
        || (downgrading && all.contains(&'X'))
        || (pk_error && ext)
        // with a stopped node the outcome of next-target hops depends on where the (random) plan puts it:
        // only same-target retries are scripted together with `kill`
        // (on 2 nodes the plan of every fetch is determined by the coordinator, so next-target hops are
        // scripted with `kill` as well; on 3 nodes their outcome depends on the random plan order)
        || (matches!(consumer, Consumer::Kill(_)) && (cluster < 2 || (cluster > 2 && all.iter().any(|c| !"dR".contains(*c)))))
        || (ctl && (ext || consumer != Consumer::Eager || all.iter().any(|c| !"ud".contains(*c))))
    {
        return None;
    }
    if comp.is_some() && (cluster > 0 || ctl) {
        return None; // compression is scripted for the single-node families
    }
    if via != Via::Statement && all.iter().any(|c| "cXkK".contains(*c)) {
        return None; // connection loss / constructor paths are scripted for the plain kinds
    }
    Some(Case { via, session, downgrading, unprepared, with_values, caching, pk_error, ctl, sharded, cluster, idempotent, ext, always_full, comp, skip, consumer, pages })
}

// ---------------------------------------------------------------------------------------------
// the scripted server
// ---------------------------------------------------------------------------------------------

#[derive(Default)]
struct Script {
    pages: Vec<PageSpec>,
    faults: Vec<VecDeque<char>>,
    /// index of the next page to serve = number of pages served
    pos: usize,
    /// first row number of the next page
    next_row: usize,
    /// rows of the pages actually sent, page by page
    sent: Vec<Vec<i32>>,
    /// (position when the EXECUTE arrived, paging state it carried)
    execs: Vec<(usize, Option<Vec<u8>>)>,
    /// metadata-id extension: negotiated?; full metadata on every page?; current version of the
    /// statement's result metadata; which pages' changes were applied; version each sent page was encoded with
    ext: bool,
    always_full: bool,
    version: usize,
    applied: Vec<bool>,
    sent_versions: Vec<usize>,
    /// node (cluster family) the frame being handled arrived on; node of every recorded EXECUTE/QUERY
    cur_node: usize,
    exec_nodes: Vec<usize>,
    /// how each recorded request was answered: 'p' page served, else the fault letter
    exec_answers: Vec<char>,
    /// consistency level each recorded request carried
    exec_cls: Vec<u16>,
    /// sized pages: the statement's columns are (a int, c blob); blob length of every row sent
    big: bool,
    sent_blob_lens: Vec<usize>,
    /// compression negotiated with the client: pages are sent as compressed frames
    comp: Option<Compression>,
    /// `kill<k>`: (request index at the time of the kill, node stopped)
    killed: Option<(usize, usize)>,
    /// `ctl`: the page script is the answer to the CONTROL CONNECTION's system.peers query (rows = peers)
    ctl: bool,
    /// `K`: the session's `USE` after a SetKeyspace first response is answered with an error
    use_fails: bool,
    /// prepared id of THIS case's statement (every case prepares its own statement text, so a
    /// straggling request of an earlier case can never consume this case's script)
    statement_id: Vec<u8>,
}

/// Result metadata version `v`: even = `(a int)`, odd = `(a bigint, b int)`.
fn cols(v: usize) -> Vec<Col> {
    if v % 2 == 0 {
        vec![Col { name: "a".into(), type_id: 0x0009 }]
    } else {
        vec![Col { name: "a".into(), type_id: 0x0002 }, Col { name: "b".into(), type_id: 0x0009 }]
    }
}

fn big_cols() -> Vec<Col> {
    vec![Col { name: "a".into(), type_id: 0x0009 }, Col { name: "c".into(), type_id: 0x0003 }]
}

/// Blob of row `n` (sized pages): every byte depends on the row and on its position.
fn blob_of(n: i32, len: usize) -> Vec<u8> {
    (0..len).map(|i| ((n as usize).wrapping_mul(131).wrapping_add(i.wrapping_mul(7)) % 251) as u8).collect()
}

/// A RESULT frame for a page: compressed (frame flag 0x01; LZ4: 4-byte big-endian uncompressed length +
/// one LZ4 block, Snappy: one raw Snappy block - native_protocol_v4 section 5) when compression was negotiated.
fn page_frame(comp: Option<Compression>, stream: i16, body: Vec<u8>) -> Action {
    let compressed = match comp {
        None => return Action::Respond(RESP_RESULT, body),
        Some(Compression::Lz4) => {
            let mut b = (body.len() as u32).to_be_bytes().to_vec();
            b.extend_from_slice(&lz4_flex::compress(&body));
            b
        }
        Some(Compression::Snappy) => snap::raw::Encoder::new().compress_vec(&body).unwrap(),
    };
    let mut f = vec![0x84, 0x01];
    f.extend_from_slice(&stream.to_be_bytes());
    f.push(RESP_RESULT);
    f.extend_from_slice(&(compressed.len() as u32).to_be_bytes());
    f.extend_from_slice(&compressed);
    Action::Raw(f)
}

fn metadata_id(v: usize) -> Vec<u8> {
    vec![b'M', b'0' + (v % 10) as u8, (v / 10) as u8]
}

fn encode_row(v: usize, n: i32) -> Vec<Option<Vec<u8>>> {
    if v % 2 == 0 {
        vec![Some(n.to_be_bytes().to_vec())]
    } else {
        vec![Some((n as i64).to_be_bytes().to_vec()), Some((n + 7).to_be_bytes().to_vec())]
    }
}

// --- the two control-connection queries of a Session (system.peers: no rows; system.local: this node) ---

const T_UUID: &[u8] = &[0x00, 0x0C];
const T_INET: &[u8] = &[0x00, 0x10];
const T_TEXT: &[u8] = &[0x00, 0x0D];
const T_SET_TEXT: &[u8] = &[0x00, 0x22, 0x00, 0x0D];

fn node_cols(local: bool) -> Vec<(&'static str, &'static [u8])> {
    let mut v = vec![("host_id", T_UUID), ("rpc_address", T_INET), ("data_center", T_TEXT), ("rack", T_TEXT), ("tokens", T_SET_TEXT)];
    if local {
        v.push(("cluster_name", T_TEXT));
    }
    v
}

fn write_meta_raw(b: &mut Vec<u8>, cols: &[(&str, &[u8])], table: &str, no_metadata: bool) {
    w_int(b, if no_metadata { 0x0004 } else { 0x0001 });
    w_int(b, cols.len() as i32);
    if !no_metadata {
        w_string(b, "system");
        w_string(b, table);
        for (name, ty) in cols {
            w_string(b, name);
            b.extend_from_slice(ty);
        }
    }
}

fn body_prepared_raw(id: &[u8], cols: &[(&str, &[u8])], table: &str, ext: bool) -> Vec<u8> {
    let mut b = Vec::new();
    w_int(&mut b, 4);
    w_short_bytes(&mut b, id);
    if ext {
        w_short_bytes(&mut b, b"ctl");
    }
    w_int(&mut b, 0x0001); // prepared metadata: global table spec, no bind markers, no pk indexes
    w_int(&mut b, 0);
    w_int(&mut b, 0);
    w_string(&mut b, "system");
    w_string(&mut b, table);
    write_meta_raw(&mut b, cols, table, false);
    b
}

/// Host id of the `r`-th scripted peer (`ctl` cases).
fn peer_host_id(r: i32) -> [u8; 16] {
    let mut h = [0x22u8; 16];
    h[14] = (r >> 8) as u8;
    h[15] = r as u8;
    h
}

/// One page of `system.peers`: row `r` is a peer at 127.77.x.y with host id `peer_host_id(r)`.
fn body_peer_rows(no_metadata: bool, paging_state: Option<&[u8]>, rows: &[i32]) -> Vec<u8> {
    let mut b = Vec::new();
    w_int(&mut b, 2);
    let cols = node_cols(false);
    w_int(&mut b, (if no_metadata { 0x0004 } else { 0x0001 }) | (if paging_state.is_some() { 0x0002 } else { 0 }));
    w_int(&mut b, cols.len() as i32);
    if let Some(ps) = paging_state {
        w_bytes(&mut b, Some(ps));
    }
    if !no_metadata {
        w_string(&mut b, "system");
        w_string(&mut b, "peers");
        for (name, ty) in &cols {
            w_string(&mut b, name);
            b.extend_from_slice(ty);
        }
    }
    w_int(&mut b, rows.len() as i32);
    for r in rows {
        w_bytes(&mut b, Some(&peer_host_id(*r)));
        w_bytes(&mut b, Some(&[127, 77, (*r / 250) as u8, (*r % 250) as u8 + 1]));
        w_bytes(&mut b, Some(b"dc1"));
        w_bytes(&mut b, Some(b"r1"));
        w_bytes(&mut b, None);
    }
    b
}

fn body_node_rows(local: bool, no_metadata: bool) -> Vec<u8> {
    let mut b = Vec::new();
    w_int(&mut b, 2);
    write_meta_raw(&mut b, &node_cols(local), if local { "local" } else { "peers" }, no_metadata);
    if !local {
        w_int(&mut b, 0);
        return b;
    }
    w_int(&mut b, 1);
    w_bytes(&mut b, Some(&[0x11; 16]));
    w_bytes(&mut b, Some(&[127, 0, 0, 1]));
    w_bytes(&mut b, Some(b"dc1"));
    w_bytes(&mut b, Some(b"r1"));
    let mut set = Vec::new();
    w_int(&mut set, 1);
    w_bytes(&mut set, Some(b"0"));
    w_bytes(&mut b, Some(&set));
    w_bytes(&mut b, Some(b"mock"));
    b
}

/// The scripted server: QUERY frames with the case's statement text are paged like its EXECUTE frames
/// (the unprepared session pager); `USE` (sent by the session after a SetKeyspace first response) is
/// acknowledged or refused.
fn handler(script: Arc<Mutex<Script>>, min_conn: Arc<AtomicUsize>, ext: bool) -> Handler {
    let mut inner = handler_inner(Arc::clone(&script), min_conn, ext);
    Box::new(move |req0: &Request| {
        // with compression negotiated the client compresses its request bodies (frame flag 0x01): decompress
        // with the reference codecs and parse again
        let plain;
        let req = if req0.flags & 0x01 == 0 {
            req0
        } else {
            let comp = script.lock().unwrap().comp;
            let body = match comp {
                Some(Compression::Lz4) if req0.body.len() >= 4 => {
                    let n = u32::from_be_bytes([req0.body[0], req0.body[1], req0.body[2], req0.body[3]]) as usize;
                    lz4_flex::decompress(&req0.body[4..], n).unwrap_or_default()
                }
                Some(Compression::Snappy) => snap::raw::Decoder::new().decompress_vec(&req0.body).unwrap_or_default(),
                _ => Vec::new(),
            };
            plain = Request { parsed: parse_request(req0.opcode, &body, ext), body, flags: req0.flags & !0x01, ..req0.clone() };
            // what the mock node would have answered itself, had it been able to read the frame
            match &plain.parsed {
                Parsed::Register(_) => return vec![Action::Respond(RESP_READY, vec![])],
                Parsed::Options => return vec![Action::Respond(RESP_SUPPORTED, body_supported(ext, None))],
                _ => {}
            }
            &plain
        };
        match &req.parsed {
            Parsed::Query { text, params } if md5ish(text) == script.lock().unwrap().statement_id => {
                let as_execute = Request {
                    parsed: Parsed::Execute { id: md5ish(text), result_metadata_id: None, params: params.clone() },
                    ..req.clone()
                };
                inner(&as_execute)
            }
            Parsed::Query { text, .. } if text.starts_with("USE ") => {
                if script.lock().unwrap().use_fails {
                    vec![Action::Respond(RESP_ERROR, body_error(0x2200, "no such keyspace", &[]))]
                } else {
                    vec![Action::Respond(RESP_RESULT, body_set_keyspace(text[4..].trim().trim_matches('"')))]
                }
            }
            _ => inner(req),
        }
    })
}

/// The same server behind a mock CLUSTER: whichever node receives the frame, the script is one.
fn cluster_handler(script: Arc<Mutex<Script>>) -> ClusterHandler {
    let mut h = handler(Arc::clone(&script), Arc::new(AtomicUsize::new(0)), false);
    Box::new(move |r: &Req| {
        // a target is a node, or - on sharded nodes - a (node, shard) pair: `node * 64 + shard`
        script.lock().unwrap().cur_node = match r.shard {
            Some(sh) => r.node * 64 + sh as usize,
            None => r.node * 64,
        };
        let req = Request { seq: r.seq, conn: r.conn, stream: r.stream, flags: r.flags, opcode: r.opcode, body: r.body.clone(), parsed: r.parsed.clone() };
        h(&req)
            .into_iter()
            .map(|a| match a {
                Action::Respond(op, b) => Act::Respond(op, b),
                Action::Raw(b) => Act::Raw(b),
                Action::Delay(d) => Act::Delay(d),
                Action::Close => Act::Close,
            })
            .collect()
    })
}

fn handler_inner(script: Arc<Mutex<Script>>, min_conn: Arc<AtomicUsize>, ext: bool) -> Handler {
    let mut control: Vec<(Vec<u8>, bool)> = Vec::new(); // prepared id -> is system.local
    Box::new(move |req: &Request| match &req.parsed {
        // a straggler of an earlier case (its connection was abandoned after a drop / close / timeout)
        // must not consume the current case's script
        Parsed::Execute { .. } | Parsed::Prepare { .. } if req.conn < min_conn.load(Ordering::SeqCst) => {
            vec![Action::Respond(RESP_ERROR, body_error(0x1001, "stale connection", &[]))]
        }
        Parsed::Prepare { text } if text.contains("system.peers") || text.contains("system.local") => {
            let local = text.contains("system.local");
            let id = md5ish(text);
            if !control.iter().any(|(i, _)| *i == id) {
                control.push((id.clone(), local));
            }
            if !local {
                let mut s = script.lock().unwrap();
                if s.ctl {
                    s.statement_id = id.clone(); // the peers query is this case's paged statement
                }
            }
            vec![Action::Respond(RESP_RESULT, body_prepared_raw(&id, &node_cols(local), if local { "local" } else { "peers" }, ext))]
        }
        Parsed::Prepare { text } if text.contains("/*v*/") => {
            // one bind marker that is not part of the partition key
            let s = script.lock().unwrap();
            let c = cols(s.version);
            let rm = ResultMeta { col_count: c.len() as i32, cols: Some(c), ..Default::default() };
            let mid = metadata_id(s.version);
            let bind = [Col { name: "v".into(), type_id: 0x0009 }];
            vec![Action::Respond(RESP_RESULT, body_prepared(&md5ish(text), if ext { Some(&mid[..]) } else { None }, &bind, &[], &rm))]
        }
        Parsed::Prepare { text } if text.contains("/*pk2*/") => {
            // two bind markers forming a composite partition key
            let rm = ResultMeta { col_count: 1, cols: Some(cols(0)), ..Default::default() };
            let bind = [Col { name: "p".into(), type_id: 0x0003 }, Col { name: "q".into(), type_id: 0x0003 }];
            vec![Action::Respond(RESP_RESULT, body_prepared(&md5ish(text), None, &bind, &[0, 1], &rm))]
        }
        Parsed::Prepare { text } if text.contains("/*pk*/") => {
            // one bind marker, which is the partition key
            let rm = ResultMeta { col_count: 1, cols: Some(cols(0)), ..Default::default() };
            let bind = [Col { name: "p".into(), type_id: 0x0003 }];
            vec![Action::Respond(RESP_RESULT, body_prepared(&md5ish(text), None, &bind, &[0], &rm))]
        }
        Parsed::Prepare { text } => {
            let s = script.lock().unwrap();
            let c = if s.big { big_cols() } else { cols(s.version) };
            let rm = ResultMeta { col_count: c.len() as i32, cols: Some(c), ..Default::default() };
            let mid = metadata_id(s.version);
            vec![Action::Respond(RESP_RESULT, body_prepared(&md5ish(text), if ext { Some(&mid[..]) } else { None }, &[], &[], &rm))]
        }
        Parsed::Execute { id, params, .. }
            if control.iter().any(|(i, l)| i == id && (*l || !script.lock().unwrap().ctl)) =>
        {
            let local = control.iter().find(|(i, _)| i == id).unwrap().1;
            vec![Action::Respond(RESP_RESULT, body_node_rows(local, params.skip_metadata))]
        }
        Parsed::Execute { id, result_metadata_id, params } => {
            let mut s = script.lock().unwrap();
            if *id != s.statement_id {
                return vec![Action::Respond(RESP_ERROR, body_error(0x1001, "statement of another case", &[]))];
            }
            let pos = s.pos;
            s.execs.push((pos, params.paging_state.clone()));
            let node = s.cur_node;
            s.exec_nodes.push(node);
            s.exec_answers.push('p');
            s.exec_cls.push(params.consistency);
            let mut actions = Vec::new();
            loop {
                let fault = s.faults.get_mut(pos).and_then(|q| q.pop_front());
                if let Some(f) = fault {
                    if f != 'd' && f != 'X' {
                        *s.exec_answers.last_mut().unwrap() = f;
                    }
                }
                match fault {
                    Some('d') => actions.push(Action::Delay(Duration::from_millis(2))),
                    Some('u') => {
                        actions.push(Action::Respond(RESP_ERROR, body_unprepared(id)));
                        return actions;
                    }
                    Some('o') => {
                        actions.push(Action::Respond(RESP_ERROR, body_error(0x1001, "overloaded", &[])));
                        return actions;
                    }
                    Some('r') => {
                        // <cl><received><blockfor><data_present>
                        let mut extra = Vec::new();
                        w_short(&mut extra, 0x0001);
                        w_int(&mut extra, 0);
                        w_int(&mut extra, 1);
                        extra.push(0);
                        actions.push(Action::Respond(RESP_ERROR, body_error(0x1200, "read timeout", &extra)));
                        return actions;
                    }
                    Some('R') => {
                        // enough replies, only digests: the one ReadTimeout the default retry policy retries
                        let mut extra = Vec::new();
                        w_short(&mut extra, 0x0001);
                        w_int(&mut extra, 1);
                        w_int(&mut extra, 1);
                        extra.push(0);
                        actions.push(Action::Respond(RESP_ERROR, body_error(0x1200, "read timeout", &extra)));
                        return actions;
                    }
                    Some('W') => {
                        // WriteTimeout <cl><received><blockfor><writeType>: SIMPLE write, one replica answered
                        let mut extra = Vec::new();
                        w_short(&mut extra, 0x0001);
                        w_int(&mut extra, 1);
                        w_int(&mut extra, 2);
                        w_string(&mut extra, "SIMPLE");
                        actions.push(Action::Respond(RESP_ERROR, body_error(0x1100, "write timeout", &extra)));
                        return actions;
                    }
                    Some('Q') => {
                        // ReadTimeout with FEWER replies than required (1 of 2): the downgrading policy
                        // retries on the same target at consistency ONE
                        let mut extra = Vec::new();
                        w_short(&mut extra, 0x0006);
                        w_int(&mut extra, 1);
                        w_int(&mut extra, 2);
                        extra.push(0);
                        actions.push(Action::Respond(RESP_ERROR, body_error(0x1200, "read timeout", &extra)));
                        return actions;
                    }
                    Some('V') => {
                        // Unavailable, one replica alive: the downgrading policy retries at consistency ONE
                        let mut extra = Vec::new();
                        w_short(&mut extra, 0x0006);
                        w_int(&mut extra, 2);
                        w_int(&mut extra, 1);
                        actions.push(Action::Respond(RESP_ERROR, body_error(0x1000, "unavailable", &extra)));
                        return actions;
                    }
                    Some('U') => {
                        // Unavailable <cl><required><alive>
                        let mut extra = Vec::new();
                        w_short(&mut extra, 0x0001);
                        w_int(&mut extra, 2);
                        w_int(&mut extra, 0);
                        actions.push(Action::Respond(RESP_ERROR, body_error(0x1000, "unavailable", &extra)));
                        return actions;
                    }
                    Some('b') => {
                        actions.push(Action::Respond(RESP_ERROR, body_error(0x1002, "bootstrapping", &[])));
                        return actions;
                    }
                    Some('i') => {
                        actions.push(Action::Respond(RESP_ERROR, body_error(0x2200, "invalid", &[])));
                        return actions;
                    }
                    Some('k') | Some('K') => {
                        s.use_fails = fault == Some('K');
                        actions.push(Action::Respond(RESP_RESULT, body_set_keyspace("ks1")));
                        return actions;
                    }
                    Some('X') => {
                        // the caller cancels the constructor as soon as this request has arrived; it is
                        // answered late (with an error), to nobody
                        actions.push(Action::Delay(Duration::from_millis(250)));
                        actions.push(Action::Respond(RESP_ERROR, body_error(0x1001, "answered after the cancellation", &[])));
                        return actions;
                    }
                    Some('s') => {
                        actions.push(Action::Respond(RESP_ERROR, body_error(0x0000, "server error", &[])));
                        return actions;
                    }
                    Some('c') => {
                        actions.push(Action::Close);
                        return actions;
                    }
                    Some('T') => {
                        actions.push(Action::Delay(LATE));
                        actions.push(Action::Close);
                        return actions;
                    }
                    Some('v') => {
                        actions.push(Action::Respond(RESP_RESULT, body_void()));
                        return actions;
                    }
                    Some(_) => {}
                    None => break,
                }
            }
            // serve the page (beyond the script: an empty last page)
            let (n, state) = match s.pages.get(pos) {
                Some(p) => (p.rows, p.state.clone()),
                None => (0, None),
            };
            // the schema change scripted for this page happens now (once)
            if s.pages.get(pos).is_some_and(|p| p.meta_change) && !s.applied.get(pos).copied().unwrap_or(true) {
                s.applied[pos] = true;
                s.version += 1;
            }
            let version = s.version;
            let first = s.next_row;
            let values: Vec<i32> = (first..first + n).map(|v| v as i32).collect();
            let rows: Vec<Vec<Option<Vec<u8>>>> = values.iter().map(|v| encode_row(version, *v)).collect();
            s.next_row += n;
            s.pos += 1;
            s.sent.push(values);
            s.sent_versions.push(version);
            // as a real node does: a stale (or empty) result-metadata id in the EXECUTE is answered with
            // METADATA_CHANGED + the current id + full column specs, whatever skip_metadata says
            let current = metadata_id(version);
            let stale = s.ext && result_metadata_id.as_deref() != Some(&current[..]);
            let c = if s.big { big_cols() } else { cols(version) };
            let rm = ResultMeta {
                col_count: c.len() as i32,
                cols: if stale || s.always_full || !params.skip_metadata { Some(c) } else { None },
                paging_state: state,
                new_metadata_id: if stale { Some(current) } else { None },
            };
            if s.big {
                // rows (a, blob); the last row's blob is padded so that the RESULT body has exactly the
                // scripted number of bytes
                let values = s.sent.last().unwrap().clone();
                let mut lens = vec![8usize; values.len()];
                let zero = s.pages.get(pos).and_then(|p| p.zero_blob);
                if let Some(z) = zero {
                    lens = vec![z; values.len()];
                }
                let make = |lens: &[usize]| -> Vec<Vec<Option<Vec<u8>>>> {
                    values
                        .iter()
                        .zip(lens.iter())
                        .map(|(v, l)| vec![Some(v.to_be_bytes().to_vec()), Some(if zero.is_some() { vec![0u8; *l] } else { blob_of(*v, *l) })])
                        .collect()
                };
                if let (Some(target), Some(last)) = (s.pages.get(pos).and_then(|p| p.body_bytes), lens.len().checked_sub(1)) {
                    let base = body_rows(&rm, &make(&lens)).len();
                    if target > base {
                        lens[last] += target - base;
                    }
                }
                s.sent_blob_lens.extend(lens.iter().copied());
                actions.push(page_frame(s.comp, req.stream, body_rows(&rm, &make(&lens))));
                return actions;
            }
            if s.ctl {
                let values = s.sent.last().unwrap().clone();
                actions.push(Action::Respond(RESP_RESULT, body_peer_rows(params.skip_metadata, rm.paging_state.as_deref(), &values)));
                return actions;
            }
            actions.push(page_frame(s.comp, req.stream, body_rows(&rm, &rows)));
            actions
        }
        _ => vec![Action::Respond(RESP_ERROR, body_error(0x2200, "invalid", &[]))],
    })
}

// ---------------------------------------------------------------------------------------------
// environment kept across cases (one runtime, one mock node, one connection per hx process)
// ---------------------------------------------------------------------------------------------

enum Client {
    Conn(VerifConn),
    Sess(Session),
    /// `scache`: the same session wrapped in a `CachingSession` (its `execute_iter` prepares through the cache)
    Cache(CachingSession),
}

impl Client {
    fn session(&self) -> Option<&Session> {
        match self {
            Client::Sess(s) => Some(s),
            Client::Cache(c) => Some(c.get_session()),
            Client::Conn(_) => None,
        }
    }
}

enum Server {
    Node(MockNode),
    Cluster(MockCluster),
}

struct Env {
    node: Server,
    script: Arc<Mutex<Script>>,
    min_conn: Arc<AtomicUsize>,
    conn: Option<Client>,
}

thread_local! {
    static RT: tokio::runtime::Runtime = tokio::runtime::Builder::new_current_thread().enable_all().build().unwrap();
    /// one environment per (session?, metadata-id extension?)
    static ENVS: RefCell<Vec<Option<Env>>> = const { RefCell::new(Vec::new()) };
    static CASE_NO: std::cell::Cell<u64> = const { std::cell::Cell::new(0) };
    static HANGS: std::cell::Cell<u32> = const { std::cell::Cell::new(0) };
}

fn pager_error_label(e: &PagerExecutionError) -> String {
    match e {
        PagerExecutionError::NextPageError(n) => error_label(&NextRowError::NextPageError(n.clone())),
        PagerExecutionError::PrepareError(_) => "PrepareError".to_owned(),
        PagerExecutionError::SerializationError(_) => "SerializationError".to_owned(),
        PagerExecutionError::UseKeyspaceError(_) => "UseKeyspace".to_owned(),
        _ => "OtherPagerExecutionError".to_owned(),
    }
}

fn error_label(e: &NextRowError) -> String {
    match e {
        NextRowError::NextPageError(NextPageError::RequestFailure(r)) => match r {
            RequestError::RequestTimeout(_) => "Timeout".to_owned(),
            RequestError::EmptyPlan => "EmptyPlan".to_owned(),
            RequestError::ConnectionPoolError(_) => "ConnectionPoolError".to_owned(),
            RequestError::LastAttemptError(a) => match a {
                RequestAttemptError::DbError(db, _) => format!("DbError:{}", db.code(&Default::default())),
                RequestAttemptError::BrokenConnectionError(_) => "Broken".to_owned(),
                RequestAttemptError::UnexpectedResponse(_) => "UnexpectedResponse".to_owned(),
                RequestAttemptError::UnableToAllocStreamId => "UnableToAllocStreamId".to_owned(),
                RequestAttemptError::CqlResultParseError(_) => "CqlResultParseError".to_owned(),
                RequestAttemptError::CqlErrorParseError(_) => "CqlErrorParseError".to_owned(),
                RequestAttemptError::BodyExtensionsParseError(_) => "BodyExtensionsParseError".to_owned(),
                RequestAttemptError::RepreparedIdChanged { .. } => "RepreparedIdChanged".to_owned(),
                _ => "OtherAttemptError".to_owned(),
            },
            #[allow(unreachable_patterns)]
            _ => "OtherRequestError".to_owned(),
        },
        NextRowError::NextPageError(NextPageError::TypeCheckError(_)) => "TypeCheck".to_owned(),
        NextRowError::NextPageError(NextPageError::PartitionKeyError(_)) => "PartitionKey".to_owned(),
        NextRowError::NextPageError(NextPageError::ResultMetadataParseError(_)) => "ResultMetadataParse".to_owned(),
        NextRowError::NextPageError(_) => "OtherNextPageError".to_owned(),
        NextRowError::RowDeserializationError(_) => "RowDeserialization".to_owned(),
        #[allow(unreachable_patterns)]
        _ => "OtherNextRowError".to_owned(),
    }
}

struct Observed {
    delivered: Vec<i32>,
    /// column shape each delivered row was decoded with: 0 = (a int), 1 = (a bigint, b int = a+7), 255 = other
    shapes: Vec<u8>,
    fin: String,
}

fn conv_int(r: (i32,)) -> (i32, u8) {
    (r.0, 0)
}

thread_local! {
    /// blob length of every row delivered by a sized-page case
    static BLOB_LENS: RefCell<Vec<usize>> = const { RefCell::new(Vec::new()) };
}

fn conv_big(r: (i32, Vec<u8>)) -> (i32, u8) {
    let ok = r.1 == blob_of(r.0, r.1.len()) || r.1.iter().all(|b| *b == 0);
    BLOB_LENS.with(|b| b.borrow_mut().push(r.1.len()));
    (r.0, if ok { 2 } else { 255 })
}

fn conv_row(r: scylla::value::Row) -> (i32, u8) {
    use scylla::value::CqlValue;
    match r.columns.as_slice() {
        [Some(CqlValue::Int(a))] => (*a, 0),
        [Some(CqlValue::BigInt(a)), Some(CqlValue::Int(b))] if *b as i64 == *a + 7 => (*a as i32, 1),
        [Some(CqlValue::BigInt(a)), _] => (*a as i32, 255),
        [Some(CqlValue::Int(a)), ..] => (*a, 255),
        _ => (-1, 255),
    }
}

/// A future that polls its inner future only when one of the inner future's OWN wakers fired (and once at
/// the start): polls caused by other branches of a `select!` do not reach the inner future.
struct Isolated<F> {
    inner: std::pin::Pin<Box<F>>,
    flag: Arc<IsolatedFlag>,
}

struct IsolatedFlag {
    woken: std::sync::atomic::AtomicBool,
    outer: Mutex<Option<std::task::Waker>>,
}

impl std::task::Wake for IsolatedFlag {
    fn wake(self: Arc<Self>) {
        self.woken.store(true, Ordering::SeqCst);
        if let Some(w) = self.outer.lock().unwrap().as_ref() {
            w.wake_by_ref();
        }
    }
}

impl<F: std::future::Future> Isolated<F> {
    fn new(f: F) -> Self {
        Isolated { inner: Box::pin(f), flag: Arc::new(IsolatedFlag { woken: std::sync::atomic::AtomicBool::new(true), outer: Mutex::new(None) }) }
    }
}

impl<F: std::future::Future> std::future::Future for Isolated<F> {
    type Output = F::Output;
    fn poll(mut self: std::pin::Pin<&mut Self>, cx: &mut std::task::Context<'_>) -> std::task::Poll<F::Output> {
        *self.flag.outer.lock().unwrap() = Some(cx.waker().clone());
        if !self.flag.woken.swap(false, Ordering::SeqCst) {
            return std::task::Poll::Pending;
        }
        let waker = std::task::Waker::from(Arc::clone(&self.flag));
        let mut inner_cx = std::task::Context::from_waker(&waker);
        self.inner.as_mut().poll(&mut inner_cx)
    }
}

/// The consumer: `eager`, `slow`, `timed`, `drop<k>`, `pdrop<k>` over any typed row stream.
/// What the `kill<k>` consumer needs to stop the current coordinator.
struct KillCtx<'a> {
    cluster: &'a MockCluster,
    session: &'a Session,
    script: &'a Arc<Mutex<Script>>,
}

impl KillCtx<'_> {
    /// Waits until the producer is quiescent, stops the node that served the last page and waits until the
    /// driver's pool for it reports "not connected". Records (request index at the kill, node).
    async fn kill_coordinator(&self) {
        let count = || self.script.lock().unwrap().execs.len();
        let (mut last, mut stable) = (count(), 0);
        while stable < 4 {
            tokio::time::sleep(Duration::from_millis(2)).await;
            let c = count();
            if c == last { stable += 1 } else { stable = 0; last = c }
        }
        let node = {
            let s = self.script.lock().unwrap();
            s.exec_answers.iter().rposition(|a| *a == 'p').map(|i| s.exec_nodes[i] / 64)
        };
        let Some(node) = node else { return };
        self.cluster.stop_node(node).await;
        let hid = uuid::Uuid::from_bytes(host_id_of(node));
        let t0 = std::time::Instant::now();
        while t0.elapsed() < Duration::from_secs(8) {
            let cs = self.session.get_cluster_state();
            if cs.get_nodes_info().iter().any(|n| n.host_id == hid && !n.is_connected()) {
                break;
            }
            tokio::time::sleep(Duration::from_millis(2)).await;
        }
        let mut s = self.script.lock().unwrap();
        let at = s.execs.len();
        s.killed = Some((at, node));
    }
}

async fn consume<S, T>(mut stream: S, consumer: Consumer, conv: fn(T) -> (i32, u8), obs: &mut Observed, progress: &AtomicUsize, kill: Option<KillCtx<'_>>)
where
    S: futures::Stream<Item = Result<T, NextRowError>> + Unpin,
{
    let limit = match consumer {
        Consumer::Drop(k) | Consumer::PollDrop(k) => Some(k),
        _ => None,
    };
    let mut killed = false;
    loop {
        if let (Consumer::Kill(k), false, Some(ctx)) = (consumer, killed, kill.as_ref()) {
            if obs.delivered.len() >= k {
                killed = true;
                ctx.kill_coordinator().await;
            }
        }
        if let Some(k) = limit {
            if obs.delivered.len() >= k {
                if let Consumer::PollDrop(_) = consumer {
                    // let the producer get ahead a little (how far is the scheduler's business), then
                    // poll `next()` exactly once and drop it whatever it says
                    for _ in 0..(k % 4) {
                        tokio::task::yield_now().await;
                    }
                    let polled = {
                        let mut fut = stream.next();
                        futures::poll!(&mut fut)
                    };
                    match polled {
                        std::task::Poll::Pending => {}
                        std::task::Poll::Ready(Some(Ok(r))) => {
                            let (v, sh) = conv(r);
                            obs.delivered.push(v);
                            obs.shapes.push(sh);
                        }
                        std::task::Poll::Ready(None) => {
                            obs.fin = "end".to_owned();
                            return;
                        }
                        std::task::Poll::Ready(Some(Err(e))) => {
                            obs.fin = format!("err:{}", error_label(&e));
                            match stream.next().await {
                                None => obs.fin.push_str("+end"),
                                Some(Ok(_)) => obs.fin.push_str("+row"),
                                Some(Err(e2)) => obs.fin.push_str(&format!("+err:{}", error_label(&e2))),
                            }
                            return;
                        }
                    }
                }
                drop(stream);
                obs.fin = "dropped".to_owned();
                return;
            }
        }
        let item = if consumer == Consumer::Timed {
            loop {
                tokio::select! {
                    biased;
                    it = stream.next() => break it,
                    _ = tokio::time::sleep(Duration::from_millis(3)) => {}
                }
            }
        } else {
            stream.next().await
        };
        match item {
            Some(Ok(r)) => {
                let (v, sh) = conv(r);
                obs.delivered.push(v);
                obs.shapes.push(sh);
                progress.fetch_add(1, Ordering::SeqCst);
                if consumer == Consumer::Slow {
                    for _ in 0..3 {
                        tokio::task::yield_now().await;
                    }
                    if obs.delivered.len() % 37 == 3 {
                        tokio::time::sleep(Duration::from_millis(1)).await;
                    }
                }
            }
            Some(Err(e)) => {
                obs.fin = format!("err:{}", error_label(&e));
                // what does the stream say after the error?
                match stream.next().await {
                    None => obs.fin.push_str("+end"),
                    Some(Ok(_)) => obs.fin.push_str("+row"),
                    Some(Err(e2)) => obs.fin.push_str(&format!("+err:{}", error_label(&e2))),
                }
                return;
            }
            None => {
                obs.fin = "end".to_owned();
                return;
            }
        }
    }
}

/// After this many HANG verdicts in one `hx` process the remaining cases are not run (each hang costs its
/// watchdog window; the run has failed long before and the first verdicts name their cases).
const MAX_HANGS: u32 = 25;

async fn run_case(case: &Case, ctx: &mut Ctx) -> String {
    if HANGS.with(|h| h.get()) >= MAX_HANGS {
        return format!("NOT-RUN ({} earlier cases of this process hung)", MAX_HANGS);
    }
    // (re)build what is missing
    if case.cluster > 4 {
        return "bad-case".to_owned();
    }
    let slot = if case.ctl { 0 } else if case.caching { 8 + case.ext as usize } else if case.cluster > 0 && case.sharded { 11 + case.cluster } else if case.cluster > 0 { 3 + case.cluster } else { (case.session as usize) * 2 + case.ext as usize };
    let slot = slot + 16 * match case.comp { None => 0, Some(Compression::Lz4) => 1, Some(Compression::Snappy) => 2 };
    ENVS.with(|e| {
        let mut e = e.borrow_mut();
        if e.len() < 48 {
            e.resize_with(48, || None);
        }
    });
    // `via` = session profile: the case's policy / timeout live in the session's DEFAULT profile, so the session is the case's own
    let own_session = case.ctl || case.via == Via::SessProfile;
    let mut env = if own_session { None } else { ENVS.with(|e| e.borrow_mut()[slot].take()) };
    if env.is_none() {
        let script = Arc::new(Mutex::new(Script::default()));
        let min_conn = Arc::new(AtomicUsize::new(0));
        let node = if case.cluster > 0 {
            // n unsharded nodes in one datacenter; the control connection's queries are answered by the
            // cluster itself, everything else by the case's script (whichever node is asked)
            let nodes = (0..case.cluster)
                .map(|i| NodeSpec { host_id: host_id_of(i), dc: "dc1".into(), rack: "r1".into(), tokens: vec![(i as i64) * 1000 - 500, (i as i64) * 1000 + 7_000_000], shards: if case.sharded { ShardMode::ByPort(2, 12) } else { ShardMode::None } })
                .collect();
            let topo = Topology { nodes, keyspaces: Vec::new(), tablets_ext: false };
            Server::Cluster(MockCluster::start(topo, cluster_handler(Arc::clone(&script))).await)
        } else {
            Server::Node(MockNode::start(case.ext, None, handler(Arc::clone(&script), Arc::clone(&min_conn), case.ext)).await)
        };
        env = Some(Env { node, script, min_conn, conn: None });
    }
    let mut env = env.unwrap();
    {
        let mut s = env.script.lock().unwrap();
        *s = Script {
            pages: case.pages.clone(),
            faults: case.pages.iter().map(|p| p.faults.iter().copied().collect()).collect(),
            ext: case.ext,
            always_full: case.always_full,
            ctl: case.ctl,
            big: case.pages.iter().any(|p| p.body_bytes.is_some() || p.zero_blob.is_some()),
            comp: case.comp,
            applied: vec![false; case.pages.len()],
            ..Default::default()
        };
    }
    if let Server::Node(node) = &env.node {
        node.log.lock().unwrap().clear();
    }
    // every case prepares its own statement text (one PREPARE round trip): the prepared id tags the
    // case's EXECUTE frames, so a request still in flight from an earlier case cannot touch this script
    let case_no = CASE_NO.with(|c| {
        c.set(c.get() + 1);
        c.get()
    });
    // a client left broken by the previous case (its connection died on that case's account) is replaced once
    let mut rebuilt = false;
    let (mut prepared, unprepared_statement) = loop {
    if env.conn.is_none() {
      match &env.node {
        Server::Cluster(cluster) => {
            let mut built = None;
            for attempt in 0..3 {
                if let Ok(session) = cluster.session_builder().build().await {
                    if cluster.wait_pools_full(&session, Duration::from_secs(10)).await {
                        built = Some(session);
                        break;
                    }
                }
                tokio::time::sleep(Duration::from_millis(100 << attempt)).await;
            }
            match built {
                Some(session) => env.conn = Some(Client::Sess(session)),
                None => {
                    ctx.fail("harness: cannot build a session with full pools against the mock cluster");
                    return "HARNESS-ERROR".to_owned();
                }
            }
        }
        Server::Node(node) => {
        // connections accepted so far belong to abandoned clients
        env.min_conn.store(node.conn_shards().len(), Ordering::SeqCst);
        if case.session {
            // a one-node cluster: the control connection's system.peers / system.local are answered by
            // the handler; default execution profile (DefaultRetryPolicy, no speculative execution)
            let mut builder = SessionBuilder::new().known_node_addr(node.addr).compression(case.comp).fetch_schema_metadata(false);
            if case.via == Via::SessProfile {
                let policy: Arc<dyn RetryPolicy> = if case.downgrading { Arc::new(DowngradingConsistencyRetryPolicy::new()) } else { Arc::new(DefaultRetryPolicy::new()) };
                let timeout = if case.pages.iter().any(|p| p.faults.contains(&'T')) { Some(REQUEST_TIMEOUT) } else { None };
                builder = builder.default_execution_profile_handle(ExecutionProfile::builder().retry_policy(policy).request_timeout(timeout).build().into_handle());
            }
            let session = match builder.build().await {
                Ok(s) => s,
                Err(e) => {
                    ctx.fail(format!("harness: cannot build session: {e}"));
                    return "HARNESS-ERROR".to_owned();
                }
            };
            env.conn = Some(if case.caching { Client::Cache(CachingSession::from(session, 64)) } else { Client::Sess(session) });
        } else {
            let conn = match VerifConn::open(node.addr, VerifConnOptions { compression: case.comp, ..Default::default() }).await {
                Ok(c) => c,
                Err(e) => {
                    ctx.fail(format!("harness: cannot open connection: {e}"));
                    return "HARNESS-ERROR".to_owned();
                }
            };
            env.conn = Some(Client::Conn(conn));
        }
        }
      }
    }
    let text = format!("{} WHERE case_no = {}{}", QUERY, case_no, if case.with_values { " AND v = ? /*v*/" } else if case.pk_error && case.session { " AND p = ? AND q = ? /*pk2*/" } else if case.pk_error { " AND p = ? /*pk*/" } else { "" });
    if !case.ctl {
        env.script.lock().unwrap().statement_id = md5ish(&text);
    }
    let mut st = Statement::new(text);
    st.set_page_size(5000);
    // (the unprepared pager gets the statement itself; it is prepared here as well only to keep one code
    // path for the statement's settings - the PREPARE is not part of what is observed)
    let unprepared_statement = st.clone();
    let prepared = match env.conn.as_ref().unwrap() {
        Client::Conn(c) => c.prepare(&st).await,
        Client::Sess(s) => s.prepare(st).await.map_err(|e| e.to_string()),
        Client::Cache(c) => c.get_session().prepare(st).await.map_err(|e| e.to_string()),
    };
        match prepared {
            Ok(p) => break (p, unprepared_statement),
            Err(_) if !rebuilt => {
                rebuilt = true;
                env.conn = None;
            }
            Err(e) => {
                ctx.fail(format!("harness: cannot prepare: {e}"));
                return "HARNESS-ERROR".to_owned();
            }
        }
    };
    let has_timeout_fault = case.pages.iter().any(|p| p.faults.contains(&'T'));
    let dirty = own_session || matches!(case.consumer, Consumer::Kill(_)) || case.pages.iter().any(|p| p.faults.iter().any(|c| "TcXkK".contains(*c)));
    let conn = env.conn.as_ref().unwrap();
    prepared.set_use_cached_result_metadata(case.skip);
    if case.downgrading {
        prepared.set_is_idempotent(true);
        prepared.set_retry_policy(Some(Arc::new(DowngradingConsistencyRetryPolicy::new())));
    }
    prepared.set_request_timeout(if has_timeout_fault { Some(REQUEST_TIMEOUT) } else { None });
    // the `via` dimension: where the policy and the timeout IN FORCE come from (pager.rs 147-186)
    let case_policy = || -> Arc<dyn RetryPolicy> { if case.downgrading { Arc::new(DowngradingConsistencyRetryPolicy::new()) } else { Arc::new(DefaultRetryPolicy::new()) } };
    match case.via {
        Via::Statement => {}
        Via::Override => {
            prepared.set_retry_policy(Some(case_policy()));
            prepared.set_execution_profile_handle(Some(
                ExecutionProfile::builder().retry_policy(Arc::new(FallthroughRetryPolicy::new())).request_timeout(Some(Duration::from_secs(60))).build().into_handle(),
            ));
        }
        Via::StmtProfile => {
            prepared.set_retry_policy(None);
            prepared.set_request_timeout(None);
            prepared.set_execution_profile_handle(Some(
                ExecutionProfile::builder().retry_policy(case_policy()).request_timeout(if has_timeout_fault { Some(REQUEST_TIMEOUT) } else { None }).build().into_handle(),
            ));
        }
        Via::SessProfile => {
            prepared.set_retry_policy(None);
            prepared.set_request_timeout(None);
        }
    }
    if case.cluster > 0 {
        prepared.set_is_idempotent(case.idempotent);
    }
    let mut unprepared_statement = unprepared_statement;
    unprepared_statement.set_request_timeout(if has_timeout_fault { Some(REQUEST_TIMEOUT) } else { None });
    let cancel_ctor = case.pages[0].faults.contains(&'X');
    let unprepared = case.unprepared;
    let pk_error = case.pk_error;
    let with_values = case.with_values;

    let script = Arc::clone(&env.script);
    let consumer = case.consumer;
    let case_ext = case.ext;
    let case_ctl = case.ctl;
    let case_big = case.pages.iter().any(|p| p.body_bytes.is_some() || p.zero_blob.is_some());
    let progress = AtomicUsize::new(0);
    let env_node = &env.node;
    let body = async {
        let mut obs = Observed { delivered: Vec::new(), shapes: Vec::new(), fin: String::new() };
        if case_ctl {
            // the pager under test ran inside the session's metadata fetch (ControlConnection::query_iter ->
            // Connection::execute_iter): the rows it delivered are the peers the session knows
            if let Some(session) = conn.session() {
                let state = session.get_cluster_state();
                let mut found: Vec<i32> = state
                    .get_nodes_info()
                    .iter()
                    .filter_map(|n| {
                        let h = n.host_id.as_bytes();
                        (h[0] == 0x22).then(|| ((h[14] as i32) << 8) | h[15] as i32)
                    })
                    .collect();
                found.sort_unstable();
                obs.shapes = vec![0; found.len()];
                obs.delivered = found;
                obs.fin = "end".to_owned();
            }
            return obs;
        }
        let ctor = async {
            match conn {
                Client::Conn(c) => c.execute_iter_raw(prepared, SerializedValues::new()).await.map_err(|e| error_label(&e)),
                Client::Sess(s) if unprepared && with_values => {
                    // query_iter WITH values: the session prepares the statement and takes the execute_iter path
                    s.query_iter(unprepared_statement, (7i32,)).await.map_err(|e| pager_error_label(&e))
                }
                Client::Sess(s) if unprepared => s.query_iter(unprepared_statement, ()).await.map_err(|e| pager_error_label(&e)),
                Client::Cache(c) => c.execute_iter(unprepared_statement, ()).await.map_err(|e| pager_error_label(&e)),
                Client::Sess(s) if pk_error => {
                    // 70000 bytes in one component of a composite key: serializable, but no token can be computed
                    s.execute_iter(prepared, (vec![7u8; 70_000], vec![1u8])).await.map_err(|e| pager_error_label(&e))
                }
                Client::Sess(s) => s.execute_iter(prepared, ()).await.map_err(|e| pager_error_label(&e)),
            }
        };
        let pager = if cancel_ctor {
            // drop the constructor future as soon as the node has received the first page request
            let arrived = async {
                while script.lock().unwrap().exec_answers.last() != Some(&'p') {
                    tokio::task::yield_now().await;
                }
            };
            tokio::select! {
                biased;
                p = ctor => p,
                _ = arrived => Err("Cancelled".to_owned()),
            }
        } else {
            ctor.await
        };
        let pager = match pager {
            Ok(p) => p,
            Err(label) => {
                obs.fin = format!("ctor:{label}");
                return obs;
            }
        };
        if pager.column_specs().len() == 0 {
            // the session pager's "empty stream" for a non-Rows first response has no columns
            let mut stream = pager.rows_stream::<scylla::value::Row>().unwrap();
            if consumer == Consumer::Drop(0) {
                drop(stream);
                obs.fin = "dropped".to_owned();
                return obs;
            }
            obs.fin = match stream.next().await {
                None => "end".to_owned(),
                Some(Ok(_)) => "row-without-columns".to_owned(),
                Some(Err(e)) => format!("err:{}", error_label(&e)),
            };
            return obs;
        }
        if case_big {
            BLOB_LENS.with(|b| b.borrow_mut().clear());
            match pager.rows_stream::<(i32, Vec<u8>)>() {
                Ok(stream) => consume(stream, consumer, conv_big, &mut obs, &progress, None).await,
                Err(_) => obs.fin = "ctor:TypeCheck".to_owned(),
            }
        } else if case_ext {
            // the columns change from page to page: decode into untyped rows and check the shape per row
            match pager.rows_stream::<scylla::value::Row>() {
                Ok(stream) => consume(stream, consumer, conv_row, &mut obs, &progress, None).await,
                Err(_) => obs.fin = "ctor:TypeCheck".to_owned(),
            }
        } else {
            match pager.rows_stream::<(i32,)>() {
                Ok(stream) => {
                    let kill = match (&env_node, conn.session()) {
                        (Server::Cluster(cluster), Some(session)) => Some(KillCtx { cluster, session, script: &script }),
                        _ => None,
                    };
                    consume(stream, consumer, conv_int, &mut obs, &progress, kill).await
                }
                Err(_) => obs.fin = "ctor:TypeCheck".to_owned(),
            }
        }
        obs
    };
    // PER-CASE WATCHDOG. The case body runs "isolated": it is polled only when one of ITS OWN wakers fired (so
    // the watchdog's timer never re-polls the stream and cannot paper over a lost wake-up). The watchdog
    // declares a hang when for a long stretch of REAL time neither a row was delivered nor a page request
    // reached the node - milliseconds would do on an idle machine; the window is generous for a loaded one
    // and shrinks only after a first hang was already reported in this process (the run has failed then).
    let hangs_so_far = HANGS.with(|h| h.get());
    let mut window = if hangs_so_far == 0 { Duration::from_secs(8) } else if hangs_so_far < 3 { Duration::from_secs(3) } else if hangs_so_far < 8 { Duration::from_millis(1200) } else { Duration::from_millis(400) };
    if has_timeout_fault {
        window = window.max(Duration::from_secs(6));
    }
    if let Consumer::Kill(_) = case.consumer {
        window = window.max(Duration::from_secs(15)); // the driver has to notice the stopped node
    }
    let watchdog = async {
        let mut last = (usize::MAX, usize::MAX);
        let mut since = std::time::Instant::now();
        loop {
            tokio::time::sleep(Duration::from_millis(20)).await;
            let cur = (progress.load(Ordering::SeqCst), script.lock().unwrap().execs.len());
            if cur != last {
                last = cur;
                since = std::time::Instant::now();
            } else if since.elapsed() > window {
                return;
            }
        }
    };
    let outcome = tokio::select! {
        biased;
        o = Isolated::new(body) => Some(o),
        _ = watchdog => None,
    };
    let obs = match outcome {
        Some(o) => o,
        None => {
            HANGS.with(|h| h.set(h.get() + 1));
            let s = script.lock().unwrap();
            let sent_rows: usize = s.sent.iter().map(|p| p.len()).sum();
            let got = progress.load(Ordering::SeqCst);
            ctx.fail(format!(
                "HANG: the stream neither yielded the rows that follow row #{} nor ended or failed: {} page(s) with {} row(s) were served, the last one {} and with{} a paging state; {}no row was delivered and no request reached the node for {:?} (consumer `{}` never woken?)",
                got,
                s.sent.len(),
                sent_rows,
                if s.sent.last().is_some_and(|p| p.is_empty()) { "EMPTY" } else { "not empty" },
                if s.pos >= 1 && s.pages.get(s.pos - 1).is_some_and(|p| p.state.is_some()) { "" } else { "out" },
                match s.sent.iter().skip(1).position(|p| p.is_empty()) {
                    Some(j) => format!("page {} was a non-first EMPTY page; ", j + 1),
                    None => String::new(),
                },
                window,
                match case.consumer { Consumer::Eager => "eager (bare next().await)", Consumer::Slow => "slow", Consumer::Timed => "timed", _ => "drop" }
            ));
            // the connection may be stuck: start from scratch next time
            return format!("HANG rows={} requests={}", got, s.execs.len());
        }
    };

    // settle: the producer must stop fetching
    let count = || script.lock().unwrap().execs.len();
    let mut last = count();
    let mut stable = 0;
    let mut waited = 0;
    let need = if obs.fin == "dropped" { 3 } else { 1 };
    while stable < need && waited < 400 {
        if obs.fin == "dropped" {
            tokio::time::sleep(Duration::from_millis(2)).await;
        } else {
            for _ in 0..4 {
                tokio::task::yield_now().await;
            }
        }
        waited += 1;
        let c = count();
        if c == last {
            stable += 1;
        } else {
            stable = 0;
            last = c;
        }
    }
    if stable < need {
        ctx.fail("the node keeps receiving page requests after the stream finished / was dropped");
    }

    // ------------------------------------------------------------------------------------------
    // oracle, from the property statement and what the node saw (no model involved)
    // ------------------------------------------------------------------------------------------
    let s = script.lock().unwrap();
    let sent_flat: Vec<i32> = s.sent.iter().flatten().copied().collect();
    // 1. rows: exactly the rows of the pages the node sent, in order, each once (a prefix when dropped)
    match case.consumer {
        Consumer::Drop(k) if obs.fin == "dropped" => {
            if obs.delivered.len() != k || obs.delivered[..] != sent_flat[..k.min(sent_flat.len())] {
                ctx.fail(format!("dropped after {} rows: delivered {:?} is not the first {} rows the node sent", k, obs.delivered, k));
            }
        }
        Consumer::PollDrop(k) if obs.fin == "dropped" => {
            let m = obs.delivered.len();
            if (m != k && m != k + 1) || obs.delivered[..] != sent_flat[..m.min(sent_flat.len())] {
                ctx.fail(format!("dropped after {} rows and one more poll: delivered {:?} is not the first {} or {} rows the node sent", k, obs.delivered, k, k + 1));
            }
        }
        _ => {
            if obs.delivered != sent_flat {
                ctx.fail(format!(
                    "delivered rows {} differ from the rows of the pages the node sent {} (fin={})",
                    nat_list(&obs.delivered),
                    nat_list(&sent_flat),
                    obs.fin
                ));
            }
        }
    }
    // 1b. every row is decoded with the columns in force for ITS page (metadata-id extension: the
    //     columns change with the page that carries METADATA_CHANGED and stay changed afterwards)
    {
        let expected: Vec<u8> = s.sent.iter().zip(s.sent_versions.iter()).flat_map(|(rows, v)| std::iter::repeat_n(if s.big { 2 } else { (*v % 2) as u8 }, rows.len())).collect();
        if s.big {
            // contents intact: every delivered blob has the length that was sent (its bytes were checked on delivery)
            let got = BLOB_LENS.with(|b| b.borrow().clone());
            let m = got.len().min(s.sent_blob_lens.len());
            if got[..m] != s.sent_blob_lens[..m] {
                let i = (0..m).find(|i| got[*i] != s.sent_blob_lens[*i]).unwrap();
                ctx.fail(format!("row #{} was delivered with a blob of {} bytes, the node sent {} bytes", i, got[i], s.sent_blob_lens[i]));
            }
        }
        let m = obs.shapes.len().min(expected.len());
        if obs.shapes[..m] != expected[..m] {
            let i = (0..m).find(|i| obs.shapes[*i] != expected[*i]).unwrap();
            ctx.fail(format!(
                "row #{} was decoded with column shape {} but its page was sent with result metadata version {} (shape {})",
                i, obs.shapes[i], expected[i], expected[i]
            ));
        }
    }
    // 2. paging-state chain: an EXECUTE asking for page k carries the state returned with page k-1
    for (i, (pos, st)) in s.execs.iter().enumerate() {
        if *pos >= 1 && case.pages.get(pos - 1).is_none_or(|p| p.state.is_none()) {
            ctx.fail(format!("EXECUTE #{} arrived after the node had answered page {} without a paging state (no more pages)", i, pos - 1));
        }
        let expected = if *pos == 0 { None } else { case.pages.get(pos - 1).and_then(|p| p.state.clone()) };
        if *st != expected {
            ctx.fail(format!(
                "EXECUTE #{} (asking for page {}) carries paging state {} instead of {}",
                i,
                pos,
                fmt_state(st),
                fmt_state(&expected)
            ));
        }
    }
    // 2a. a retry at a lowered consistency (downgrading policy, `Q` / `V`): the re-sent request carries ONE -
    //     and, like every request, the same paging state (checked above)
    for i in 1..s.execs.len() {
        if "QV".contains(s.exec_answers[i - 1]) && s.execs[i].0 == s.execs[i - 1].0 {
            if s.exec_cls[i] != 0x0001 {
                ctx.fail(format!("request #{} retries page {} after a downgrade decision with consistency {:#06x} instead of ONE", i, s.execs[i].0, s.exec_cls[i]));
            }
        }
    }
    // 2b. PartitionKeyError: the constructor fails before anything is sent
    if case.pk_error && (obs.fin != "ctor:PartitionKey" || !s.execs.is_empty()) {
        ctx.fail(format!("the bound values lack the partition key: expected ctor:PartitionKey and no request, got fin={} and {} request(s)", obs.fin, s.execs.len()));
    }
    // 2c. cluster: which target (node; on sharded nodes (node, shard), printed as node*64+shard) gets which request (pager.rs 337-365 coordinator stability; RetryNextTarget
    //     goes to another node, RetrySameTarget to the same one) - the paging state is checked above and
    //     does not depend on the node
    if case.cluster > 0 {
        for i in 1..s.execs.len() {
            let (prev_pos, cur_pos) = (s.execs[i - 1].0, s.execs[i].0);
            let (prev_node, cur_node) = (s.exec_nodes[i - 1], s.exec_nodes[i]);
            let prev_answer = s.exec_answers[i - 1];
            let across_kill = s.killed.is_some_and(|(at, node)| i >= at && prev_node / 64 == node);
            if cur_pos == prev_pos + 1 && prev_answer == 'p' && cur_node != prev_node && !across_kill {
                ctx.fail(format!("request #{} (first attempt for page {}) went to node {} although page {} was served by node {}", i, cur_pos, cur_node, prev_pos, prev_node));
            }
            if cur_pos == prev_pos && prev_answer == 'R' && cur_node != prev_node {
                ctx.fail(format!("request #{} retries page {} on node {} after a same-target retry decision on node {}", i, cur_pos, cur_node, prev_node));
            }
            if cur_pos == prev_pos && "oUbs".contains(prev_answer) && cur_node == prev_node {
                ctx.fail(format!("request #{} retries page {} on the SAME node {} after a next-target retry decision", i, cur_pos, cur_node));
            }
        }
        // once a next-target decision has left a node, no later request for that page goes to it
        for pos in 0..=s.pos {
            let mut left: Vec<usize> = Vec::new();
            for i in 0..s.execs.len() {
                if s.execs[i].0 != pos {
                    continue;
                }
                if left.contains(&s.exec_nodes[i]) {
                    ctx.fail(format!("request #{} for page {} went back to node {}, which an earlier next-target retry of this fetch had left", i, pos, s.exec_nodes[i]));
                }
                if "oUbs".contains(s.exec_answers[i]) {
                    left.push(s.exec_nodes[i]);
                }
            }
        }
        if std::env::var_os("C07_DEBUG").is_some() {
            eprintln!("C07_DEBUG nodes={:?} answers={:?} killed={:?}", s.exec_nodes, s.exec_answers, s.killed);
        }
        // a stopped coordinator gets no request any more; the fetch that follows starts on another node -
        // with the paging state of the page before (checked above like for every request)
        if let Some((at, node)) = s.killed {
            for i in at..s.execs.len() {
                if s.exec_nodes[i] / 64 == node {
                    ctx.fail(format!("request #{} was received by node {} after it had been stopped", i, node));
                }
            }
        }
    }
    // 3. the expected end of the story, from the script alone
    // which faults are final is the documented behaviour of the two pagers: the single-connection pager
    // never retries (only the transparent re-prepare after UNPREPARED, once per attempt); the session
    // pager's default retry policy retries a digest-only ReadTimeout (`R`) once per page on the same node
    let session = case.session;
    let downgrading = case.downgrading;
    // downgrading policy, idempotent statement: a WriteTimeout(SIMPLE, received > 0) is answered with
    // IgnoreWriteError - "treat the request as done": the documented outcome is a stream that ends
    // without error after the rows of the earlier pages (pager.rs 220-226, 278-290)
    // (downgrading_consistency.rs 122-181: one retry per page - `was_retry` - on a short ReadTimeout `Q` or an
    // Unavailable with a replica alive `V`, at consistency ONE on the same target; after it every error is final)
    let dg_walk = |p: &PageSpec| -> Option<char> {
        // 'I' = ignored write error ends the stream here, 'F' = final failure here, None = the page is served
        let (mut unprepared, mut was_retry) = (false, false);
        for c in p.faults.iter() {
            match c {
                'd' => {}
                'u' => {
                    if unprepared {
                        return Some('F');
                    }
                    unprepared = true;
                }
                'Q' | 'V' if !was_retry => {
                    was_retry = true;
                    unprepared = false;
                }
                'W' if !was_retry => return Some('I'),
                _ => return Some('F'),
            }
        }
        None
    };
    let ignored_page = if downgrading { case.pages.iter().position(|p| dg_walk(p).is_some()).filter(|k| dg_walk(&case.pages[*k]) == Some('I')) } else { None };
    let cluster = case.cluster;
    let idempotent = case.idempotent;
    // pages fetched after a `kill` have one connectable target fewer
    let killed_from_page = s.killed.map(|(at, _)| s.execs.get(at).map(|e| e.0).unwrap_or(usize::MAX));
    let fatal_page = case.pages.iter().enumerate().position(|(page_idx, p)| {
        if downgrading {
            return dg_walk(p) == Some('F');
        }
        if cluster > 0 {
            // DefaultRetryPolicy (default.rs 57-170) over a plan of `cluster` targets, one retry session per page
            let alive = if killed_from_page.is_some_and(|q| page_idx >= q) { cluster - 1 } else { cluster };
            let (mut targets_left, mut unavailable_retried, mut read_retried) = (alive, false, false);
            for c in p.faults.iter() {
                let next_target = match c {
                    'd' => continue,
                    'o' | 's' => idempotent,
                    'b' => true,
                    'U' if !unavailable_retried => {
                        unavailable_retried = true;
                        true
                    }
                    'R' if !read_retried => {
                        read_retried = true;
                        continue; // same target once more
                    }
                    _ => return true,
                };
                if !next_target {
                    return true;
                }
                targets_left -= 1;
                if targets_left == 0 {
                    return true; // the plan ran out: the last error is final
                }
            }
            return false;
        }
        let mut unprepared = false;
        let mut read_retry = false;
        for c in p.faults.iter() {
            match c {
                'd' => {}
                'W' if downgrading => return false,
                'u' => {
                    if unprepared {
                        return true;
                    }
                    unprepared = true;
                }
                'R' if session && !read_retry => {
                    read_retry = true;
                    unprepared = false;
                }
                _ => return true,
            }
        }
        false
    });
    let last_page = case.pages.iter().position(|p| p.state.is_none()).unwrap_or(case.pages.len());
    let rows_before = |k: usize| -> Vec<i32> {
        let n: usize = case.pages.iter().take(k).map(|p| p.rows).sum();
        (0..n as i32).collect()
    };
    let fatal_page = fatal_page.filter(|k| *k <= last_page);
    let ignored_page = ignored_page.filter(|k| *k <= last_page && fatal_page.is_none_or(|f| *k < f));
    let fatal_page = fatal_page.filter(|f| ignored_page.is_none_or(|k| *f < k));
    if let (Some(k), true) = (ignored_page, obs.fin != "dropped") {
        if obs.fin != "end" || obs.delivered != rows_before(k) {
            ctx.fail(format!(
                "IgnoreWriteError on page {}: expected the {} rows of the earlier pages then end, got {} rows, fin={}",
                k,
                rows_before(k).len(),
                obs.delivered.len(),
                obs.fin
            ));
        }
    }
    // a non-Rows RESULT as the FIRST response of a session pager is, by design (pager.rs 436-454, issue
    // #631: non-SELECT statements run through the iterator API), an empty stream and not an error
    let void_first = session && {
        let f: Vec<char> = case.pages[0].faults.iter().copied().filter(|c| *c != 'd').collect();
        matches!(f.as_slice(), ['v' | 'k', ..] | ['u', 'v' | 'k', ..] | ['R', 'v' | 'k', ..] | ['u', 'R', 'v' | 'k', ..] | ['R', 'u', 'v' | 'k', ..])
    };
    if void_first && ignored_page.is_none() && obs.fin != "dropped" {
        if obs.fin != "end" || !obs.delivered.is_empty() {
            ctx.fail(format!("session pager, non-Rows first response: expected an empty stream, got {} rows, fin={}", obs.delivered.len(), obs.fin));
        }
    }
    let fatal_page = if void_first { None } else { fatal_page };
    let void_first = void_first || ignored_page.is_some();
    if case.pk_error {
        // judged above
    } else if obs.fin != "dropped" && !void_first {
        match fatal_page {
            None => {
                let all = rows_before(last_page + 1);
                if obs.delivered != all || obs.fin != "end" {
                    ctx.fail(format!(
                        "no fatal fault injected: expected all {} rows then end, got {} rows, fin={}",
                        all.len(),
                        obs.delivered.len(),
                        obs.fin
                    ));
                }
            }
            Some(k) => {
                let before = rows_before(k);
                let is_err = obs.fin.starts_with("err:") || obs.fin.starts_with("ctor:");
                if !is_err || obs.delivered != before {
                    ctx.fail(format!(
                        "fatal fault on page {}: expected the {} rows of the earlier pages then an error, got {} rows, fin={}",
                        k,
                        before.len(),
                        obs.delivered.len(),
                        obs.fin
                    ));
                }
                if (k == 0) != obs.fin.starts_with("ctor:") {
                    ctx.fail(format!("fatal fault on page {}: fin={}", k, obs.fin));
                }
                if obs.fin.starts_with("err:") && !obs.fin.ends_with("+end") {
                    ctx.fail(format!("the stream did not end after its error: fin={}", obs.fin));
                }
            }
        }
    } else if obs.fin == "dropped" {
        // 4. early drop: the producer is at most two pages ahead and fetches at most one more
        //    (one page more if the extra poll of `pdrop` swallowed an empty page)
        let k = obs.delivered.len();
        let slack = if let Consumer::PollDrop(_) = case.consumer { 4 } else { 3 };
        let mut acc = 0usize;
        let mut cur_page = 0usize;
        for (i, p) in case.pages.iter().enumerate() {
            acc += p.rows;
            if k >= 1 && acc >= k {
                cur_page = i;
                break;
            }
        }
        if s.sent.len() > cur_page + slack {
            ctx.fail(format!(
                "dropped while consuming page {}: the node served {} pages (more than 2 prefetched + 1 in flight)",
                cur_page,
                s.sent.len()
            ));
        }
    }
    let killed_at = s.killed;
    let log: Vec<String> = s.execs.iter().map(|(_, st)| fmt_state(st)).collect();
    drop(s);
    let mut out = format!(
        "rows={} fin={} log={}",
        nat_list(&obs.delivered),
        obs.fin,
        if log.is_empty() { "-".to_owned() } else { log.join(",") }
    );
    if let Some((at, _)) = killed_at {
        out.push_str(&format!(" kill={}", at));
    }
    if case.ext {
        // run-length encoding of the column shape of every delivered row
        let mut rle: Vec<(u8, usize)> = Vec::new();
        for sh in &obs.shapes {
            match rle.last_mut() {
                Some((v, n)) if v == sh => *n += 1,
                _ => rle.push((*sh, 1)),
            }
        }
        let body = if rle.is_empty() { "-".to_owned() } else { rle.iter().map(|(v, n)| format!("{}x{}", v, n)).collect::<Vec<_>>().join(",") };
        out.push_str(&format!(" ver={}", body));
    }
    if dirty {
        env.conn = None;
    }
    if case.session {
        if dirty {
            // the pool has lost its connection: start a fresh cluster next time
            return out;
        }
        ENVS.with(|e| e.borrow_mut()[slot] = Some(env));
    } else {
        ENVS.with(|e| e.borrow_mut()[slot] = Some(env));
    }
    out
}

pub fn run(case: &str, ctx: &mut Ctx) -> String {
    let Some(case) = parse_case(case) else { return "bad-case".to_owned() };
    if case.pages.is_empty() {
        return "bad-case".to_owned();
    }
    // Outer guard around the WHOLE case, setting up the client included: the `ctl` family's pager runs inside
    // `SessionBuilder::build()` (the metadata fetch), and a kill / rebuild can block as well. Generous; it
    // shrinks only after a hang was already reported in this process.
    let hangs = HANGS.with(|h| h.get());
    let limit = if hangs == 0 { Duration::from_secs(45) } else if hangs < 3 { Duration::from_secs(12) } else { Duration::from_secs(4) };
    RT.with(|rt| {
        rt.block_on(async {
            let outcome = tokio::time::timeout(limit, run_case(&case, ctx)).await;
            match outcome {
                Ok(line) => line,
                Err(_) => {
                    HANGS.with(|h| h.set(h.get() + 1));
                    ctx.fail(format!(
                        "HANG: the case did not finish within {:?}{}",
                        limit,
                        if case.ctl {
                            ": the session build - whose metadata fetch pages through system.peers with the control connection's pager - neither returned the peers nor failed"
                        } else {
                            " (outside the row stream: building the client, stopping a node or settling)"
                        }
                    ));
                    "HANG setup".to_owned()
                }
            }
        })
    })
}

// ---------------------------------------------------------------------------------------------
// generators
// ---------------------------------------------------------------------------------------------

/// Distinct paging states of length 0..=40 (`repeat`: one state is reused on purpose).
fn states(rng: &mut Rng, n: usize, repeat: bool) -> Vec<Vec<u8>> {
    let mut out: Vec<Vec<u8>> = Vec::new();
    for i in 0..n {
        if repeat && i > 0 && rng.chance(1, 3) {
            let j = rng.below(i as u64) as usize;
            out.push(out[j].clone());
            continue;
        }
        loop {
            let len = match rng.below(9) {
                8 if n <= 8 => *rng.pick(&[41usize, 127, 128, 255, 256, 300, 1000]),
                0 => 0,
                1 => 1,
                2 => 40,
                3 => *rng.pick(&[2usize, 8, 16, 39]),
                _ => rng.below(41) as usize,
            };
            let mut st = rng.bytes(len);
            if len >= 2 && rng.chance(1, 2) {
                // embed the index so that long scripts never collide by accident
                st[0] = (i >> 8) as u8;
                st[1] = i as u8;
            }
            if !out.contains(&st) {
                out.push(st);
                break;
            }
        }
    }
    out
}

fn build(sizes: &[usize], sts: &[Vec<u8>], faults: &[Vec<char>]) -> Vec<PageSpec> {
    let n = sizes.len();
    (0..n)
        .map(|i| PageSpec {
            rows: sizes[i],
            state: if i + 1 == n { None } else { Some(sts[i].clone()) },
            faults: faults.get(i).cloned().unwrap_or_default(),
            meta_change: false,
            body_bytes: None,
            zero_blob: None,
        })
        .collect()
}

/// All sequences of page sizes of length 1..=max_len over 0..=max_size with at most max_rows rows.
fn compositions(max_len: usize, max_size: usize, max_rows: usize) -> Vec<Vec<usize>> {
    let mut out = Vec::new();
    let mut cur: Vec<Vec<usize>> = vec![vec![]];
    for _ in 0..max_len {
        let mut next = Vec::new();
        for c in &cur {
            for s in 0..=max_size {
                let mut d = c.clone();
                d.push(s);
                if d.iter().sum::<usize>() <= max_rows {
                    next.push(d);
                }
            }
        }
        out.extend(next.iter().cloned());
        cur = next;
    }
    out
}

pub fn generate(rng: &mut Rng, tier: Tier, emit: &mut dyn FnMut(String)) {
    gen_family(rng, tier == Tier::Thorough, false, emit);
    gen_family(rng, tier == Tier::Thorough, true, emit);
    gen_downgrading(rng, tier == Tier::Thorough, emit);
    gen_metadata_changes(rng, tier == Tier::Thorough, emit);
    gen_cluster(rng, tier == Tier::Thorough, emit);
    gen_unprepared(rng, tier == Tier::Thorough, emit);
    gen_constructor(rng, tier == Tier::Thorough, emit);
    gen_control(rng, tier == Tier::Thorough, emit);
    gen_empty_pages(rng, tier == Tier::Thorough, emit);
    gen_dead_coordinator(rng, tier == Tier::Thorough, emit);
    gen_entry_points(rng, tier == Tier::Thorough, emit);
    gen_big_pages(rng, tier == Tier::Thorough, emit);
    gen_compressed(rng, tier == Tier::Thorough, emit);
    gen_via(rng, tier == Tier::Thorough, emit);
}

/// WHERE the policy in force is configured (`PagingExecutor::new`'s fallback, pager.rs 147-186): the scripts of
/// the downgrading family (whose outcome differs from the default policy's on `W`, `Q`, `V`) and of the `sess`
/// family with the faults on which DefaultRetryPolicy differs from FallthroughRetryPolicy (`R`), with the
/// policy / the request timeout set on the statement next to a contradicting profile (`o`), only in the
/// statement's own profile (`p`), only in the session's default profile (`s`: one session per case).
fn gen_via(rng: &mut Rng, thorough: bool, emit: &mut dyn FnMut(String)) {
    let (len, size, rows) = if thorough { (4, 2, 5) } else { (3, 2, 4) };
    let mut tick = 0usize;
    for sizes in compositions(len, size, rows) {
        let n = sizes.len();
        let total: usize = sizes.iter().sum();
        for k in 0..n {
            for (dg, f) in [(true, "W"), (true, "Q"), (true, "V"), (true, "QW"), (true, "uW"), (true, "o"), (false, "R"), (false, "RR"), (false, "uR"), (false, "o")] {
                tick += 1;
                let suffix = ["o", "p", "s"][tick % 3];
                if suffix == "s" && !thorough && tick % 4 != 0 {
                    continue; // every such case builds a session of its own
                }
                let mut faults = vec![vec![]; n];
                faults[k] = f.chars().collect();
                let sts = states(rng, n, false);
                let consumer = match (k + total) % 5 {
                    0 => Consumer::Slow,
                    1 => Consumer::Drop(total / 2),
                    _ => Consumer::Eager,
                };
                let kind = format!("{}{}", if dg { "sessdg" } else { "sess" }, suffix);
                emit(with_kind(fmt_case(tick % 2 == 0, consumer, &build(&sizes, &sts, &faults)), &kind));
            }
        }
    }
    for _ in 0..(if thorough { 3000 } else { 300 }) {
        let n = 1 + rng.below(8) as usize;
        let sizes: Vec<usize> = (0..n).map(|_| if rng.chance(1, 5) { 0 } else { rng.below(12) as usize }).collect();
        let sts = states(rng, n, false);
        let dg = rng.chance(2, 3);
        let mut faults = vec![vec![]; n];
        for f in faults.iter_mut() {
            if rng.chance(1, 6) {
                *f = vec![*rng.pick(&['u', 'd'])];
            }
        }
        for f in faults.iter_mut() {
            if rng.chance(1, 5) {
                f.push(if dg { *rng.pick(&['Q', 'V']) } else { 'R' });
            }
        }
        if rng.chance(3, 5) {
            let k = rng.below(n as u64) as usize;
            faults[k].push(if rng.chance(1, 6) { 'o' } else if dg { 'W' } else { 'R' });
        }
        let total: usize = sizes.iter().sum();
        let consumer = match rng.below(5) {
            0 => Consumer::Slow,
            1 => Consumer::Drop(rng.below(total as u64 + 1) as usize),
            _ => Consumer::Eager,
        };
        let suffix = *rng.pick(&["o", "p", "o", "p", "o", "p", "s"]);
        let kind = format!("{}{}", if dg { "sessdg" } else { "sess" }, suffix);
        emit(with_kind(fmt_case(rng.bool(), consumer, &build(&sizes, &sts, &faults)), &kind));
    }
    // the request timeout in force (real time: few cases)
    for i in 0..(if thorough { 12 } else { 3 }) {
        let n = 1 + (i % 3);
        let sizes: Vec<usize> = (0..n).map(|_| 1 + rng.below(3) as usize).collect();
        let sts = states(rng, n, false);
        let mut faults = vec![vec![]; n];
        faults[i % n] = vec!['T'];
        let kind = ["sesso", "sessp", "sesss"][i % 3];
        emit(with_kind(fmt_case(i % 2 == 0, Consumer::Eager, &build(&sizes, &sts, &faults)), kind));
    }
}

/// Frame COMPRESSION as a dimension (modes 4..7: LZ4 / Snappy negotiated, the node compresses every page):
/// ordinary scripts, and pages of highly repetitive rows (`:Z<n>`: blobs of n zero bytes) whose LZ4 ratio lies
/// below / around / above 64:1 and close to the format's maximum of 255:1 - as first, middle and last page,
/// with the unchanged rows oracle.
fn gen_compressed(rng: &mut Rng, thorough: bool, emit: &mut dyn FnMut(String)) {
    let set_mode = |line: String, mode: usize| -> String {
        let mut w: Vec<String> = line.split(' ').map(|x| x.to_owned()).collect();
        w[1] = mode.to_string();
        w.join(" ")
    };
    let kinds = ["pg", "sess", "squery", "scache", "sessdg", "squeryv"];
    // (rows per page, zero-blob bytes): ratio ~ (n + 12) / (n / 255 + 12)
    let zs: Vec<(usize, usize)> = if thorough {
        vec![(2000, 256), (50, 700), (50, 1000), (50, 1100), (50, 1300), (40, 2048), (30, 4096), (20, 16384), (10, 65536), (3, 1 << 20), (1, 4 << 20)]
    } else {
        vec![(2000, 256), (50, 1000), (50, 1300), (30, 4096), (10, 65536), (2, 1 << 20)]
    };
    let mut tick = 0usize;
    for (rows, z) in &zs {
        for pos in 0..3usize {
            for mode in [4usize, 5, 6] {
                tick += 1;
                if !thorough && tick % 2 == 0 && mode != 4 {
                    continue;
                }
                let kind = kinds[tick % kinds.len()];
                let mut sizes: Vec<usize> = (0..3).map(|_| 1 + rng.below(3) as usize).collect();
                sizes[pos] = *rows;
                let sts = states(rng, 3, false);
                let mut faults = vec![vec![]; 3];
                if tick % 6 == 0 {
                    faults[pos] = vec![if kind == "squery" { 'R' } else { 'u' }];
                }
                let mut pages = build(&sizes, &sts, &faults);
                pages[pos].zero_blob = Some(*z);
                if tick % 3 == 0 {
                    pages[(pos + 1) % 3].zero_blob = Some(1 + rng.below(3000) as usize);
                }
                let consumer = match tick % 7 {
                    0 => Consumer::Slow,
                    1 => Consumer::Timed,
                    _ => Consumer::Eager,
                };
                emit(set_mode(with_kind(fmt_case(false, consumer, &pages), kind), mode));
            }
        }
    }
    // ordinary scripts under compression (int rows; faults; drops)
    for _ in 0..(if thorough { 6_000 } else { 500 }) {
        let n = 1 + rng.below(8) as usize;
        let sizes: Vec<usize> = (0..n).map(|_| if rng.chance(1, 5) { 0 } else { 1 + rng.below(40) as usize }).collect();
        let total: usize = sizes.iter().sum();
        let sts = states(rng, n, false);
        let kind = *rng.pick(&kinds[..4]);
        let mut faults = vec![vec![]; n];
        for f in faults.iter_mut() {
            match rng.below(9) {
                0 if kind != "squery" => *f = vec!['u'],
                1 => *f = vec!['d'],
                2 if kind != "pg" => *f = vec!['R'],
                _ => {}
            }
        }
        if rng.chance(1, 5) {
            let j = rng.below(n as u64) as usize;
            faults[j].push(*rng.pick(&['o', 'r', 's']));
        }
        let consumer = match rng.below(7) {
            0 => Consumer::Slow,
            1 => Consumer::Drop(rng.below(total as u64 + 2) as usize),
            2 => Consumer::Timed,
            _ => Consumer::Eager,
        };
        let mode = 4 + rng.below(4) as usize;
        emit(set_mode(with_kind(fmt_case(false, consumer, &build(&sizes, &sts, &faults)), kind), mode));
    }
}

/// Page SIZE in bytes as a dimension ("a final page of any size"): RESULT bodies of exactly 2^20-1, 2^20,
/// 2^20+1 bytes and of a few MiB (the response reader preallocates at most 1 MiB and must go on reading),
/// as the first, a middle and the last page, with and without metadata, through the single-connection,
/// session, unprepared and cluster pagers; every row's blob is checked byte by byte on delivery.
fn gen_big_pages(rng: &mut Rng, thorough: bool, emit: &mut dyn FnMut(String)) {
    const MIB: usize = 1 << 20;
    let sizes_b: Vec<usize> =
        if thorough { vec![300_000, MIB - 1, MIB, MIB + 1, MIB + 4097, 2 * MIB, 2 * MIB + 1, 3 * MIB + 12345, 5 * MIB] } else { vec![MIB - 1, MIB, MIB + 1, 3 * MIB + 12345] };
    let kinds = ["pg", "sess", "clu2i", "squery", "scache"];
    let mut tick = 0usize;
    for b in &sizes_b {
        for pos in 0..3usize {
            for kind in kinds {
                tick += 1;
                if !thorough && tick % 3 != 0 && !(kind == "pg" && *b > MIB) {
                    continue;
                }
                // three pages of 1..3 rows; the sized one at `pos` (0 = first, 1 = middle, 2 = last)
                let sizes: Vec<usize> = (0..3).map(|_| 1 + rng.below(3) as usize).collect();
                let sts = states(rng, 3, false);
                let mut faults = vec![vec![]; 3];
                if tick % 5 == 0 {
                    faults[pos] = vec![if kind == "pg" || kind == "scache" { 'u' } else { 'R' }];
                }
                let mut pages = build(&sizes, &sts, &faults);
                pages[pos].body_bytes = Some(*b);
                if tick % 4 == 0 {
                    pages[(pos + 1) % 3].body_bytes = Some(MIB + 1 + rng.below(1000) as usize);
                }
                let consumer = match tick % 7 {
                    0 => Consumer::Slow,
                    1 => Consumer::Timed,
                    2 => Consumer::Drop(1 + tick % 3),
                    _ => Consumer::Eager,
                };
                emit(with_kind(fmt_case(tick % 2 == 0, consumer, &pages), kind));
            }
        }
    }
    // a single page, and a last page, of several MiB
    for (i, b) in [MIB + 1, 4 * MIB + 3].iter().enumerate() {
        let sts = states(rng, 2, false);
        let mut one = build(&[2], &sts, &[]);
        one[0].body_bytes = Some(*b);
        emit(fmt_case(i % 2 == 0, Consumer::Eager, &one));
        let mut two = build(&[1, 3], &sts, &[]);
        two[1].body_bytes = Some(*b);
        emit(fmt_sess_case(i % 2 == 1, Consumer::Eager, &two));
    }
}

/// The previous coordinator is stopped between two pages (`kill<k>`): its pool yields no connection, the
/// next fetch must start on another node WITH the paging state of the page before. Also the sharded
/// clusters (`cls`: a target is a (node, shard) pair; coordinator stability is per shard).
fn gen_dead_coordinator(rng: &mut Rng, thorough: bool, emit: &mut dyn FnMut(String)) {
    let kinds = ["clu2i", "clu2n", "clu3i", "clu3n", "cls2i", "cls3n"];
    let n_kill = if thorough { 400 } else { 60 };
    for i in 0..n_kill {
        let n = 3 + rng.below(6) as usize;
        let sizes: Vec<usize> = (0..n).map(|_| if rng.chance(1, 6) { 0 } else { 1 + rng.below(3) as usize }).collect();
        let total: usize = sizes.iter().sum();
        let sts = states(rng, n, false);
        let mut faults = vec![vec![]; n];
        if i % 3 == 0 {
            let j = rng.below(n as u64) as usize;
            faults[j] = vec![*rng.pick(&['R', 'd'])];
        }
        let kind = kinds[i % kinds.len()];
        if kind.as_bytes()[3] == b'2' && i % 2 == 1 {
            // two nodes: the plan is determined by the coordinator, next-target hops are determinate
            for _ in 0..(1 + rng.below(2)) {
                let j = rng.below(n as u64) as usize;
                faults[j].push(*rng.pick(&['o', 'b', 'U', 's', 'R']));
            }
        }
        let k = rng.below(total as u64 + 1) as usize;
        emit(with_kind(fmt_case(i % 2 == 0, Consumer::Kill(k), &build(&sizes, &sts, &faults)), kinds[i % kinds.len()]));
    }
    // sharded clusters: the whole fault table once more
    let n_sh = if thorough { 3_000 } else { 400 };
    for i in 0..n_sh {
        let n = 1 + rng.below(7) as usize;
        let sizes: Vec<usize> = (0..n).map(|_| if rng.chance(1, 5) { 0 } else { 1 + rng.below(6) as usize }).collect();
        let total: usize = sizes.iter().sum();
        let sts = states(rng, n, false);
        let mut faults = vec![vec![]; n];
        // On sharded nodes the plan of a later page is "(coordinator, its shard), then the load-balancing
        // plan minus that (node, shard)": the coordinator's node may come again with another (random) shard, so
        // the plan has n or n+1 targets. The script keeps the next-target hops of a page below n, where both
        // lengths give the same outcome.
        let nodes = [2usize, 2, 3, 3][i % 4];
        for f in faults.iter_mut() {
            if rng.chance(1, 3) {
                let mut hops = 0;
                for _ in 0..(1 + rng.below(3)) {
                    let c = *rng.pick(&['o', 'o', 'b', 'U', 'R', 's', 'd']);
                    if "obUs".contains(c) {
                        if hops + 1 >= nodes {
                            continue;
                        }
                        hops += 1;
                    }
                    f.push(c);
                }
            }
        }
        let consumer = match rng.below(8) {
            0 => Consumer::Slow,
            1 => Consumer::Timed,
            2 => Consumer::Drop(rng.below(total as u64 + 2) as usize),
            _ => Consumer::Eager,
        };
        emit(with_kind(fmt_case(i % 2 == 0, consumer, &build(&sizes, &sts, &faults)), ["cls2i", "cls2n", "cls3i", "cls3n"][i % 4]));
    }
}

/// Two more public entry points of the session pager: `Session::query_iter` WITH values (`squeryv`: the
/// session prepares the statement, then pages like execute_iter) and `CachingSession::execute_iter` (`scache`).
fn gen_entry_points(rng: &mut Rng, thorough: bool, emit: &mut dyn FnMut(String)) {
    let (len, size, rows) = if thorough { (4, 2, 5) } else { (3, 2, 4) };
    let mut tick = 0usize;
    for sizes in compositions(len, size, rows) {
        let n = sizes.len();
        let total: usize = sizes.iter().sum();
        for k in 0..n {
            for f in ["-", "u", "R", "o", "uu", "uR", "v"] {
                tick += 1;
                if !thorough && tick % 2 == 0 {
                    continue;
                }
                let mut faults = vec![vec![]; n];
                if f != "-" {
                    faults[k] = f.chars().collect();
                }
                let sts = states(rng, n, false);
                let consumer = match tick % 9 {
                    0 => Consumer::Slow,
                    1 => Consumer::Drop(tick % (total + 1)),
                    2 => Consumer::Timed,
                    _ => Consumer::Eager,
                };
                let kind = if tick % 4 < 2 { "squeryv" } else { "scache" };
                emit(with_kind(fmt_case(tick % 3 == 0, consumer, &build(&sizes, &sts, &faults)), kind));
            }
        }
    }
    for _ in 0..(if thorough { 4_000 } else { 400 }) {
        let n = 1 + rng.below(10) as usize;
        let sizes: Vec<usize> = (0..n).map(|_| if rng.chance(1, 5) { 0 } else { 1 + rng.below(20) as usize }).collect();
        let total: usize = sizes.iter().sum();
        let sts = states(rng, n, false);
        let mut faults = vec![vec![]; n];
        for f in faults.iter_mut() {
            match rng.below(8) {
                0 => *f = vec!['u'],
                1 => *f = vec!['R'],
                2 => *f = vec!['d'],
                _ => {}
            }
        }
        let consumer = match rng.below(6) {
            0 => Consumer::Slow,
            1 => Consumer::Drop(rng.below(total as u64 + 2) as usize),
            2 => Consumer::Timed,
            _ => Consumer::Eager,
        };
        let kind = if rng.bool() { "squeryv" } else { "scache" };
        let skipf = rng.bool();
        emit(with_kind(fmt_case(skipf, consumer, &build(&sizes, &sts, &faults)), kind));
    }
}

/// Non-first EMPTY pages followed by rows, by further empty pages, or by the end - in every pager family,
/// consumed by a bare `next().await` loop (`eager`: no wake source but the stream itself - a wake-up lost
/// after an empty page hangs it), under `select!` with a timer (`timed`) and with yields (`slow`).
fn gen_empty_pages(rng: &mut Rng, thorough: bool, emit: &mut dyn FnMut(String)) {
    let shapes: Vec<Vec<usize>> = vec![
        vec![1, 0, 1],
        vec![2, 0, 0, 1],
        vec![1, 0],
        vec![0, 0, 2],
        vec![3, 0, 2, 0, 1],
        vec![1, 0, 0, 0, 0, 1],
        vec![0, 1, 0],
        vec![2, 0, 0],
    ];
    let kinds = ["pg", "sess", "sessdg", "squery", "clu2i", "clu3n", "clu3i", "ctl"];
    let reps = if thorough { 6 } else { 1 };
    for rep in 0..reps {
        for sizes in &shapes {
            for kind in kinds {
                for consumer in [Consumer::Eager, Consumer::Timed, Consumer::Slow] {
                    if kind == "ctl" && consumer != Consumer::Eager {
                        continue;
                    }
                    let n = sizes.len();
                    let sts = states(rng, n, false);
                    emit(with_kind(fmt_case(rep % 2 == 1, consumer, &build(sizes, &sts, &[])), kind));
                    // with the metadata-id extension / a retried request on the empty page
                    if kind == "pg" || kind == "sess" {
                        emit(with_ext(with_kind(fmt_case(false, consumer, &build(sizes, &sts, &[])), kind), rep % 2 == 0));
                        let mut faults = vec![vec![]; n];
                        if let Some(j) = sizes.iter().skip(1).position(|x| *x == 0) {
                            faults[j + 1] = vec!['u'];
                        }
                        emit(with_kind(fmt_case(false, consumer, &build(sizes, &sts, &faults)), kind));
                    }
                }
            }
        }
    }
    for _ in 0..(if thorough { 6_000 } else { 600 }) {
        let n = 2 + rng.below(10) as usize;
        let sizes: Vec<usize> = (0..n).map(|i| if i > 0 && rng.chance(1, 2) { 0 } else { 1 + rng.below(6) as usize }).collect();
        let sts = states(rng, n, false);
        let kind = *rng.pick(&kinds[..7]);
        let consumer = *rng.pick(&[Consumer::Eager, Consumer::Eager, Consumer::Timed, Consumer::Slow]);
        emit(with_kind(fmt_case(rng.bool(), consumer, &build(&sizes, &sts, &[])), kind));
    }
}

/// The control connection's own pager: while a Session is built, its metadata fetch pages through
/// `system.peers` (ControlConnection::query_iter -> Connection::execute_iter); the script is that answer.
fn gen_control(rng: &mut Rng, thorough: bool, emit: &mut dyn FnMut(String)) {
    let (len, size, rows) = if thorough { (4, 2, 5) } else { (3, 2, 4) };
    let mut tick = 0usize;
    for sizes in compositions(len, size, rows) {
        let n = sizes.len();
        let sts = states(rng, n, false);
        tick += 1;
        emit(with_kind(fmt_case(tick % 2 == 0, Consumer::Eager, &build(&sizes, &sts, &[])), "ctl"));
        if thorough || tick % 3 == 0 {
            let mut faults = vec![vec![]; n];
            faults[tick % n] = vec!['u'];
            faults[(tick / 2) % n].insert(0, 'd');
            emit(with_kind(fmt_case(tick % 2 == 1, Consumer::Eager, &build(&sizes, &sts, &faults)), "ctl"));
        }
    }
    for _ in 0..(if thorough { 1_500 } else { 150 }) {
        let n = 1 + rng.below(8) as usize;
        let sizes: Vec<usize> = (0..n).map(|_| if rng.chance(1, 4) { 0 } else { 1 + rng.below(8) as usize }).collect();
        let repeat = rng.below(8) == 0;
        let sts = states(rng, n, repeat);
        let mut faults = vec![vec![]; n];
        for f in faults.iter_mut() {
            match rng.below(6) {
                0 => *f = vec!['u'],
                1 => *f = vec!['d'],
                _ => {}
            }
        }
        let mut pages = build(&sizes, &sts, &faults);
        if rng.chance(1, 10) {
            reshape(rng, &mut pages, &sts);
        }
        let skipf = rng.bool();
        emit(with_kind(fmt_case(skipf, Consumer::Eager, &pages), "ctl"));
    }
}

fn with_kind(line: String, kind: &str) -> String {
    let rest = line.split_once(' ').map(|x| x.1.to_owned()).unwrap_or_default();
    format!("{} {}", kind, rest)
}

/// Session pager on a 2- or 3-node mock cluster: page fetches that fail over to another node
/// (RetryNextTarget: overloaded / server error when idempotent, unavailable once, bootstrapping), retry on
/// the same node (digest-only read timeout), run out of nodes, or stop at once (not idempotent, other
/// errors). The model composes C06's execution-core model with the page loop (Model/PagerExec.lean).
fn gen_cluster(rng: &mut Rng, thorough: bool, emit: &mut dyn FnMut(String)) {
    const FAULTS: [&str; 22] = [
        "o", "oo", "ooo", "U", "UU", "b", "bb", "bbb", "R", "RR", "s", "r", "W", "i", "oR", "Ro", "bU", "Ub", "dod", "oUb", "RoR", "sb",
    ];
    let kinds = ["clu2i", "clu2n", "clu3i", "clu3n"];
    let (len, size, rows) = if thorough { (4, 2, 5) } else { (3, 2, 4) };
    let mut tick = 0usize;
    for sizes in compositions(len, size, rows) {
        let n = sizes.len();
        let total: usize = sizes.iter().sum();
        for k in 0..n {
            for f in FAULTS {
                tick += 1;
                if !thorough && tick % 2 == 1 {
                    continue;
                }
                let mut faults = vec![vec![]; n];
                faults[k] = f.chars().collect();
                let sts = states(rng, n, false);
                let consumer = match tick % 11 {
                    0 => Consumer::Slow,
                    1 => Consumer::Drop(tick % (total + 1)),
                    2 => Consumer::PollDrop(tick % (total + 1)),
                    _ => Consumer::Eager,
                };
                emit(with_kind(fmt_case(tick % 4 < 2, consumer, &build(&sizes, &sts, &faults)), kinds[tick % 4]));
            }
        }
    }
    for _ in 0..(if thorough { 15_000 } else { 1_500 }) {
        let n = 1 + rng.below(10) as usize;
        let sizes: Vec<usize> = (0..n).map(|_| if rng.chance(1, 5) { 0 } else { 1 + rng.below(20) as usize }).collect();
        let total: usize = sizes.iter().sum();
        let sts = states(rng, n, false);
        let mut faults = vec![vec![]; n];
        for f in faults.iter_mut() {
            if rng.chance(1, 3) {
                let m = 1 + rng.below(3);
                for _ in 0..m {
                    f.push(*rng.pick(&['o', 'o', 'b', 'U', 'R', 's', 'd']));
                }
            }
        }
        if rng.chance(1, 5) {
            let j = rng.below(n as u64) as usize;
            faults[j].push(*rng.pick(&['r', 'W', 'i']));
        }
        let mut pages = build(&sizes, &sts, &faults);
        if rng.chance(1, 12) {
            reshape(rng, &mut pages, &sts);
        }
        let consumer = match rng.below(8) {
            0 | 1 => Consumer::Slow,
            2 => Consumer::Drop(rng.below(total as u64 + 2) as usize),
            3 => Consumer::PollDrop(rng.below(total as u64 + 2) as usize),
            _ => Consumer::Eager,
        };
        let skipf = rng.bool();
        let kind = *rng.pick(&kinds[..]);
        emit(with_kind(fmt_case(skipf, consumer, &pages), kind));
    }
}

/// `Session::query_iter` with an unprepared statement without values: QUERY frames carry the paging state.
fn gen_unprepared(rng: &mut Rng, thorough: bool, emit: &mut dyn FnMut(String)) {
    let (len, size, rows) = if thorough { (4, 2, 5) } else { (3, 2, 4) };
    let mut tick = 0usize;
    for sizes in compositions(len, size, rows) {
        let n = sizes.len();
        let total: usize = sizes.iter().sum();
        let sts = states(rng, n, false);
        emit(with_kind(fmt_case(false, Consumer::Eager, &build(&sizes, &sts, &[])), "squery"));
        for k in 0..n {
            for f in ["o", "R", "RR", "v", "r", "s", "dR", "W"] {
                tick += 1;
                let mut faults = vec![vec![]; n];
                faults[k] = f.chars().collect();
                let sts = states(rng, n, false);
                let consumer = match tick % 9 {
                    0 => Consumer::Slow,
                    1 => Consumer::Drop(tick % (total + 1)),
                    2 => Consumer::PollDrop(tick % (total + 1)),
                    _ => Consumer::Eager,
                };
                emit(with_kind(fmt_case(false, consumer, &build(&sizes, &sts, &faults)), "squery"));
            }
        }
    }
    for _ in 0..(if thorough { 10_000 } else { 1_000 }) {
        let n = 1 + rng.below(12) as usize;
        let sizes: Vec<usize> = (0..n).map(|_| if rng.chance(1, 5) { 0 } else { 1 + rng.below(25) as usize }).collect();
        let total: usize = sizes.iter().sum();
        let repeat = rng.below(10) == 0;
        let sts = states(rng, n, repeat);
        let mut faults = vec![vec![]; n];
        for f in faults.iter_mut() {
            match rng.below(8) {
                0 => *f = vec!['R'],
                1 => *f = vec!['d'],
                _ => {}
            }
        }
        if rng.chance(1, 4) {
            let j = rng.below(n as u64) as usize;
            faults[j].push(*rng.pick(&['o', 'r', 's', 'W', 'R']));
            if j > 0 && rng.chance(1, 3) {
                faults[j] = vec!['v'];
            }
        }
        let mut pages = build(&sizes, &sts, &faults);
        if rng.chance(1, 12) {
            reshape(rng, &mut pages, &sts);
        }
        let consumer = match rng.below(8) {
            0 | 1 => Consumer::Slow,
            2 => Consumer::Drop(rng.below(total as u64 + 2) as usize),
            3 => Consumer::PollDrop(rng.below(total as u64 + 2) as usize),
            _ => Consumer::Eager,
        };
        emit(with_kind(fmt_case(false, consumer, &pages), "squery"));
    }
}

/// Constructor paths: PartitionKeyError before the first fetch (`pgk`), the constructor future dropped
/// while the first response is outstanding (`X`), a SetKeyspace first response whose `USE` succeeds (`k`)
/// or fails (`K`).
fn gen_constructor(rng: &mut Rng, thorough: bool, emit: &mut dyn FnMut(String)) {
    let shapes: Vec<Vec<usize>> = vec![vec![0], vec![2], vec![1, 1], vec![0, 2, 1], vec![3, 0, 0, 2]];
    let reps = if thorough { 4 } else { 1 };
    for _ in 0..reps {
        for sizes in &shapes {
            let n = sizes.len();
            let sts = states(rng, n, false);
            for skip in [false, true] {
                emit(with_kind(fmt_case(skip, Consumer::Eager, &build(sizes, &sts, &[])), "pgk"));
                emit(with_kind(fmt_case(skip, Consumer::Eager, &build(sizes, &sts, &[])), "sessk"));
            }
            for (kind, faults) in [
                ("pg", vec!["X", "dX", "uX"]),
                ("sess", vec!["X", "uX", "RX", "k", "K", "dk", "uk", "Rk", "uK"]),
                ("squery", vec!["X", "RX", "k", "K", "Rk"]),
            ] {
                for f in faults {
                    let mut fl = vec![vec![]; n];
                    fl[0] = f.chars().collect();
                    let consumer = if f.contains('k') && n > 1 { Consumer::Drop(0) } else { Consumer::Eager };
                    let consumer = if rng.chance(1, 3) { consumer } else { Consumer::Eager };
                    emit(with_kind(fmt_case(false, consumer, &build(sizes, &sts, &fl)), kind));
                }
            }
        }
    }
}

/// SCYLLA_USE_METADATA_ID negotiated; the statement's result metadata changes before page j (the page
/// then carries METADATA_CHANGED + new id + new column specs): first, middle (with a paging state), last
/// page; one or several changes; the other pages with NO_METADATA (mode 2) or full metadata (mode 3);
/// all three pager families, every consumer, faults around the change.
fn gen_metadata_changes(rng: &mut Rng, thorough: bool, emit: &mut dyn FnMut(String)) {
    let kinds: [fn(bool, Consumer, &[PageSpec]) -> String; 3] = [fmt_case, fmt_sess_case, fmt_dg_case];
    let (len, size, rows) = if thorough { (5, 2, 6) } else { (4, 2, 5) };
    let mut tick = 0usize;
    for sizes in compositions(len, size, rows) {
        let n = sizes.len();
        let total: usize = sizes.iter().sum();
        for j in 0..n {
            tick += 1;
            let sts = states(rng, n, false);
            let kind = kinds[tick % 3];
            // one change at page j
            let mut pages = build(&sizes, &sts, &[]);
            pages[j].meta_change = true;
            emit(with_ext(kind(false, Consumer::Eager, &pages), tick % 2 == 0));
            // a second change later (or at the last page); a slow consumer
            let mut pages2 = pages.clone();
            pages2[n - 1].meta_change = true;
            if j + 2 < n {
                pages2[j + 2].meta_change = true;
            }
            emit(with_ext(kinds[(tick + 1) % 3](false, Consumer::Slow, &pages2), tick % 2 == 1));
            // the change on a page whose request is re-sent (re-prepare / retried read timeout) or fails
            let mut pages3 = pages.clone();
            let f: &str = match (tick % 3, tick % 4) {
                (2, 0) => "uW",
                (2, _) => "u",
                (1, 1) => "R",
                (_, 2) => "uu",
                (_, 3) => "o",
                _ => "u",
            };
            pages3[j].faults = f.chars().collect();
            emit(with_ext(kind(false, Consumer::Eager, &pages3), tick % 2 == 0));
            // drops around the change
            let k = (tick + j) % (total + 1);
            emit(with_ext(kind(false, if tick % 2 == 0 { Consumer::Drop(k) } else { Consumer::PollDrop(k) }, &pages2), tick % 4 < 2));
        }
        // no change at all with the extension on (every page NO_METADATA / full metadata)
        tick += 1;
        let sts = states(rng, n, false);
        emit(with_ext(kinds[tick % 3](false, Consumer::Eager, &build(&sizes, &sts, &[])), tick % 2 == 0));
    }
    for _ in 0..(if thorough { 30_000 } else { 3_000 }) {
        let n = 1 + rng.below(14) as usize;
        let sizes: Vec<usize> = (0..n).map(|_| if rng.chance(1, 5) { 0 } else { 1 + rng.below(25) as usize }).collect();
        let total: usize = sizes.iter().sum();
        let repeat = rng.below(10) == 0;
        let sts = states(rng, n, repeat);
        let k = rng.below(3) as usize;
        let kind = kinds[k];
        let mut faults = vec![vec![]; n];
        for f in faults.iter_mut() {
            match rng.below(10) {
                0 => *f = vec!['u'],
                1 => *f = vec!['d'],
                2 if k == 1 => *f = vec!['R'],
                _ => {}
            }
        }
        if rng.chance(1, 4) {
            let j = rng.below(n as u64) as usize;
            faults[j].push(if k == 2 && rng.bool() { 'W' } else { 'o' });
        }
        let mut pages = build(&sizes, &sts, &faults);
        for p in pages.iter_mut() {
            if rng.chance(1, 4) {
                p.meta_change = true;
            }
        }
        if rng.chance(1, 10) {
            reshape(rng, &mut pages, &sts);
        }
        let consumer = match rng.below(8) {
            0 | 1 => Consumer::Slow,
            2 => Consumer::Drop(rng.below(total as u64 + 2) as usize),
            3 => Consumer::PollDrop(rng.below(total as u64 + 2) as usize),
            _ => Consumer::Eager,
        };
        emit(with_ext(kind(false, consumer, &pages), rng.bool()));
    }
}

/// Script shapes beyond "last page has no paging state": a page WITHOUT paging state in the middle (the
/// pages after it must never be asked for), and a script whose every page has a paging state (the mock
/// then answers one more request with an empty last page).
fn reshape(rng: &mut Rng, pages: &mut [PageSpec], sts: &[Vec<u8>]) {
    let n = pages.len();
    match rng.below(2) {
        0 if n >= 2 => {
            let j = rng.below(n as u64 - 1) as usize;
            pages[j].state = None;
        }
        _ => pages[n - 1].state = Some(sts[n - 1].clone()),
    }
}

/// The IgnoreWriteError branches of the session pager (pager.rs 220-226, 278-290): idempotent
/// statement, DowngradingConsistencyRetryPolicy, WriteTimeout(SIMPLE, received 1) on page k.
fn gen_downgrading(rng: &mut Rng, thorough: bool, emit: &mut dyn FnMut(String)) {
    let mut flip = false;
    let (len, size, rows) = if thorough { (4, 2, 5) } else { (3, 2, 4) };
    for sizes in compositions(len, size, rows) {
        let n = sizes.len();
        let total: usize = sizes.iter().sum();
        for k in 0..n {
            for f in ["W", "uW", "dW", "o", "u", "Q", "V", "QW", "VQ", "Qo", "uQ", "Vu", "QQ"] {
                let mut faults = vec![vec![]; n];
                faults[k] = f.chars().collect();
                let sts = states(rng, n, false);
                flip = !flip;
                let consumer = match (k + total) % 5 {
                    0 => Consumer::Slow,
                    1 => Consumer::Drop(total / 2),
                    _ => Consumer::Eager,
                };
                emit(fmt_dg_case(flip, consumer, &build(&sizes, &sts, &faults)));
            }
        }
    }
    for _ in 0..(if thorough { 8000 } else { 800 }) {
        let n = 1 + rng.below(12) as usize;
        let sizes: Vec<usize> = (0..n).map(|_| if rng.chance(1, 5) { 0 } else { rng.below(30) as usize }).collect();
        let sts = states(rng, n, false);
        let mut faults = vec![vec![]; n];
        for f in faults.iter_mut() {
            if rng.chance(1, 6) {
                *f = vec![*rng.pick(&['u', 'd'])];
            }
        }
        for f in faults.iter_mut() {
            if rng.chance(1, 7) {
                f.push(*rng.pick(&['Q', 'V']));
            }
        }
        if rng.chance(4, 5) {
            let k = rng.below(n as u64) as usize;
            faults[k].push(if rng.chance(1, 6) { 'o' } else { 'W' });
        }
        flip = !flip;
        let total: usize = sizes.iter().sum();
        let consumer = match rng.below(5) {
            0 => Consumer::Slow,
            1 => Consumer::Drop(rng.below(total as u64 + 1) as usize),
            _ => Consumer::Eager,
        };
        emit(fmt_dg_case(flip, consumer, &build(&sizes, &sts, &faults)));
    }
}

fn gen_family(rng: &mut Rng, thorough: bool, sess: bool, emit: &mut dyn FnMut(String)) {
    let fmt = |skip: bool, c: Consumer, p: &[PageSpec]| if sess { fmt_sess_case(skip, c, p) } else { fmt_case(skip, c, p) };
    let mut flip = false;
    let mut skip = || {
        flip = !flip;
        flip
    };
    // 1. exhaustive: every split of <= 6 rows into pages (empty pages, empty last page included)
    let (len1, size1) = match (thorough, sess) {
        (true, false) => (6, 6),
        (true, true) => (5, 3),
        (false, false) => (5, 3),
        (false, true) => (4, 2),
    };
    for sizes in compositions(len1, size1, 6) {
        let sts = states(rng, sizes.len(), false);
        emit(fmt(skip(), Consumer::Eager, &build(&sizes, &sts, &[])));
    }
    // all positive compositions of 0..=6 rows exactly
    for sizes in compositions(6, 6, 6) {
        if sizes.iter().all(|s| *s > 0) {
            let sts = states(rng, sizes.len(), false);
            emit(fmt(skip(), Consumer::Slow, &build(&sizes, &sts, &[])));
        }
    }
    // 2. exhaustive: one fault of every kind at every page of every small split; every drop point
    let (len2, size2, rows2) = match (thorough, sess) {
        (true, false) => (5, 2, 6),
        (true, true) => (4, 2, 5),
        (false, false) => (4, 2, 5),
        (false, true) => (3, 2, 4),
    };
    let fault_kinds: &[&str] = if sess {
        &["u", "o", "c", "v", "uu", "R", "RR", "uR", "Ru", "RuR", "uRu", "r", "s", "dR"]
    } else {
        &["u", "o", "c", "v", "uu", "du", "ud", "r", "s", "R"]
    };
    for sizes in compositions(len2, size2, rows2) {
        let n = sizes.len();
        let total: usize = sizes.iter().sum();
        for k in 0..n {
            for f in fault_kinds {
                if !thorough && ["r", "s", "ud", "R", "RuR", "uRu", "dR"].contains(f) && !(sess && *f == "R") && (k + total) % 3 != 0 {
                    continue;
                }
                if sess && *f == "c" && (k + total) % 4 != 0 {
                    continue; // every such case rebuilds the mock cluster
                }
                let mut faults = vec![vec![]; n];
                faults[k] = f.chars().collect();
                let sts = states(rng, n, false);
                emit(fmt(skip(), Consumer::Eager, &build(&sizes, &sts, &faults)));
            }
        }
        for k in 0..=total {
            let sts = states(rng, n, false);
            emit(fmt(skip(), Consumer::Drop(k), &build(&sizes, &sts, &[])));
            // one more poll before the drop (pending next(), possibly after an empty page)
            emit(fmt(skip(), Consumer::PollDrop(k), &build(&sizes, &sts, &[])));
            // the same drop points with a retried request / a failing request in flight
            let mut faults = vec![vec![]; n];
            faults[k % n] = vec![if sess { 'R' } else { 'u' }];
            faults[n - 1].push('o');
            emit(fmt(skip(), if k % 2 == 0 { Consumer::Drop(k) } else { Consumer::PollDrop(k) }, &build(&sizes, &sts, &faults)));
            let mut faults = vec![vec![]; n];
            faults[(k + 1) % n] = vec!['u'];
            emit(fmt(skip(), if k % 2 == 1 { Consumer::Drop(k) } else { Consumer::PollDrop(k) }, &build(&sizes, &sts, &faults)));
        }
        // pages after a page without paging state; a script that never says "no more pages"
        if n >= 2 {
            for j in 0..n - 1 {
                let sts = states(rng, n, false);
                let mut pages = build(&sizes, &sts, &[]);
                pages[j].state = None;
                emit(fmt(skip(), Consumer::Eager, &pages));
            }
        }
        {
            let sts = states(rng, n, false);
            let mut pages = build(&sizes, &sts, &[]);
            pages[n - 1].state = Some(sts[n - 1].clone());
            emit(fmt(skip(), if total % 2 == 0 { Consumer::Eager } else { Consumer::Drop(total) }, &pages));
        }
    }
    // 3. random: 0..200 rows, random splits, empty pages, long states, repeated states, faults, consumers
    let n_random = match (thorough, sess) {
        (true, false) => 250_000,
        (true, true) => 80_000,
        (false, false) => 20_000,
        (false, true) => 8_000,
    };
    let fatal: &[&str] = if sess { &["o", "r", "s", "v", "uu", "RR", "o", "uu"] } else { &["o", "r", "s", "c", "v", "uu", "R"] };
    for _ in 0..n_random {
        let total = match rng.below(6) {
            0 => rng.below(8) as usize,
            1 => 200,
            2 => *rng.pick(&[1usize, 2, 7, 50, 100, 199]),
            _ => rng.below(201) as usize,
        };
        let mut sizes = Vec::new();
        let mut left = total;
        let max_page = match rng.below(4) {
            0 => 1,
            1 => 3,
            2 => 20,
            _ => 200,
        };
        while left > 0 && sizes.len() < 60 {
            if rng.chance(1, 6) {
                sizes.push(0);
                continue;
            }
            let s = (1 + rng.below(max_page.min(left) as u64) as usize).min(left);
            sizes.push(s);
            left -= s;
        }
        if left > 0 {
            sizes.push(left);
        }
        // empty pages at the end / an empty final page
        match rng.below(4) {
            0 => sizes.push(0),
            1 => {
                sizes.push(0);
                sizes.push(0);
            }
            _ => {}
        }
        if sizes.is_empty() {
            sizes.push(0);
        }
        let n = sizes.len();
        let repeat = rng.chance(1, 8);
        let sts = states(rng, n, repeat);
        let mut faults = vec![vec![]; n];
        match rng.below(10) {
            0..=2 => {}
            3..=5 => {
                // harmless faults only: retried UNPREPARED / (session) retried ReadTimeout, delays
                for f in faults.iter_mut() {
                    match rng.below(8) {
                        0 => *f = vec!['u'],
                        1 => *f = vec!['d'],
                        2 => *f = vec!['d', 'u'],
                        3 if sess => *f = vec!['R'],
                        4 if sess => *f = if rng.bool() { vec!['u', 'R'] } else { vec!['R', 'u'] },
                        _ => {}
                    }
                }
            }
            _ => {
                let k = rng.below(n as u64) as usize;
                for (i, f) in faults.iter_mut().enumerate().take(k) {
                    if rng.chance(1, 5) {
                        *f = if i % 2 == 0 { vec!['u'] } else if sess { vec!['R'] } else { vec!['d'] };
                    }
                }
                faults[k] = rng.pick(fatal).chars().collect();
                if sess && k == 0 && faults[k] == ['v'] {
                    faults[k] = vec!['o'];
                }
                if rng.chance(1, 4) && faults[k] != ['u', 'u'] {
                    faults[k].insert(0, 'u');
                }
            }
        }
        let consumer = match rng.below(6) {
            0 | 1 => Consumer::Slow,
            2 => {
                let k = match rng.below(3) {
                    0 => rng.below(3) as usize,
                    1 => total,
                    _ => rng.below(total as u64 + 2) as usize,
                };
                if rng.chance(1, 3) { Consumer::PollDrop(k) } else { Consumer::Drop(k) }
            }
            _ => Consumer::Eager,
        };
        let mut pages = build(&sizes, &sts, &faults);
        if rng.chance(1, 10) {
            reshape(rng, &mut pages, &sts);
        }
        emit(fmt(skip(), consumer, &pages));
    }
    // 4. client-side request timeout on page k (real time: few cases)
    let n_timeout = match (thorough, sess) {
        (true, false) => 48,
        (true, true) => 16,
        (false, false) => 8,
        (false, true) => 3,
    };
    for i in 0..n_timeout {
        let n = 1 + (i % 4);
        let sizes: Vec<usize> = (0..n).map(|_| rng.below(4) as usize).collect();
        let sts = states(rng, n, false);
        let mut faults = vec![vec![]; n];
        faults[i % n] = vec!['T'];
        emit(fmt(skip(), if i % 3 == 0 { Consumer::Slow } else { Consumer::Eager }, &build(&sizes, &sts, &faults)));
    }
}

//! A scripted CQL v4 server on a loopback TCP socket (used by C07, C14, C18, C20 through
//! `verif_hooks::connection::VerifConn`, i.e. a single real driver connection).
//!
//! The frame encoder/decoder here is written from the protocol specification, independently of the
//! driver's own codec: what the driver sends is parsed by `parse_request`, what it receives is built by
//! the `resp_*` helpers. Every received frame is recorded with a logical clock.
//!
//! The server's behaviour is a user-supplied handler `FnMut(&Request) -> Vec<Action>` run under a mutex
//! (one request at a time, in arrival order), so a test script can keep arbitrary state.

use std::collections::HashMap;
use std::net::SocketAddr;
use std::sync::{Arc, Mutex};
use tokio::io::{AsyncReadExt, AsyncWriteExt};
use tokio::net::TcpListener;

// ---------------------------------------------------------------------------------------------
// primitive writers / readers
// ---------------------------------------------------------------------------------------------

pub fn w_short(b: &mut Vec<u8>, v: u16) {
    b.extend_from_slice(&v.to_be_bytes());
}
pub fn w_int(b: &mut Vec<u8>, v: i32) {
    b.extend_from_slice(&v.to_be_bytes());
}
pub fn w_long(b: &mut Vec<u8>, v: i64) {
    b.extend_from_slice(&v.to_be_bytes());
}
pub fn w_string(b: &mut Vec<u8>, s: &str) {
    w_short(b, s.len() as u16);
    b.extend_from_slice(s.as_bytes());
}
pub fn w_bytes(b: &mut Vec<u8>, v: Option<&[u8]>) {
    match v {
        None => w_int(b, -1),
        Some(v) => {
            w_int(b, v.len() as i32);
            b.extend_from_slice(v);
        }
    }
}
pub fn w_short_bytes(b: &mut Vec<u8>, v: &[u8]) {
    w_short(b, v.len() as u16);
    b.extend_from_slice(v);
}
pub fn w_string_multimap(b: &mut Vec<u8>, m: &[(&str, Vec<&str>)]) {
    w_short(b, m.len() as u16);
    for (k, vs) in m {
        w_string(b, k);
        w_short(b, vs.len() as u16);
        for v in vs {
            w_string(b, v);
        }
    }
}

pub struct Rd<'a>(pub &'a [u8]);

impl<'a> Rd<'a> {
    pub fn take(&mut self, n: usize) -> Option<&'a [u8]> {
        if self.0.len() < n {
            return None;
        }
        let (a, b) = self.0.split_at(n);
        self.0 = b;
        Some(a)
    }
    pub fn byte(&mut self) -> Option<u8> {
        self.take(1).map(|b| b[0])
    }
    pub fn short(&mut self) -> Option<u16> {
        self.take(2).map(|b| u16::from_be_bytes([b[0], b[1]]))
    }
    pub fn int(&mut self) -> Option<i32> {
        self.take(4).map(|b| i32::from_be_bytes([b[0], b[1], b[2], b[3]]))
    }
    pub fn long(&mut self) -> Option<i64> {
        self.take(8).map(|b| i64::from_be_bytes(b.try_into().unwrap()))
    }
    pub fn string(&mut self) -> Option<String> {
        let n = self.short()? as usize;
        String::from_utf8(self.take(n)?.to_vec()).ok()
    }
    pub fn long_string(&mut self) -> Option<String> {
        let n = self.int()?;
        if n < 0 {
            return None;
        }
        String::from_utf8(self.take(n as usize)?.to_vec()).ok()
    }
    pub fn bytes(&mut self) -> Option<Option<Vec<u8>>> {
        let n = self.int()?;
        if n < 0 {
            return Some(None);
        }
        Some(Some(self.take(n as usize)?.to_vec()))
    }
    pub fn short_bytes(&mut self) -> Option<Vec<u8>> {
        let n = self.short()? as usize;
        Some(self.take(n)?.to_vec())
    }
}

// ---------------------------------------------------------------------------------------------
// requests as the server sees them
// ---------------------------------------------------------------------------------------------

pub const OP_STARTUP: u8 = 0x01;
pub const OP_OPTIONS: u8 = 0x05;
pub const OP_QUERY: u8 = 0x07;
pub const OP_PREPARE: u8 = 0x09;
pub const OP_EXECUTE: u8 = 0x0A;
pub const OP_REGISTER: u8 = 0x0B;
pub const OP_BATCH: u8 = 0x0D;

#[derive(Clone, Debug, Default, PartialEq)]
pub struct QueryParams {
    pub consistency: u16,
    pub flags: u8,
    /// `None` = null, `Some(None)` = unset is not distinguished here: raw (length, bytes) cells
    pub values: Vec<Option<Vec<u8>>>,
    pub unset: Vec<bool>,
    pub skip_metadata: bool,
    pub page_size: Option<i32>,
    pub paging_state: Option<Vec<u8>>,
    pub serial_consistency: Option<u16>,
    pub timestamp: Option<i64>,
}

#[derive(Clone, Debug, PartialEq)]
pub enum Parsed {
    Options,
    Startup(Vec<(String, String)>),
    Register(Vec<String>),
    Query { text: String, params: QueryParams },
    Prepare { text: String },
    Execute { id: Vec<u8>, result_metadata_id: Option<Vec<u8>>, params: QueryParams },
    Batch { kind: u8, statements: Vec<BatchStmt>, consistency: u16, flags: u8, serial_consistency: Option<u16>, timestamp: Option<i64> },
    Unparsed,
}

#[derive(Clone, Debug, PartialEq)]
pub enum BatchStmt {
    Query(String, Vec<Option<Vec<u8>>>),
    Prepared(Vec<u8>, Vec<Option<Vec<u8>>>),
}

#[derive(Clone, Debug)]
pub struct Request {
    pub seq: u64,
    pub conn: usize,
    pub stream: i16,
    pub flags: u8,
    pub opcode: u8,
    pub body: Vec<u8>,
    pub parsed: Parsed,
}

fn parse_values(r: &mut Rd) -> Option<(Vec<Option<Vec<u8>>>, Vec<bool>)> {
    let n = r.short()? as usize;
    let mut vals = Vec::with_capacity(n.min(4096));
    let mut unset = Vec::with_capacity(n.min(4096));
    for _ in 0..n {
        let len = r.int()?;
        if len == -2 {
            vals.push(None);
            unset.push(true);
        } else if len < 0 {
            vals.push(None);
            unset.push(false);
        } else {
            vals.push(Some(r.take(len as usize)?.to_vec()));
            unset.push(false);
        }
    }
    Some((vals, unset))
}

fn parse_query_params(r: &mut Rd) -> Option<QueryParams> {
    let consistency = r.short()?;
    let flags = r.byte()?;
    let mut p = QueryParams { consistency, flags, ..Default::default() };
    if flags & 0x01 != 0 {
        let (v, u) = parse_values(r)?;
        p.values = v;
        p.unset = u;
    }
    p.skip_metadata = flags & 0x02 != 0;
    if flags & 0x04 != 0 {
        p.page_size = Some(r.int()?);
    }
    if flags & 0x08 != 0 {
        p.paging_state = Some(r.bytes()??);
    }
    if flags & 0x10 != 0 {
        p.serial_consistency = Some(r.short()?);
    }
    if flags & 0x20 != 0 {
        p.timestamp = Some(r.long()?);
    }
    Some(p)
}

/// `metadata_id_ext`: whether this connection negotiated SCYLLA_USE_METADATA_ID (EXECUTE then carries
/// a result metadata id after the statement id).
pub fn parse_request(opcode: u8, body: &[u8], metadata_id_ext: bool) -> Parsed {
    let mut r = Rd(body);
    let parsed = (|| -> Option<Parsed> {
        Some(match opcode {
            OP_OPTIONS => Parsed::Options,
            OP_STARTUP => {
                let n = r.short()? as usize;
                let mut m = Vec::new();
                for _ in 0..n {
                    m.push((r.string()?, r.string()?));
                }
                m.sort();
                Parsed::Startup(m)
            }
            OP_REGISTER => {
                let n = r.short()? as usize;
                let mut v = Vec::new();
                for _ in 0..n {
                    v.push(r.string()?);
                }
                Parsed::Register(v)
            }
            OP_QUERY => {
                let text = r.long_string()?;
                Parsed::Query { text, params: parse_query_params(&mut r)? }
            }
            OP_PREPARE => Parsed::Prepare { text: r.long_string()? },
            OP_EXECUTE => {
                let id = r.short_bytes()?;
                let result_metadata_id = if metadata_id_ext { Some(r.short_bytes()?) } else { None };
                Parsed::Execute { id, result_metadata_id, params: parse_query_params(&mut r)? }
            }
            OP_BATCH => {
                let kind = r.byte()?;
                let n = r.short()? as usize;
                let mut statements = Vec::new();
                for _ in 0..n {
                    let k = r.byte()?;
                    if k == 0 {
                        let text = r.long_string()?;
                        let (v, _) = parse_values(&mut r)?;
                        statements.push(BatchStmt::Query(text, v));
                    } else {
                        let id = r.short_bytes()?;
                        let (v, _) = parse_values(&mut r)?;
                        statements.push(BatchStmt::Prepared(id, v));
                    }
                }
                let consistency = r.short()?;
                let flags = r.byte()?;
                let serial_consistency = if flags & 0x10 != 0 { Some(r.short()?) } else { None };
                let timestamp = if flags & 0x20 != 0 { Some(r.long()?) } else { None };
                Parsed::Batch { kind, statements, consistency, flags, serial_consistency, timestamp }
            }
            _ => return None,
        })
    })();
    match parsed {
        Some(p) if r.0.is_empty() => p,
        _ => Parsed::Unparsed,
    }
}

// ---------------------------------------------------------------------------------------------
// responses
// ---------------------------------------------------------------------------------------------

pub const RESP_ERROR: u8 = 0x00;
pub const RESP_READY: u8 = 0x02;
pub const RESP_SUPPORTED: u8 = 0x06;
pub const RESP_RESULT: u8 = 0x08;

pub fn frame(stream: i16, opcode: u8, body: &[u8]) -> Vec<u8> {
    let mut f = vec![0x84, 0x00];
    f.extend_from_slice(&stream.to_be_bytes());
    f.push(opcode);
    f.extend_from_slice(&(body.len() as u32).to_be_bytes());
    f.extend_from_slice(body);
    f
}

/// How the mock answers the sharding part of SUPPORTED.
#[derive(Clone, Copy, Debug)]
pub enum ShardMode {
    /// A Cassandra-like node: no sharding info.
    None,
    /// Always this `(shard, nr_shards, msb_ignore)`.
    Fixed(u16, u16, u8),
    /// ScyllaDB's shard-aware port behaviour on the mock's only port: the connection's shard is
    /// `source_port % nr_shards`; SUPPORTED advertises the mock's own port as SCYLLA_SHARD_AWARE_PORT.
    ByPort(u16, u8),
    /// A NAT between driver and node: the node sees another source port than the driver chose, so the
    /// connection lands on shard `(source_port + 1) % nr_shards` - NOT the shard the driver aimed at.
    /// The driver must file the connection under the shard the server REPORTS.
    ByPortShifted(u16, u8),
}

pub fn body_supported(metadata_id_ext: bool, shard: Option<(u16, u16, u8)>) -> Vec<u8> {
    body_supported_ext(metadata_id_ext, shard, None)
}

pub fn body_supported_ext(metadata_id_ext: bool, shard: Option<(u16, u16, u8)>, shard_aware_port: Option<u16>) -> Vec<u8> {
    let mut b = Vec::new();
    let shard_s;
    let nr_s;
    let msb_s;
    let port_s;
    let mut m: Vec<(&str, Vec<&str>)> = vec![("CQL_VERSION", vec!["3.0.0"]), ("COMPRESSION", vec!["lz4", "snappy"])];
    if let Some(p) = shard_aware_port {
        port_s = p.to_string();
        m.push(("SCYLLA_SHARD_AWARE_PORT", vec![&port_s]));
    }
    if metadata_id_ext {
        m.push(("SCYLLA_USE_METADATA_ID", vec![""]));
    }
    if let Some((s, n, msb)) = shard {
        shard_s = s.to_string();
        nr_s = n.to_string();
        msb_s = msb.to_string();
        m.push(("SCYLLA_SHARD", vec![&shard_s]));
        m.push(("SCYLLA_NR_SHARDS", vec![&nr_s]));
        m.push(("SCYLLA_SHARDING_IGNORE_MSB", vec![&msb_s]));
        m.push(("SCYLLA_PARTITIONER", vec!["org.apache.cassandra.dht.Murmur3Partitioner"]));
        m.push(("SCYLLA_SHARDING_ALGORITHM", vec!["biased-token-round-robin"]));
    }
    w_string_multimap(&mut b, &m);
    b
}

pub fn body_error(code: i32, msg: &str, extra: &[u8]) -> Vec<u8> {
    let mut b = Vec::new();
    w_int(&mut b, code);
    w_string(&mut b, msg);
    b.extend_from_slice(extra);
    b
}

pub fn body_unprepared(id: &[u8]) -> Vec<u8> {
    let mut extra = Vec::new();
    w_short_bytes(&mut extra, id);
    body_error(0x2500, "unprepared", &extra)
}

pub fn body_void() -> Vec<u8> {
    let mut b = Vec::new();
    w_int(&mut b, 1);
    b
}

pub fn body_set_keyspace(name: &str) -> Vec<u8> {
    let mut b = Vec::new();
    w_int(&mut b, 3);
    w_string(&mut b, name);
    b
}

/// A column: name and a *native* type id (0x0009 int, 0x000D text, 0x0002 bigint, 0x0003 blob ...).
#[derive(Clone, Debug, PartialEq, Eq)]
pub struct Col {
    pub name: String,
    pub type_id: u16,
}

/// Result metadata as sent on the wire.
#[derive(Clone, Debug, Default)]
pub struct ResultMeta {
    /// `None` = NO_METADATA flag (columns omitted, only the count is sent)
    pub cols: Option<Vec<Col>>,
    pub col_count: i32,
    pub paging_state: Option<Vec<u8>>,
    /// new metadata id (METADATA_CHANGED flag, 0x0008) - only legal with the extension negotiated
    pub new_metadata_id: Option<Vec<u8>>,
}

pub fn write_result_metadata(b: &mut Vec<u8>, m: &ResultMeta, ks: &str, table: &str) {
    let mut flags = 0i32;
    if m.cols.is_some() {
        flags |= 0x0001; // global table spec
    } else {
        flags |= 0x0004; // no metadata
    }
    if m.paging_state.is_some() {
        flags |= 0x0002;
    }
    if m.new_metadata_id.is_some() {
        flags |= 0x0008;
    }
    w_int(b, flags);
    w_int(b, m.col_count);
    if let Some(ps) = &m.paging_state {
        w_bytes(b, Some(ps));
    }
    if let Some(id) = &m.new_metadata_id {
        w_short_bytes(b, id);
    }
    if let Some(cols) = &m.cols {
        w_string(b, ks);
        w_string(b, table);
        for c in cols {
            w_string(b, &c.name);
            w_short(b, c.type_id);
        }
    }
}

/// RESULT/Rows. `rows[i][j]` = cell bytes or null.
pub fn body_rows(m: &ResultMeta, rows: &[Vec<Option<Vec<u8>>>]) -> Vec<u8> {
    let mut b = Vec::new();
    w_int(&mut b, 2);
    write_result_metadata(&mut b, m, "ks", "t");
    w_int(&mut b, rows.len() as i32);
    for row in rows {
        for cell in row {
            w_bytes(&mut b, cell.as_deref());
        }
    }
    b
}

/// RESULT/Prepared. `result_metadata_id`: only with the metadata-id extension negotiated.
pub fn body_prepared(
    id: &[u8],
    result_metadata_id: Option<&[u8]>,
    bind_cols: &[Col],
    pk_indexes: &[u16],
    result: &ResultMeta,
) -> Vec<u8> {
    let mut b = Vec::new();
    w_int(&mut b, 4);
    w_short_bytes(&mut b, id);
    if let Some(rid) = result_metadata_id {
        w_short_bytes(&mut b, rid);
    }
    // prepared metadata
    w_int(&mut b, 0x0001);
    w_int(&mut b, bind_cols.len() as i32);
    w_int(&mut b, pk_indexes.len() as i32);
    for i in pk_indexes {
        w_short(&mut b, *i);
    }
    w_string(&mut b, "ks");
    w_string(&mut b, "t");
    for c in bind_cols {
        w_string(&mut b, &c.name);
        w_short(&mut b, c.type_id);
    }
    // result metadata (never carries paging state / new id here)
    let rm = ResultMeta { paging_state: None, new_metadata_id: None, ..result.clone() };
    write_result_metadata(&mut b, &rm, "ks", "t");
    b
}

// ---------------------------------------------------------------------------------------------
// the server
// ---------------------------------------------------------------------------------------------

pub enum Action {
    /// Send a response frame for the request's stream id.
    Respond(u8, Vec<u8>),
    /// Send raw bytes as they are.
    Raw(Vec<u8>),
    /// Wait (tokio time) before the next action.
    Delay(std::time::Duration),
    /// Close the connection.
    Close,
}

pub type Handler = Box<dyn FnMut(&Request) -> Vec<Action> + Send>;

pub struct MockNode {
    pub addr: SocketAddr,
    pub log: Arc<Mutex<Vec<Request>>>,
    shards: Arc<Mutex<Vec<Option<u16>>>>,
    _task: tokio::task::JoinHandle<()>,
}

impl MockNode {
    /// `metadata_id_ext`/`shard`: what OPTIONS answers. OPTIONS / STARTUP / REGISTER are answered by the
    /// mock itself (SUPPORTED / READY / READY); every other request goes to `handler`.
    pub async fn start(metadata_id_ext: bool, shard: Option<(u16, u16, u8)>, handler: Handler) -> MockNode {
        let mode = match shard {
            None => ShardMode::None,
            Some((s, n, m)) => ShardMode::Fixed(s, n, m),
        };
        Self::start_sharded(metadata_id_ext, mode, handler).await
    }

    /// As `start`, with an explicit [`ShardMode`]. `Request::conn` numbers connections in accept order;
    /// `MockNode::conn_shards()` tells which shard each connection was told it landed on.
    pub async fn start_sharded(metadata_id_ext: bool, mode: ShardMode, handler: Handler) -> MockNode {
        let listener = TcpListener::bind("127.0.0.1:0").await.unwrap();
        let addr = listener.local_addr().unwrap();
        let log: Arc<Mutex<Vec<Request>>> = Arc::new(Mutex::new(Vec::new()));
        let handler = Arc::new(Mutex::new(handler));
        let log2 = Arc::clone(&log);
        let shards: Arc<Mutex<Vec<Option<u16>>>> = Arc::new(Mutex::new(Vec::new()));
        let shards2 = Arc::clone(&shards);
        let task = tokio::spawn(async move {
            let mut conn_id = 0usize;
            loop {
                let Ok((mut sock, peer)) = listener.accept().await else { return };
                let conn = conn_id;
                conn_id += 1;
                let (shard, aware_port) = match mode {
                    ShardMode::None => (None, None),
                    ShardMode::Fixed(s, n, m) => (Some((s, n, m)), None),
                    ShardMode::ByPort(n, m) => (Some((peer.port() % n, n, m)), Some(addr.port())),
                    ShardMode::ByPortShifted(n, m) => (Some(((peer.port() as u32 + 1) as u16 % n, n, m)), Some(addr.port())),
                };
                shards2.lock().unwrap().push(shard.map(|s| s.0));
                let handler = Arc::clone(&handler);
                let log = Arc::clone(&log2);
                tokio::spawn(async move {
                    let mut ext_on = false;
                    loop {
                        let mut hdr = [0u8; 9];
                        if sock.read_exact(&mut hdr).await.is_err() {
                            return;
                        }
                        let len = u32::from_be_bytes([hdr[5], hdr[6], hdr[7], hdr[8]]) as usize;
                        let mut body = vec![0u8; len];
                        if sock.read_exact(&mut body).await.is_err() {
                            return;
                        }
                        let stream = i16::from_be_bytes([hdr[2], hdr[3]]);
                        let opcode = hdr[4];
                        let parsed = parse_request(opcode, &body, ext_on);
                        let req = {
                            let mut l = log.lock().unwrap();
                            let req = Request { seq: l.len() as u64, conn, stream, flags: hdr[1], opcode, body, parsed };
                            l.push(req.clone());
                            req
                        };
                        let actions = match &req.parsed {
                            Parsed::Options => vec![Action::Respond(RESP_SUPPORTED, body_supported_ext(metadata_id_ext, shard, aware_port))],
                            Parsed::Startup(opts) => {
                                ext_on = opts.iter().any(|(k, _)| k == "SCYLLA_USE_METADATA_ID");
                                vec![Action::Respond(RESP_READY, vec![])]
                            }
                            Parsed::Register(_) => vec![Action::Respond(RESP_READY, vec![])],
                            _ => (handler.lock().unwrap())(&req),
                        };
                        for a in actions {
                            match a {
                                Action::Respond(op, b) => {
                                    if sock.write_all(&frame(stream, op, &b)).await.is_err() {
                                        return;
                                    }
                                }
                                Action::Raw(b) => {
                                    if sock.write_all(&b).await.is_err() {
                                        return;
                                    }
                                }
                                Action::Delay(d) => tokio::time::sleep(d).await,
                                Action::Close => return,
                            }
                        }
                    }
                });
            }
        });
        MockNode { addr, log, shards, _task: task }
    }

    /// Server-side shard of every accepted connection, in accept order.
    pub fn conn_shards(&self) -> Vec<Option<u16>> {
        self.shards.lock().unwrap().clone()
    }

    pub fn requests(&self) -> Vec<Request> {
        self.log.lock().unwrap().clone()
    }
}

impl Drop for MockNode {
    fn drop(&mut self) {
        self._task.abort();
    }
}

/// Convenience: a per-statement table of prepared ids.
pub fn md5ish(text: &str) -> Vec<u8> {
    // not a real md5: a stable 16-byte digest of the text, which is all the driver needs
    let mut h: [u64; 2] = [0xcbf29ce484222325, 0x9E3779B97F4A7C15];
    for (i, b) in text.bytes().enumerate() {
        h[i % 2] = (h[i % 2] ^ b as u64).wrapping_mul(0x100000001b3);
    }
    let mut v = h[0].to_be_bytes().to_vec();
    v.extend_from_slice(&h[1].to_be_bytes());
    v
}

pub type StringMap = HashMap<String, String>;

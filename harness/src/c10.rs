//! C10 — when a connection dies every request in flight on it fails promptly; none hangs.
//!
//! * `frames <hex>` — `scylla_cql::frame::read_response_frame` in a loop over an in-memory reader (cut frame
//!   streams, garbage headers, bad versions) against the model's `readFrames`;
//! * `conn <wc> <ops>` / `ka <wc>/<interval ms>/<timeout ms> <ops>` — the REAL router over an in-memory stream
//!   (see `c02.rs` for the schedule language) with N requests in flight and a fault: FIN (`x`), garbage
//!   header / bad version / cut response stream (`b<hex>`), unsolicited stream id (`u<stream>`), silent stall
//!   with keep-alive on under tokio's paused clock (`t<ms>`);
//! * `race <wc>/<threads>/<submitters>/<per submitter>/<fin|garbage|unsolicited> <seed>` — the same router on a
//!   MULTI-THREAD runtime: submitter tasks push requests concurrently with the server resetting the connection
//!   (so that some `send_request` is between "obtained channel capacity" and "pushed the task" when the router
//!   shuts down). Oracle only (the schedule is not deterministic): every submitted request completes within the
//!   watchdog. Output `race`.
use crate::c02::{ConnSim, runtime, settle};
use crate::rng::Rng;
use crate::util::{hex, unhex};
use crate::{Ctx, Tier};
use futures::FutureExt;
use scylla_cql::frame::frame_errors::FrameHeaderParseError;
use std::time::Duration;

const OPCODES: [u8; 8] = [0x00, 0x02, 0x03, 0x06, 0x08, 0x0C, 0x0E, 0x10];

fn frame_bytes(flags: u8, stream: i16, opcode: u8, body: &[u8]) -> Vec<u8> {
    let mut f = vec![0x84u8, flags];
    f.extend_from_slice(&stream.to_be_bytes());
    f.push(opcode);
    f.extend_from_slice(&(body.len() as u32).to_be_bytes());
    f.extend_from_slice(body);
    f
}

fn random_frames(rng: &mut Rng) -> Vec<Vec<u8>> {
    let n = rng.range(1, 4) as usize;
    (0..n)
        .map(|_| {
            let len = match rng.below(5) {
                0 => 0,
                1 => 1,
                _ => rng.range(0, 24) as usize,
            };
            let stream = match rng.below(6) {
                0 => -1,
                1 => *rng.pick(&[i16::MIN, i16::MAX, -2, 0, 255, 256, 127, 128]),
                _ => rng.range(0, 300) as i16,
            };
            frame_bytes(rng.next() as u8, stream, *rng.pick(&OPCODES), &rng.bytes(len))
        })
        .collect()
}

/// A response frame echoing request `k`'s tag on `stream`.
fn answer(stream: i16, k: u64) -> Vec<u8> {
    frame_bytes(0, stream, 0x08, &k.to_be_bytes())
}

fn garbage_header(rng: &mut Rng) -> Vec<u8> {
    match rng.below(5) {
        // request-direction version byte
        0 => frame_bytes(0, 0, 0x08, &[]).iter().enumerate().map(|(i, b)| if i == 0 { 0x04 } else { *b }).collect(),
        // unsupported versions
        1 => {
            let v = *rng.pick(&[0x83u8, 0x85, 0x80, 0xff, 0x8f]);
            let mut f = frame_bytes(0, 0, 0x08, &[1, 2, 3]);
            f[0] = v;
            f
        }
        // unknown opcode
        2 => {
            let o = *rng.pick(&[0x01u8, 0x04, 0x05, 0x07, 0x09, 0x0A, 0x0B, 0x0D, 0x0F, 0x11, 0xff]);
            let mut f = frame_bytes(0, 0, 0x08, &[]);
            f[4] = o;
            f
        }
        3 => vec![0x00; 9],
        _ => {
            let mut f = rng.bytes(9);
            f[5] = 0;
            f[6] = 0; // keep the announced length small
            f
        }
    }
}

pub fn generate(rng: &mut Rng, tier: Tier, emit: &mut dyn FnMut(String)) {
    let quick = tier == Tier::Quick;
    // 6. the pool keeps working through the remaining connections (first: real-time cases, kept apart from the
    // multi-thread race cases at the end so that they land in different chunks of the runner)
    crate::c10_pool::generate(rng, quick, emit);
    // 7. one request of a metadata fetch on the control connection meets a fault (real Session, mock cluster)
    crate::c10_meta::generate(rng, quick, emit);
    // 1. frame streams cut at every offset
    for _ in 0..(if quick { 600 } else { 8000 }) {
        let frames = random_frames(rng);
        let all: Vec<u8> = frames.concat();
        for k in 0..=all.len() {
            emit(format!("frames {}", hex(&all[..k])));
        }
        // a bad header after j whole frames, itself cut at every offset
        let j = rng.below(frames.len() as u64 + 1) as usize;
        let mut bad: Vec<u8> = frames[..j].concat();
        let start = bad.len();
        bad.extend(garbage_header(rng));
        let extra = rng.below(4) as usize;
        bad.extend(rng.bytes(extra));
        for k in start..=bad.len() {
            emit(format!("frames {}", hex(&bad[..k])));
        }
    }
    // 2. N requests in flight, a response stream cut at every offset, then a fault
    for _ in 0..(if quick { 200 } else { 3000 }) {
        let n = rng.range(1, 8) as usize;
        let wc = rng.below(2);
        // submissions: request k is written on stream k (nothing is answered before)
        let mut pre: Vec<String> = Vec::new();
        let gate = rng.chance(1, 4);
        let gate_at = rng.below(n as u64) as usize;
        for k in 0..n {
            if gate && k == gate_at {
                pre.push("g".into());
            }
            pre.push(if rng.chance(1, 8) { "S".into() } else { "s".into() });
        }
        for k in 0..n {
            if rng.chance(1, 8) {
                pre.push(format!("c{}", k));
            }
        }
        // answers for a random subset of the requests the server has seen, in random order
        let seen = if gate { gate_at + 1 } else { n }; // with the gate closed the first batch after it stays buffered
        let seen = seen.min(n);
        let mut order: Vec<usize> = (0..if gate { gate_at } else { seen }).collect();
        rng.shuffle(&mut order);
        let keep = rng.below(order.len() as u64 + 1) as usize;
        order.truncate(keep);
        let resp: Vec<u8> = order.iter().flat_map(|k| answer(*k as i16, *k as u64)).collect();
        let faults = ["fin", "garbage", "unsolicited", "rest"];
        let cuts: Vec<usize> = if quick && resp.len() > 40 {
            // every header offset of every frame, every 3rd body offset
            (0..=resp.len()).filter(|c| c % 17 <= 9 || c % 3 == 0).collect()
        } else {
            (0..=resp.len()).collect()
        };
        for c in cuts {
            let fault = *rng.pick(&faults);
            let mut ops = pre.clone();
            if c > 0 {
                ops.push(format!("b{}", hex(&resp[..c])));
            }
            match fault {
                "fin" => ops.push("x".into()),
                "garbage" => ops.push(format!("b{}", hex(&garbage_header(rng)))),
                "unsolicited" => ops.push(format!("u{}", rng.range(n as i64, n as i64 + 3))),
                _ => {
                    // no fault: the rest of the stream arrives later, everything must complete normally
                    if c < resp.len() {
                        ops.push(format!("b{}", hex(&resp[c..])));
                    }
                }
            }
            if rng.chance(1, 3) {
                ops.push("s".into()); // a submission after the fault
            }
            emit(format!("conn {} {}", wc, ops.join(";")));
        }
    }
    // 5. a frame that announces a large body and then silence: the reader waits (it reserves the announced length)
    // until the peer closes or the keep-alive times out; the writer's errors; the orphan threshold
    for len in [0x0001_0000u32, 0x0400_0000] {
        let mut hdr = vec![0x84u8, 0, 0, 0, 0x08];
        hdr.extend_from_slice(&len.to_be_bytes());
        hdr.extend_from_slice(&[1, 2, 3]);
        emit(format!("ka 1/1000/300 s;s;b{};t500;s", hex(&hdr)));
        emit(format!("conn 0 s;s;b{};s;x;s", hex(&hdr)));
    }
    for _ in 0..(if quick { 40 } else { 600 }) {
        let n = rng.range(1, 8) as usize;
        let mut ops: Vec<String> = Vec::new();
        let gate_at = if rng.chance(1, 3) { Some(rng.below(n as u64) as usize) } else { None };
        for k in 0..n {
            if gate_at == Some(k) {
                ops.push("g".into());
            }
            ops.push("s".into());
        }
        if gate_at.is_none() && rng.bool() {
            ops.push(format!("r{}", rng.below(n as u64)));
        }
        ops.push("w".into());
        for _ in 0..rng.below(3) {
            ops.push("s".into());
        }
        emit(format!("conn {} {}", rng.below(2), ops.join(";")));
    }
    emit(format!("conn 1 {};t2000;s", vec!["S"; 1030].join(";")));
    emit(format!("conn 0 g;{};x;s", vec!["s"; 1030].join(";")));
    emit(format!("ka 1/1000/300 g;{}", vec!["s"; 1028].join(";")));
    // the keep-alive request itself meets the full submit channel (it parks; `submitFull`)
    emit(format!("ka 1/1000/300 g;{};t1000", vec!["s"; 1026].join(";")));
    emit(format!("ka 1/1000/2500 g;{};t1000;G;t100;r1025;r1026;r0", vec!["s"; 1026].join(";")));
    emit(format!("ka 0/1000/2500 g;{};t1000;c5;G;t100;r1025", vec!["s"; 1025].join(";")));
    emit(format!("ka 1/500/1000 g;{};t500;x", vec!["s"; 1030].join(";")));
    // the silent peer with (almost) the whole stream-id space in flight: the keep-alive request itself cannot get a
    // stream id (`UnableToAllocStreamId` -> KeepaliveRequestError), or gets the very last one (-> KeepaliveTimeout)
    for n in [32768usize, 32767, 32769, 10] {
        emit(format!("kax 100/100 {}", n));
    }
    if !quick {
        emit("kax 1000/300 32768".to_owned());
        emit("kax 50/400 32768".to_owned());
        // the same schedule with the model's line (slow in the model: 32768 callers in association lists)
        emit(format!("ka 1/100/100 {}", vec!["s"; 32768].join(";")));
    }
    // the event stream (a connection with an event sender): well-formed events are forwarded and do not disturb the
    // requests; a non-EVENT opcode, a truncated or garbage body on stream -1 ends the router (CqlEventHandlingError)
    {
        let good = event_bodies();
        for i in 0..(if quick { 60 } else { 600 }) {
            let n = rng.range(0, 5) as usize;
            let mut ops: Vec<String> = vec!["s".to_owned(); n];
            let mut alive_answers = n;
            for _ in 0..rng.range(1, 5) {
                match rng.below(10) {
                    0..=2 => {
                        let b = rng.pick(&good).clone();
                        ops.push(format!("b{}", hex(&frame_bytes(0, -1, 0x0C, &b))));
                    }
                    3 | 4 => {
                        // an EVENT frame that carries body extensions (tracing id / warnings / custom payload, in
                        // this order before the event; unknown flag bits mean nothing): forwarded like any other
                        let fl = *rng.pick(&[0x02u8, 0x08, 0x04, 0x0A, 0x06, 0x0C, 0x0E, 0x10, 0x80, 0x92]);
                        let mut b = ext_prefix(fl);
                        b.extend_from_slice(&rng.pick(&good).clone());
                        ops.push(format!("b{}", hex(&frame_bytes(fl, -1, 0x0C, &b))));
                    }
                    5 if alive_answers > 0 => {
                        ops.push("r0".into());
                        alive_answers -= 1;
                    }
                    6 => ops.push("s".into()),
                    7 => {
                        // truncated / garbage event body
                        let b = rng.pick(&good).clone();
                        let cut = rng.below(b.len() as u64) as usize;
                        ops.push(format!("b{}", hex(&frame_bytes(0, -1, 0x0C, &b[..cut]))));
                    }
                    8 if rng.bool() => {
                        // flags that announce an extension the body does not carry (or carries cut short), and the
                        // COMPRESSION flag on a connection that negotiated none: CqlEventHandlingError
                        let fl = *rng.pick(&[0x02u8, 0x08, 0x04, 0x0E, 0x01, 0x03]);
                        let mut b = ext_prefix(fl & 0x0E);
                        if fl & 1 == 0 {
                            b.truncate(rng.below(b.len() as u64) as usize);
                            if rng.bool() {
                                // no extension at all: the event's own bytes are read as the announced extension
                                b.clear();
                                b.extend_from_slice(&rng.pick(&good).clone());
                            }
                        } else {
                            b.extend_from_slice(&rng.pick(&good).clone());
                        }
                        ops.push(format!("b{}", hex(&frame_bytes(fl, -1, 0x0C, &b))));
                    }
                    8 => ops.push(format!("b{}", hex(&frame_bytes(0, -1, *rng.pick(&[0x08u8, 0x02, 0x00, 0x06]), &rng.bytes(4))))),
                    _ => ops.push(format!("b{}", hex(&frame_bytes(0, *rng.pick(&[-2i16, -7, i16::MIN]), 0x0C, &good[0])))),
                }
            }
            if i % 5 == 0 {
                ops.push("u-1".into());
            }
            ops.push("s".into());
            emit(format!("conne {} {}", rng.below(2), ops.join(";")));
        }
        // the event channel itself: its receiver is gone (a WELL-FORMED event breaks the connection: SendError), or it
        // has one slot and nobody drains it (the second event blocks the reader: answers behind it are not read)
        for i in 0..(if quick { 30 } else { 300 }) {
            let mode = 1 + (i % 2);
            let n = rng.range(1, 5) as usize;
            let mut ops: Vec<String> = vec!["s".to_owned(); n];
            if rng.bool() {
                ops.push("r0".into());
            }
            for _ in 0..rng.range(1, 4) {
                let b = rng.pick(&good).clone();
                ops.push(format!("b{}", hex(&frame_bytes(0, -1, 0x0C, &b))));
                if rng.bool() {
                    ops.push("r0".into());
                }
            }
            ops.push("s".into());
            emit(format!("conne {}/{} {}", rng.below(2), mode, ops.join(";")));
        }
        // the control connection's configuration - an event sender AND keep-alive: a reader parked on a full event
        // channel does not see the probe's answer, so the keep-alive timeout ends the router (and nothing else does)
        for i in 0..(if quick { 40 } else { 600 }) {
            let mode = [2u8, 2, 0, 1][i % 4];
            let (iv, to) = *rng.pick(&[(300u64, 200u64), (1000, 500), (200, 1000)]);
            let n = rng.range(0, 4) as usize;
            let mut ops: Vec<String> = vec!["s".to_owned(); n];
            for _ in 0..rng.range(2, 8) {
                match rng.below(10) {
                    0..=3 => ops.push(format!("b{}", hex(&frame_bytes(0, -1, 0x0C, &rng.pick(&good).clone())))),
                    4 | 5 => ops.push(format!("t{}", *rng.pick(&[100u64, iv / 2, iv, iv + 10, to]))),
                    6 | 7 => ops.push(format!("r{}", rng.below(3))),
                    8 => ops.push("h".into()),
                    _ => ops.push("s".into()),
                }
            }
            emit(format!("conne {}/{}/{}/{} {}", rng.below(2), mode, iv, to, ops.join(";")));
        }
    }
    // split frames (C02's `gen_conn_split`: one well-formed answer in several writes, cancellations / orphan steps /
    // submissions between the pieces) on the OTHER configurations of the router: with an event sender, with keep-alive
    // (ticks and `trigger_keepalive` hints while a frame is half read), with both
    for i in 0..(if quick { 240 } else { 6_000 }) {
        let line = crate::c02::gen_conn_split(rng);
        let mut w = line.split(' ');
        let (_, wc, ops) = (w.next(), w.next().unwrap_or("0"), w.next().unwrap_or(""));
        let mut ops2: Vec<String> = Vec::new();
        for op in ops.split(';') {
            ops2.push(op.to_owned());
            if op.starts_with('b') && i % 3 != 0 {
                match rng.below(4) {
                    0 => ops2.push("h".into()),
                    1 => ops2.push(format!("t{}", *rng.pick(&[50u64, 100, 150, 300]))),
                    _ => {}
                }
            }
        }
        let (iv, to) = *rng.pick(&[(300u64, 200u64), (100, 400), (5000, 5000)]);
        match i % 3 {
            0 => emit(format!("conne {} {}", wc, ops)),
            1 => emit(format!("conne {}/0/{}/{} {}", wc, iv, to, ops2.join(";"))),
            _ => emit(format!("ka {}/{}/{} {}", wc, iv, to, ops2.join(";"))),
        }
    }
    // a new connection whose `USE <session keyspace>` is never answered (3.5 s each)
    for k in if quick { vec![2usize] } else { vec![2, 3, 5] } {
        emit(format!("poolk {}", k));
    }
    // hints: long before the first tick; while a probe is in flight (stored, consumed afterwards); twice (one permit)
    for c in [
        "ka 1/30000/300 s;s;t500;h",
        "ka 1/30000/300 s;t100;h;r1;t200;h;h;t100;r1;t100",
        "ka 0/2000/300 s;t2000;h;r1;t100;s;r1",
        "ka 1/1000/300 h;s;t500;h;r0;r0;t400;t200",
        "conn 1 s;h;r0;h;s",
        // a stored hint AND a due tick when the keepaliver comes back from a probe: `select!` draws one of the two
        // ready arms at random; the model accepts either draw (membership)
        "ka 1/500/1000 s;t500;h;t500;r1;t100;r1;t100;r1",
        "ka 0/500/1000 s;t500;h;t500;r1;t100;r1;t100;r1",
        "ka 1/500/2500 t500;h;t600;r0;t50;r0;t50;r0;s",
        "ka 1/1000/2500 s;t1000;h;t1000;r1;r1;r1;t100",
    ] {
        emit(c.to_owned());
    }
    // 4. multi-thread race: submissions concurrent with a server-side reset (oracle only)
    for _ in 0..(if quick { 300 } else { 3000 }) {
        let threads = *rng.pick(&[2usize, 4, 4, 8]);
        let submitters = *rng.pick(&[2usize, 4, 8, 16]);
        let per = *rng.pick(&[5usize, 20, 40]);
        let fault = *rng.pick(&["fin", "fin", "garbage", "unsolicited"]);
        emit(format!("race {}/{}/{}/{}/{} {}", rng.below(2), threads, submitters, per, fault, rng.next() % 1_000_000_007));
    }
    // 3. keep-alive: silent stall, answered keep-alives, faults under virtual time
    for _ in 0..(if quick { 6000 } else { 100_000 }) {
        let interval = *rng.pick(&[1000u64, 500, 2000]);
        let timeout = *rng.pick(&[300u64, 100, 1000, 2500]);
        let len = rng.range(0, 25) as usize;
        let mut ops: Vec<String> = Vec::new();
        let mut outstanding = 0u64;
        let mut submitted = 0u64;
        for _ in 0..len {
            match rng.below(100) {
                0..=24 => {
                    ops.push("s".into());
                    submitted += 1;
                    outstanding += 1;
                }
                25..=27 => {
                    ops.push("S".into());
                    submitted += 1;
                    outstanding += 1;
                }
                28..=34 => ops.push(format!("c{}", rng.below(submitted + 1))),
                35..=59 => {
                    ops.push(format!("r{}", rng.below(outstanding + 2)));
                    outstanding = outstanding.saturating_sub(1);
                }
                60..=89 => {
                    let ms = match rng.below(4) {
                        0 => *rng.pick(&[interval, timeout, interval + timeout, interval - 100, 100]),
                        _ => 100 * rng.range(1, 12) as u64,
                    };
                    ops.push(format!("t{}", ms));
                    outstanding += 1; // a keep-alive may have been written
                }
                90..=92 => ops.push("g".into()),
                93..=95 => ops.push("G".into()),
                96 => ops.push("x".into()),
                // a keep-alive hint; only where a probe cannot still be in flight when the next tick is due (then
                // `select!` would pick between the two ready arms at random)
                97 if interval > timeout => ops.push("h".into()),
                97 => ops.push(format!("u{}", rng.below(6))),
                _ => ops.push(format!("p{}", rng.below(submitted + 1))),
            }
        }
        emit(format!("ka {}/{}/{} {}", rng.below(2), interval, timeout, ops.join(";")));
    }
}

fn run_frames(bytes: &[u8], ctx: &mut Ctx) -> String {
    let mut reader: &[u8] = bytes;
    let mut out: Vec<String> = Vec::new();
    let mut pos = 0usize;
    let tail;
    loop {
        let before = reader.len();
        let res = scylla_cql::frame::read_response_frame(&mut reader)
            .now_or_never()
            .expect("in-memory reader never pends");
        match res {
            Ok((params, opcode, body)) => {
                // ORACLE: a returned frame is exactly the next 9 + len bytes of the input — never a truncated or
                // foreign frame
                let mut enc = vec![params.version, params.flags];
                enc.extend_from_slice(&params.stream.to_be_bytes());
                enc.push(opcode as u8);
                enc.extend_from_slice(&(body.len() as u32).to_be_bytes());
                enc.extend_from_slice(&body);
                if bytes.len() < pos + enc.len() || bytes[pos..pos + enc.len()] != enc[..] {
                    ctx.fail(format!("frame returned at offset {} is not the bytes that were sent", pos));
                }
                pos += enc.len();
                out.push(format!("{}/{}/{}/{}", params.stream, opcode as u8, params.flags, hex(&body)));
            }
            Err(e) => {
                tail = match e {
                    FrameHeaderParseError::HeaderIoError(_) => {
                        if before == 0 { "boundary".to_owned() } else { format!("cutInHeader:{}", before) }
                    }
                    FrameHeaderParseError::FrameFromClient => "bad:FrameFromClient".to_owned(),
                    FrameHeaderParseError::VersionNotSupported(v) => format!("bad:Version:{}", v),
                    FrameHeaderParseError::UnknownResponseOpcode(_) => format!("bad:Opcode:{}", bytes[pos + 4]),
                    FrameHeaderParseError::ConnectionClosed(missing, len) => format!("cutInBody:{}:{}", missing, len),
                    FrameHeaderParseError::BodyChunkIoError(_, _) => "io".to_owned(),
                    _ => "other".to_owned(),
                };
                // ORACLE: the reader stops without error only at a frame boundary
                if tail == "boundary" && pos != bytes.len() {
                    ctx.fail(format!("reader reported a frame boundary at offset {} of {}", pos, bytes.len()));
                }
                break;
            }
        }
    }
    format!("{} | {}", if out.is_empty() { "-".to_owned() } else { out.join(" ") }, tail)
}

/// The body extensions this harness puts in front of a flagged response (protocol v4 §2.2: tracing id, warnings,
/// custom payload, in this order).
fn ext_prefix(flags: u8) -> Vec<u8> {
    use crate::mocknode::w_string;
    let mut b = Vec::new();
    if flags & 0x02 != 0 {
        b.extend_from_slice(&[0x11; 16]);
    }
    if flags & 0x08 != 0 {
        b.extend_from_slice(&2u16.to_be_bytes());
        w_string(&mut b, "w1");
        w_string(&mut b, "a second warning");
    }
    if flags & 0x04 != 0 {
        b.extend_from_slice(&1u16.to_be_bytes());
        w_string(&mut b, "k");
        b.extend_from_slice(&3i32.to_be_bytes());
        b.extend_from_slice(&[1, 2, 3]);
    }
    b
}

/// Is entry `idx` of `sim.sent` an EVENT frame this harness knows to be well formed (its flags' extensions in the
/// harness's form, then a well-formed event)?
fn known_good_event(sim: &ConnSim, idx: usize, good: &[Vec<u8>]) -> bool {
    let (_, stream, body) = &sim.sent[idx];
    let (flags, opcode) = sim.raw_hdr.iter().find(|(i, _, _)| *i == idx).map(|(_, f, o)| (*f, *o)).unwrap_or((0, 0x0C));
    if *stream != -1 || opcode != 0x0C || flags & 0x01 != 0 {
        return false;
    }
    let pre = ext_prefix(flags);
    body.len() >= pre.len() && body[..pre.len()] == pre[..] && good.iter().any(|g| g[..] == body[pre.len()..])
}

/// Well-formed EVENT bodies (protocol v4): what `EventV2::deserialize` accepts.
fn event_bodies() -> Vec<Vec<u8>> {
    use crate::mocknode::w_string;
    let inet = |b: &mut Vec<u8>| {
        b.push(4);
        b.extend_from_slice(&[127, 0, 0, 7]);
        b.extend_from_slice(&9042i32.to_be_bytes());
    };
    let mut v = Vec::new();
    for (ty, what) in [("STATUS_CHANGE", "UP"), ("STATUS_CHANGE", "DOWN"), ("TOPOLOGY_CHANGE", "NEW_NODE"), ("TOPOLOGY_CHANGE", "REMOVED_NODE")] {
        let mut b = Vec::new();
        w_string(&mut b, ty);
        w_string(&mut b, what);
        inet(&mut b);
        v.push(b);
    }
    let mut b = Vec::new();
    w_string(&mut b, "SCHEMA_CHANGE");
    w_string(&mut b, "CREATED");
    w_string(&mut b, "KEYSPACE");
    w_string(&mut b, "ks1");
    v.push(b);
    v
}

fn run_conn(wc: bool, ka: Option<(u64, u64)>, ops: &[&str], ctx: &mut Ctx) -> String {
    run_conn_ev(wc, ka, None, ops, ctx)
}

fn run_conn_ev(wc: bool, ka: Option<(u64, u64)>, ev_mode: Option<u8>, ops: &[&str], ctx: &mut Ctx) -> String {
    let events = ev_mode.is_some();
    let rt = runtime();
    rt.block_on(async {
        let mut sim = ConnSim::new_ev_mode(wc, ka.map(|(i, t)| (Duration::from_millis(i), Duration::from_millis(t))), ev_mode);
        settle().await;
        for op in ops {
            if !sim.op(op, ctx).await {
                return "bad-case".to_owned();
            }
        }
        if let Some((i, t)) = ka {
            // the server falls silent for longer than interval + timeout
            for _ in 0..((i + t) / 100 + 3) {
                sim.op("t100", ctx).await;
            }
            if sim.broken.is_none() {
                // The router reports the break (`error_sender`) only after its drain loop has seen every outstanding
                // channel permit used up. A caller that was parked at the full submit channel and has been handed a
                // permit uses it when it is woken; this harness polls futures by hand, so give them that poll.
                for k in 0..sim.futures.len() {
                    sim.poll_req(k, ctx);
                    if k % 64 == 63 {
                        tokio::task::yield_now().await;
                    }
                }
                sim.settle(ctx).await;
            }
            if sim.broken.is_none() {
                ctx.fail("the server stalled for more than keepalive_interval + keepalive_timeout but the connection was not broken");
            }
        }
        let line = sim.finish(ctx).await;
        if events {
            // ORACLE: every forwarded event is a well-formed EVENT frame the server sent on stream -1 (in order); on a
            // connection that did not break all of them are forwarded
            let good = event_bodies();
            let sent_events: Vec<usize> = (0..sim.sent.len()).filter(|i| known_good_event(&sim, *i, &good)).collect();
            if sim.events_seen.len() > sent_events.len() {
                ctx.fail(format!("{} events forwarded, only {} well-formed EVENT frames were sent", sim.events_seen.len(), sent_events.len()));
            }
            if ev_mode == Some(0) && sim.broken.is_none() && sim.events_seen.len() != sent_events.len() {
                ctx.fail(format!("{} well-formed EVENT frames sent on a healthy connection, {} forwarded", sent_events.len(), sim.events_seen.len()));
            }
        }
        // ORACLE: once the connection is broken no request is left hanging …
        if sim.broken.is_some() {
            for (k, o) in sim.outcomes.iter().enumerate() {
                if o.is_none() {
                    ctx.fail(format!("request {} still pending after the connection broke ({})", k, sim.broken.clone().unwrap()));
                }
            }
            // … and a new request fails at once
            let k = sim.submit(ctx);
            match sim.outcomes[k].as_deref() {
                Some(o) if o.starts_with("err:") => {}
                other => ctx.fail(format!("a request submitted after the break did not fail immediately: {:?}", other)),
            }
        }
        line
    })
}

/// Watchdog of the race cases: a request that has not completed this long after the reset is suspicious; it gets a
/// second, longer chance (slowness under load is not a hang — a stranded request never completes).
const RACE_WATCHDOG: Duration = Duration::from_secs(20);
const RACE_SECOND_CHANCE: Duration = Duration::from_secs(40);
const RACE_ROUNDS: usize = 6;

fn run_race(cfg: &str, seed: u64, ctx: &mut Ctx) -> String {
    use scylla::verif_hooks::connection::RawConnection;
    use std::sync::Arc;
    use tokio::io::{AsyncReadExt, AsyncWriteExt};
    let parts: Vec<&str> = cfg.split('/').collect();
    if parts.len() != 5 {
        return "bad-case".to_owned();
    }
    let wc = match parts[0] {
        "0" => false,
        "1" => true,
        _ => return "bad-case".to_owned(),
    };
    let (Ok(threads), Ok(submitters), Ok(per)) =
        (parts[1].parse::<usize>(), parts[2].parse::<usize>(), parts[3].parse::<usize>())
    else {
        return "bad-case".to_owned();
    };
    let fault = parts[4];
    if !matches!(fault, "fin" | "garbage" | "unsolicited")
        || threads == 0
        || threads > 16
        || submitters == 0
        || submitters > 64
        || per == 0
        || per > 1000
    {
        return "bad-case".to_owned();
    }
    let mut rng = Rng::new(seed);
    let rt = tokio::runtime::Builder::new_multi_thread().worker_threads(threads).enable_all().build().unwrap();
    let mut failures: Vec<String> = Vec::new();
    rt.block_on(async {
        for round in 0..RACE_ROUNDS {
            let (client, mut server) = tokio::io::duplex(1 << 20);
            let (conn, _broken) = RawConnection::spawn(client, None, None, wc);
            let conn = Arc::new(conn);
            // the server answers what it reads and resets after `cut` frames
            let cut = rng.below((submitters * per) as u64 + 1) as usize;
            let fault_s = fault.to_owned();
            let garbage = rng.bytes(9);
            let server_task = tokio::spawn(async move {
                let mut buf: Vec<u8> = Vec::new();
                let mut seen = 0usize;
                'outer: loop {
                    while buf.len() >= 9 {
                        let len = u32::from_be_bytes(buf[5..9].try_into().unwrap()) as usize;
                        if buf.len() < 9 + len {
                            break;
                        }
                        let frame: Vec<u8> = buf.drain(..9 + len).collect();
                        if seen >= cut {
                            break 'outer;
                        }
                        seen += 1;
                        let stream = i16::from_be_bytes([frame[2], frame[3]]);
                        let _ = server.write_all(&frame_bytes(0, stream, 0x08, &frame[9..])).await;
                    }
                    if seen >= cut {
                        break;
                    }
                    match server.read_buf(&mut buf).await {
                        Ok(n) if n > 0 => {}
                        _ => break,
                    }
                }
                match fault_s.as_str() {
                    "garbage" => {
                        let mut g = garbage;
                        g[0] = 0x04; // a request-direction version byte: header error
                        g[5] = 0;
                        g[6] = 0;
                        let _ = server.write_all(&g).await;
                        let _ = server.flush().await;
                        // keep the stream open: the break must come from the header error alone
                        tokio::time::sleep(Duration::from_millis(5)).await;
                    }
                    "unsolicited" => {
                        let _ = server.write_all(&frame_bytes(0, 32767, 0x08, &[])).await;
                        let _ = server.flush().await;
                        tokio::time::sleep(Duration::from_millis(5)).await;
                    }
                    _ => {}
                }
                drop(server);
            });
            // submitters: every request is its own task, so that it can be watched individually
            let mut subs = Vec::new();
            for sidx in 0..submitters {
                let conn = conn.clone();
                let pace = rng.below(4);
                subs.push(tokio::spawn(async move {
                    let mut handles = Vec::with_capacity(per);
                    for i in 0..per {
                        let conn = conn.clone();
                        let tag = ((sidx * 100_000 + i) as u64).to_be_bytes().to_vec();
                        handles.push(tokio::spawn(async move { conn.send_raw(tag).await.is_ok() }));
                        for _ in 0..pace {
                            tokio::task::yield_now().await;
                        }
                    }
                    handles
                }));
            }
            let mut handles = Vec::new();
            for s in subs {
                handles.extend(s.await.unwrap());
            }
            let _ = server_task.await;
            // a few more submissions after the reset: they must fail (or complete) as well
            for i in 0..4u64 {
                let conn = conn.clone();
                handles.push(tokio::spawn(async move { conn.send_raw((9_000_000 + i).to_be_bytes().to_vec()).await.is_ok() }));
            }
            let total = handles.len();
            let start = std::time::Instant::now();
            let mut pending = handles;
            let mut second_chance = false;
            loop {
                pending.retain(|h| !h.is_finished());
                if pending.is_empty() {
                    break;
                }
                let waited = start.elapsed();
                if !second_chance && waited >= RACE_WATCHDOG {
                    second_chance = true;
                }
                if waited >= RACE_WATCHDOG + RACE_SECOND_CHANCE {
                    failures.push(format!(
                        "round {}: {} of {} requests submitted around the connection reset ({}) never completed ({} s watchdog + {} s second chance)",
                        round,
                        pending.len(),
                        total,
                        fault,
                        RACE_WATCHDOG.as_secs(),
                        RACE_SECOND_CHANCE.as_secs()
                    ));
                    for h in &pending {
                        h.abort();
                    }
                    break;
                }
                tokio::time::sleep(Duration::from_millis(if waited.as_millis() < 200 { 1 } else { 50 })).await;
            }
        }
    });
    rt.shutdown_timeout(Duration::from_secs(1));
    for f in &failures {
        ctx.fail(f.clone());
    }
    if failures.is_empty() { "race".to_owned() } else { "race-hang".to_owned() }
}

/// `kax <interval ms>/<timeout ms> <n>`: n requests in flight (up to the whole stream-id space) on a connection with
/// keep-alive on, against a peer that reads everything and answers nothing. Oracle only (the model's line is the
/// constant; the same schedule with the model's line is a `ka` case of the thorough tier): the connection is
/// reported broken within interval + timeout (+ one interval of slack) of virtual time and EVERY caller has an
/// error — also when all 32768 stream ids are taken, so that the keep-alive request itself cannot get one.
fn run_kax(cfg: &str, n: usize, ctx: &mut Ctx) -> String {
    let parts: Vec<&str> = cfg.split('/').collect();
    let (Some(Ok(interval)), Some(Ok(timeout))) = (parts.first().map(|x| x.parse::<u64>()), parts.get(1).map(|x| x.parse::<u64>())) else {
        return "bad-case".to_owned();
    };
    if parts.len() != 2 || interval == 0 || timeout == 0 || interval > 60_000 || timeout > 60_000 || n > 40_000 {
        return "bad-case".to_owned();
    }
    let rt = runtime();
    rt.block_on(async {
        let mut sim = ConnSim::new(true, Some((Duration::from_millis(interval), Duration::from_millis(timeout))));
        settle().await;
        for k in 0..n {
            sim.submit(ctx);
            // tokio's cooperative budget (128 channel operations per task poll): yield often enough
            if k % 32 == 31 {
                tokio::task::yield_now().await;
            }
            if k % 128 == 127 {
                sim.settle(ctx).await; // the writer writes, the silent peer reads
            }
        }
        for _ in 0..2 {
            sim.settle(ctx).await;
            for k in 0..sim.futures.len() {
                sim.poll_req(k, ctx); // a submission that was cut short by the budget completes its push
                if k % 32 == 31 {
                    tokio::task::yield_now().await;
                }
            }
        }
        sim.settle(ctx).await;
        let expect_frames = n.min(32768);
        if sim.unanswered.len() != expect_frames {
            ctx.fail(format!("harness: only {} of {} requests reached the silent peer", sim.unanswered.len(), expect_frames));
        }
        let step = (interval.min(timeout) / 2).max(1);
        let horizon = 2 * interval + timeout;
        let mut t = 0;
        while t < horizon && sim.broken.is_none() {
            tokio::time::advance(Duration::from_millis(step)).await;
            t += step;
            sim.settle(ctx).await;
        }
        if sim.broken.is_none() {
            ctx.fail(format!(
                "{} requests in flight, the peer is silent: the connection was not broken within {} ms (keep-alive interval {} + timeout {} + slack)",
                n, horizon, interval, timeout
            ));
        }
        // ORACLE: the KIND of the break - with a free stream id the probe is written and times out; with all 32768
        // taken the probe itself is refused a stream id, which must end the router too (KeepaliveRequestError)
        let want = if n >= 32768 { "KeepaliveRequestError" } else { "KeepaliveTimeout" };
        if let Some(kind) = &sim.broken {
            if kind != want {
                ctx.fail(format!("{} requests in flight, silent peer: the connection broke with {} instead of {}", n, kind, want));
            }
        }
        for round in 0..2 {
            for k in 0..sim.futures.len() {
                sim.poll_req(k, ctx);
                if k % 64 == 63 {
                    tokio::task::yield_now().await;
                }
            }
            if round == 0 {
                sim.settle(ctx).await;
            }
        }
        let hanging = sim.outcomes.iter().filter(|o| o.is_none()).count();
        let ok = sim.outcomes.iter().filter(|o| o.as_deref().is_some_and(|s| s.starts_with("ok:"))).count();
        if hanging != 0 || ok != 0 {
            ctx.fail(format!(
                "{} of {} callers still wait ({} got a response nobody sent) after the silent peer should have been detected",
                hanging, n, ok
            ));
        }
        "kax".to_owned()
    })
}

pub fn run(case: &str, ctx: &mut Ctx) -> String {
    let w: Vec<&str> = case.split_whitespace().collect();
    fn ops<'a>(s: Option<&&'a str>) -> Vec<&'a str> {
        s.map(|s| s.split(';').filter(|o| !o.is_empty()).collect()).unwrap_or_default()
    }
    match w.first().copied() {
        Some("frames") if w.len() == 2 => match unhex(w[1]) {
            Some(bytes) => run_frames(&bytes, ctx),
            None => "bad-case".to_owned(),
        },
        Some("conn") if (w.len() == 2 || w.len() == 3) && (w[1] == "0" || w[1] == "1") => {
            run_conn(w[1] == "1", None, &ops(w.get(2)), ctx)
        }
        Some("conne") if w.len() == 2 || w.len() == 3 => {
            let cfg: Vec<&str> = w[1].split('/').collect();
            let mode = match cfg.get(1) {
                None => Some(0u8),
                Some(m) => m.parse::<u8>().ok().filter(|m| *m <= 2),
            };
            match (cfg.first().copied(), mode) {
                (Some(wc @ ("0" | "1")), Some(mode)) if cfg.len() <= 2 => {
                    run_conn_ev(wc == "1", None, Some(mode), &ops(w.get(2)), ctx)
                }
                // the control connection's configuration: an event sender AND keep-alive
                (Some(wc @ ("0" | "1")), Some(mode)) if cfg.len() == 4 && w.len() == 3 => {
                    match (cfg[2].parse::<u64>(), cfg[3].parse::<u64>()) {
                        (Ok(i), Ok(t)) if i > 0 && t > 0 && i <= 60000 && t <= 60000 => {
                            run_conn_ev(wc == "1", Some((i, t)), Some(mode), &ops(w.get(2)), ctx)
                        }
                        _ => "bad-case".to_owned(),
                    }
                }
                _ => "bad-case".to_owned(),
            }
        }
        Some("kax") if w.len() == 3 => match w[2].parse::<usize>() {
            Ok(n) => run_kax(w[1], n, ctx),
            Err(_) => "bad-case".to_owned(),
        },
        Some("pool") if w.len() == 3 => crate::c10_pool::run(w[1], w[2], ctx),
        Some("rp") if w.len() == 3 => crate::c10_pool::run_rp(w[1], w[2], ctx),
        Some("rp") if w.len() == 2 => crate::c10_pool::run_rp(w[1], "", ctx),
        Some("poolr") if w.len() == 2 => crate::c10_pool::run_poolr(w[1], ctx),
        Some("poolk") if w.len() == 2 => crate::c10_pool::run_poolk(w[1], ctx),
        Some("metaf") if w.len() == 4 => crate::c10_meta::run(w[1], w[2], w[3], ctx),
        Some("race") if w.len() == 3 => match w[2].parse::<u64>() {
            Ok(seed) => run_race(w[1], seed, ctx),
            Err(_) => "bad-case".to_owned(),
        },
        Some("ka") if w.len() == 2 || w.len() == 3 => {
            let cfg: Vec<&str> = w[1].split('/').collect();
            if cfg.len() != 3 || !(cfg[0] == "0" || cfg[0] == "1") {
                return "bad-case".to_owned();
            }
            match (cfg[1].parse::<u64>(), cfg[2].parse::<u64>()) {
                (Ok(i), Ok(t)) if i > 0 && t > 0 => run_conn(cfg[0] == "1", Some((i, t)), &ops(w.get(2)), ctx),
                _ => "bad-case".to_owned(),
            }
        }
        _ => "bad-case".to_owned(),
    }
}

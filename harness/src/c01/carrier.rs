//! Typed Rust carriers of C01: a macro-instantiated list of concrete Rust types.  A case
//! `carrier <name> T V` carries the *embedding* `V` of the Rust value into the value notation; the harness
//! rebuilds the Rust value (`Carrier::from_val`), serializes it with its own `SerializeValue` impl and
//! prints the cell, which the model predicts from `V`.  Oracle: the bytes are the CQL v4 encoding of `V`,
//! and (where the carrier type-checks for deserialization) `T::deserialize` gives back the same Rust value.
//! `carrierset` is the same for hash-based carriers (iteration order is arbitrary): only `ok <cell length>`.
use super::gen_cases::{gen_native, gen_ty, Pos};
use super::toval::ToVal;
use super::*;
use crate::rng::Rng;
use crate::Tier;
use scylla_cql_core::value::{CqlDecimalBorrowed, CqlVarintBorrowed, MaybeEmpty, MaybeUnset};
use std::borrow::Cow;
use std::collections::{BTreeMap, BTreeSet, HashMap, HashSet};

pub trait Carrier: Sized {
    /// a CQL type this Rust type serializes to
    fn ty(rng: &mut Rng) -> Ty;
    /// the embedding of a random Rust value of this type, for `ty`
    fn gen_val(rng: &mut Rng, ty: &Ty, pos: Pos) -> Val;
    fn from_val(v: &Val) -> Option<Self>;
    fn same(&self, o: &Self) -> bool;
    /// false where the typed impl deliberately rejects what the dynamic serializer of the embedding accepts
    fn accepts(_ty: &Ty) -> bool {
        true
    }
}

macro_rules! native_carrier {
    ($t:ty, [$($n:ident),+], $pat:pat => $mk:expr, |$a:ident, $b:ident| $same:expr) => {
        impl Carrier for $t {
            fn ty(rng: &mut Rng) -> Ty {
                Ty::Native(rng.pick(&[$(NativeType::$n),+]).clone())
            }
            fn gen_val(rng: &mut Rng, ty: &Ty, pos: Pos) -> Val {
                match ty {
                    Ty::Native(n) => gen_native(rng, n, pos),
                    _ => Val::Null,
                }
            }
            fn from_val(v: &Val) -> Option<Self> {
                match v {
                    $pat => $mk,
                    _ => None,
                }
            }
            fn same(&self, o: &Self) -> bool {
                let ($a, $b) = (self, o);
                $same
            }
        }
    };
}

native_carrier!(i8, [TinyInt], Val::TinyInt(x) => Some(*x), |a, b| a == b);
native_carrier!(i16, [SmallInt], Val::SmallInt(x) => Some(*x), |a, b| a == b);
native_carrier!(i32, [Int], Val::Int(x) => Some(*x), |a, b| a == b);
native_carrier!(i64, [BigInt], Val::BigInt(x) => Some(*x), |a, b| a == b);
native_carrier!(f32, [Float], Val::Float(x) => Some(f32::from_bits(*x)), |a, b| a.to_bits() == b.to_bits());
native_carrier!(f64, [Double], Val::Double(x) => Some(f64::from_bits(*x)), |a, b| a.to_bits() == b.to_bits());
native_carrier!(bool, [Boolean], Val::Boolean(x) => Some(*x), |a, b| a == b);
native_carrier!(String, [Ascii, Text], Val::Ascii(x) | Val::Text(x) => String::from_utf8(x.clone()).ok(), |a, b| a == b);
native_carrier!(Vec<u8>, [Blob], Val::Blob(x) => Some(x.clone()), |a, b| a == b);
native_carrier!(Bytes, [Blob], Val::Blob(x) => Some(Bytes::from(x.clone())), |a, b| a == b);
native_carrier!(IpAddr, [Inet], Val::Inet(x) => Some(inet_of(x)), |a, b| a == b);
native_carrier!(uuid::Uuid, [Uuid], Val::Uuid(x) => Some(uuid::Uuid::from_bytes(*x)), |a, b| a == b);
native_carrier!(CqlTimeuuid, [Timeuuid], Val::Timeuuid(x) => Some(CqlTimeuuid::from_bytes(*x)), |a, b| a.as_bytes() == b.as_bytes());
native_carrier!(CqlDate, [Date], Val::Date(x) => Some(CqlDate(*x)), |a, b| a == b);
native_carrier!(CqlTime, [Time], Val::Time(x) => Some(CqlTime(*x)), |a, b| a == b);
native_carrier!(CqlTimestamp, [Timestamp], Val::Timestamp(x) => Some(CqlTimestamp(*x)), |a, b| a == b);
native_carrier!(CqlDuration, [Duration], Val::Duration(m, d, n) => Some(CqlDuration { months: *m, days: *d, nanoseconds: *n }), |a, b| a == b);
native_carrier!(CqlVarint, [Varint], Val::Varint(x) => Some(CqlVarint::from_signed_bytes_be(x.clone())),
    |a, b| a.as_signed_bytes_be_slice() == b.as_signed_bytes_be_slice());
native_carrier!(CqlDecimal, [Decimal], Val::Decimal(s, x) => Some(CqlDecimal::from_signed_be_bytes_and_exponent(x.clone(), *s)),
    |a, b| a.as_signed_be_bytes_slice_and_exponent() == b.as_signed_be_bytes_slice_and_exponent());
native_carrier!(Counter, [Counter], Val::Counter(x) => Some(Counter(*x)), |a, b| a == b);

impl<T: Carrier> Carrier for Option<T> {
    fn ty(rng: &mut Rng) -> Ty {
        T::ty(rng)
    }
    fn gen_val(rng: &mut Rng, ty: &Ty, pos: Pos) -> Val {
        if rng.chance(1, 4) { Val::Null } else { T::gen_val(rng, ty, pos) }
    }
    fn from_val(v: &Val) -> Option<Self> {
        if *v == Val::Null { Some(None) } else { T::from_val(v).map(Some) }
    }
    fn same(&self, o: &Self) -> bool {
        match (self, o) {
            (None, None) => true,
            (Some(a), Some(b)) => a.same(b),
            _ => false,
        }
    }
}

impl<T: Carrier + scylla_cql_core::value::Emptiable> Carrier for MaybeEmpty<T> {
    fn ty(rng: &mut Rng) -> Ty {
        T::ty(rng)
    }
    fn gen_val(rng: &mut Rng, ty: &Ty, pos: Pos) -> Val {
        if rng.chance(1, 3) { Val::Empty } else { T::gen_val(rng, ty, pos) }
    }
    fn from_val(v: &Val) -> Option<Self> {
        if *v == Val::Empty { Some(MaybeEmpty::Empty) } else { T::from_val(v).map(MaybeEmpty::Value) }
    }
    fn same(&self, o: &Self) -> bool {
        match (self, o) {
            (MaybeEmpty::Empty, MaybeEmpty::Empty) => true,
            (MaybeEmpty::Value(a), MaybeEmpty::Value(b)) => a.same(b),
            _ => false,
        }
    }
}

impl<T: Carrier> Carrier for MaybeUnset<T> {
    fn ty(rng: &mut Rng) -> Ty {
        T::ty(rng)
    }
    fn gen_val(rng: &mut Rng, ty: &Ty, pos: Pos) -> Val {
        if rng.chance(1, 3) { Val::Unset } else { T::gen_val(rng, ty, pos) }
    }
    fn from_val(v: &Val) -> Option<Self> {
        if *v == Val::Unset { Some(MaybeUnset::Unset) } else { T::from_val(v).map(MaybeUnset::Set) }
    }
    fn same(&self, _: &Self) -> bool {
        true
    }
}

macro_rules! transparent_carrier {
    ($w:ident) => {
        impl<T: Carrier> Carrier for $w<T> {
            fn ty(rng: &mut Rng) -> Ty {
                T::ty(rng)
            }
            fn gen_val(rng: &mut Rng, ty: &Ty, pos: Pos) -> Val {
                T::gen_val(rng, ty, pos)
            }
            fn from_val(v: &Val) -> Option<Self> {
                T::from_val(v).map($w::new)
            }
            fn same(&self, o: &Self) -> bool {
                (**self).same(&**o)
            }
        }
    };
}
transparent_carrier!(Box);
transparent_carrier!(Arc);

macro_rules! str_carrier {
    ($t:ty) => {
        impl Carrier for $t {
            fn ty(rng: &mut Rng) -> Ty {
                String::ty(rng)
            }
            fn gen_val(rng: &mut Rng, ty: &Ty, pos: Pos) -> Val {
                String::gen_val(rng, ty, pos)
            }
            fn from_val(v: &Val) -> Option<Self> {
                String::from_val(v).map(|s| <$t>::from(s.as_str()))
            }
            fn same(&self, o: &Self) -> bool {
                **self == **o
            }
        }
    };
}
str_carrier!(Box<str>);
str_carrier!(Arc<str>);

impl Carrier for secrecy_10::SecretSlice<i64> {
    fn ty(rng: &mut Rng) -> Ty {
        <Vec<i64>>::ty(rng)
    }
    fn gen_val(rng: &mut Rng, ty: &Ty, pos: Pos) -> Val {
        <Vec<i64>>::gen_val(rng, ty, pos)
    }
    fn from_val(v: &Val) -> Option<Self> {
        <Vec<i64>>::from_val(v).map(secrecy_10::SecretSlice::from)
    }
    fn same(&self, o: &Self) -> bool {
        use secrecy_10::ExposeSecret;
        self.expose_secret() == o.expose_secret()
    }
}

fn elems<T: Carrier>(rng: &mut Rng, e: &Ty, n: usize) -> Vec<Val> {
    (0..n).map(|_| T::gen_val(rng, e, Pos::Elem)).collect()
}

impl<T: Carrier> Carrier for Vec<T> {
    fn ty(rng: &mut Rng) -> Ty {
        let e = Box::new(T::ty(rng));
        match rng.below(3) {
            0 => Ty::List(e),
            1 => Ty::Set(e),
            _ => Ty::Vector(e, rng.range(1, 4) as u16),
        }
    }
    fn gen_val(rng: &mut Rng, ty: &Ty, _pos: Pos) -> Val {
        let n = rng.below(5) as usize;
        match ty {
            Ty::List(e) => Val::List(elems::<T>(rng, e, n)),
            Ty::Set(e) => Val::Set(elems::<T>(rng, e, n)),
            Ty::Vector(e, d) => {
                let fixed = size_for_vector(e).is_some();
                Val::Vector(
                    (0..*d)
                        .map(|i| T::gen_val(rng, e, { let _ = i; if fixed { Pos::FixedVec } else { Pos::Elem } }))
                        .collect(),
                )
            }
            _ => Val::Null,
        }
    }
    fn from_val(v: &Val) -> Option<Self> {
        match v {
            Val::List(vs) | Val::Set(vs) | Val::Vector(vs) => vs.iter().map(T::from_val).collect(),
            _ => None,
        }
    }
    fn same(&self, o: &Self) -> bool {
        self.len() == o.len() && self.iter().zip(o).all(|(a, b)| a.same(b))
    }
}

/// `CqlTimeuuid`'s order, re-implemented from its documentation: the timestamp (time_hi without the version
/// nibble, time_mid, time_low), then the low 8 bytes as signed bytes.
fn timeuuid_key(b: &[u8; 16]) -> (u64, [i8; 8]) {
    let msb = u64::from_be_bytes([b[6] & 0x0f, b[7], b[4], b[5], b[0], b[1], b[2], b[3]]);
    let mut low = [0i8; 8];
    for i in 0..8 {
        low[i] = b[8 + i] as i8;
    }
    (msb, low)
}

/// The `Ord` of the Rust key types, on their embeddings (independent of the Lean model's `rvCmp`).
pub fn val_cmp(a: &Val, b: &Val) -> std::cmp::Ordering {
    use std::cmp::Ordering::*;
    match (a, b) {
        (Val::TinyInt(x), Val::TinyInt(y)) => x.cmp(y),
        (Val::SmallInt(x), Val::SmallInt(y)) => x.cmp(y),
        (Val::Int(x), Val::Int(y)) => x.cmp(y),
        (Val::BigInt(x), Val::BigInt(y)) | (Val::Counter(x), Val::Counter(y)) | (Val::Timestamp(x), Val::Timestamp(y)) => x.cmp(y),
        (Val::Boolean(x), Val::Boolean(y)) => x.cmp(y),
        (Val::Ascii(x) | Val::Text(x), Val::Ascii(y) | Val::Text(y)) | (Val::Blob(x), Val::Blob(y)) => x.cmp(y),
        (Val::Uuid(x), Val::Uuid(y)) => x.cmp(y),
        (Val::Timeuuid(x), Val::Timeuuid(y)) => timeuuid_key(x).cmp(&timeuuid_key(y)),
        (Val::Inet(x), Val::Inet(y)) => (x.len(), x).cmp(&(y.len(), y)),
        (Val::Null, Val::Null) => Equal,
        (Val::Null, _) => Less,
        (_, Val::Null) => Greater,
        (Val::List(x) | Val::Set(x) | Val::Vector(x) | Val::Tuple(x), Val::List(y) | Val::Set(y) | Val::Vector(y) | Val::Tuple(y)) => {
            for (p, q) in x.iter().zip(y) {
                let c = val_cmp(p, q);
                if c != Equal {
                    return c;
                }
            }
            x.len().cmp(&y.len())
        }
        _ => Equal,
    }
}

fn sorted_unique(mut vs: Vec<Val>) -> Vec<Val> {
    vs.sort_by(val_cmp);
    vs.dedup_by(|a, b| val_cmp(a, b) == std::cmp::Ordering::Equal);
    vs
}

fn sorted_unique_pairs(mut kvs: Vec<(Val, Val)>) -> Vec<(Val, Val)> {
    kvs.sort_by(|a, b| val_cmp(&a.0, &b.0));
    kvs.dedup_by(|a, b| val_cmp(&a.0, &b.0) == std::cmp::Ordering::Equal);
    kvs
}

macro_rules! set_carrier {
    ($s:ident, $($bound:tt)+) => {
        impl<T: Carrier + $($bound)+> Carrier for $s<T> {
            fn ty(rng: &mut Rng) -> Ty {
                let e = Box::new(T::ty(rng));
                if rng.bool() { Ty::List(e) } else { Ty::Set(e) }
            }
            fn gen_val(rng: &mut Rng, ty: &Ty, _pos: Pos) -> Val {
                let n = rng.below(6) as usize;
                match ty {
                    Ty::List(e) => Val::List(sorted_unique(elems::<T>(rng, e, n))),
                    Ty::Set(e) => Val::Set(sorted_unique(elems::<T>(rng, e, n))),
                    _ => Val::Null,
                }
            }
            fn from_val(v: &Val) -> Option<Self> {
                match v {
                    Val::List(vs) | Val::Set(vs) => vs.iter().map(T::from_val).collect(),
                    _ => None,
                }
            }
            fn same(&self, o: &Self) -> bool {
                self == o
            }
            fn accepts(ty: &Ty) -> bool {
                !matches!(ty, Ty::Vector(..))
            }
        }
    };
}
set_carrier!(BTreeSet, Ord);
set_carrier!(HashSet, Eq + std::hash::Hash);

macro_rules! map_carrier {
    ($s:ident, $($bound:tt)+) => {
        impl<K: Carrier + $($bound)+, V: Carrier> Carrier for $s<K, V> {
            fn ty(rng: &mut Rng) -> Ty {
                Ty::Map(Box::new(K::ty(rng)), Box::new(V::ty(rng)))
            }
            fn gen_val(rng: &mut Rng, ty: &Ty, _pos: Pos) -> Val {
                let n = rng.below(5) as usize;
                match ty {
                    Ty::Map(kt, vt) => Val::Map(sorted_unique_pairs(
                        (0..n).map(|_| (K::gen_val(rng, kt, Pos::Elem), V::gen_val(rng, vt, Pos::Elem))).collect(),
                    )),
                    _ => Val::Null,
                }
            }
            fn from_val(v: &Val) -> Option<Self> {
                match v {
                    Val::Map(kvs) => kvs.iter().map(|(k, v)| Some((K::from_val(k)?, V::from_val(v)?))).collect(),
                    _ => None,
                }
            }
            fn same(&self, o: &Self) -> bool {
                self.len() == o.len() && self.iter().all(|(k, v)| o.get(k).is_some_and(|w| v.same(w)))
            }
        }
    };
}
map_carrier!(BTreeMap, Ord);
map_carrier!(HashMap, Eq + std::hash::Hash);

macro_rules! tuple_carrier {
    ($($T:ident $i:tt),+) => {
        impl<$($T: Carrier),+> Carrier for ($($T,)+) {
            fn ty(rng: &mut Rng) -> Ty {
                let mut ts = vec![$($T::ty(rng)),+];
                // the CQL tuple may have more fields than the Rust tuple (serialization only)
                if rng.chance(1, 4) {
                    ts.push(gen_ty(rng, 1));
                }
                Ty::Tuple(ts)
            }
            fn gen_val(rng: &mut Rng, ty: &Ty, _pos: Pos) -> Val {
                match ty {
                    Ty::Tuple(ts) => Val::Tuple(vec![$($T::gen_val(rng, &ts[$i], Pos::Nullable)),+]),
                    _ => Val::Null,
                }
            }
            fn from_val(v: &Val) -> Option<Self> {
                match v {
                    Val::Tuple(fs) if fs.len() == [$($i),+].len() => Some(($($T::from_val(&fs[$i])?,)+)),
                    _ => None,
                }
            }
            fn same(&self, o: &Self) -> bool {
                $(self.$i.same(&o.$i))&&+
            }
        }
    };
}
tuple_carrier!(A 0);
tuple_carrier!(A 0, B 1);
tuple_carrier!(A 0, B 1, C 2);
tuple_carrier!(A 0, B 1, C 2, D 3);
tuple_carrier!(A 0, B 1, C 2, D 3, E 4, F 5, G 6, H 7, I 8, J 9, K 10, L 11, M 12, N 13, O 14, P 15);

// ------------------------------------------------------------------------------------------------

fn typed_decode<T>(ct: &ColumnType<'static>, body: Option<&[u8]>) -> Option<Result<T, String>>
where
    T: for<'f, 'm> DeserializeValue<'f, 'm>,
{
    if T::type_check(ct).is_err() {
        return None;
    }
    let bytes = body.map(Bytes::copy_from_slice);
    let slice = bytes.as_ref().map(FrameSlice::new);
    Some(T::deserialize(ct, slice).map_err(|e| de_kind(&e)))
}

fn check_bytes(ty: &Ty, val: &Val, dom: Dom, res: &Result<Vec<u8>, String>, ctx: &mut Ctx) {
    check_bytes_ord(ty, val, dom, res, ctx, true)
}

/// `ordered = false` (hash-based carriers): the element cells may come in any order.
fn check_bytes_ord(ty: &Ty, val: &Val, dom: Dom, res: &Result<Vec<u8>, String>, ctx: &mut Ctx, ordered: bool) {
    match res {
        Err(k) => {
            if dom != Dom::Out {
                ctx.fail(format!("{}encode failed with {} on a value of the type", tag(dom), k));
            }
        }
        Ok(cell) => {
            if dom == Dom::In {
                match spec_cell(ty, val) {
                    Some(s) if s == *cell => {}
                    Some(s) if !ordered && s.len() == cell.len() && s[..8] == cell[..8] && sorted_bytes(&s) == sorted_bytes(cell) => {}
                    s => ctx.fail(format!("wire-bytes: carrier wrote {} but the CQL v4 encoding is {}", hex(cell), s.map(|s| hex(&s)).unwrap_or("undefined".into()))),
                }
            }
        }
    }
}

fn sorted_bytes(b: &[u8]) -> Vec<u8> {
    let mut v = b.to_vec();
    v.sort_unstable();
    v
}

/// Canonical form of a collection cell whose entries come in arbitrary order: header, then the entries sorted.
pub fn canon_unordered(cell: &[u8], pair: bool) -> String {
    if cell.len() < 8 {
        return hex(cell);
    }
    let mut p = 8;
    let mut entries = Vec::new();
    while p < cell.len() {
        let start = p;
        for _ in 0..(if pair { 2 } else { 1 }) {
            if p + 4 > cell.len() {
                return hex(cell);
            }
            let l = i32::from_be_bytes(cell[p..p + 4].try_into().unwrap());
            p += 4;
            if l > 0 {
                p += l as usize;
            }
        }
        if p > cell.len() {
            return hex(cell);
        }
        entries.push(hex(&cell[start..p]));
    }
    entries.sort();
    format!("{} {}", hex(&cell[..8]), if entries.is_empty() { "-".to_owned() } else { entries.join(",") })
}

fn line(res: &Result<Vec<u8>, String>, len_only: bool) -> String {
    line_named(res, len_only, false)
}

fn line_named(res: &Result<Vec<u8>, String>, len_only: bool, pair: bool) -> String {
    match res {
        Ok(c) if len_only => format!("ok {}", canon_unordered(c, pair)),
        Ok(c) => hex(c),
        Err(k) => format!("err {}", k),
    }
}

/// serialize + typed round trip
fn run_full<T>(ty: &Ty, val: &Val, ctx: &mut Ctx, len_only: bool) -> String
where
    T: Carrier + ToVal + SerializeValue + for<'f, 'm> DeserializeValue<'f, 'm>,
{
    let Some(x) = T::from_val(val) else { return "bad-case".to_owned() };
    let ct = to_column_type(ty);
    let res = serialize_any(&x, &ct, ctx);
    let dom = if T::accepts(ty) { classify(ty, val, true) } else { Dom::Out };
    check_bytes_ord(ty, val, dom, &res, ctx, !len_only);
    let mut decoded = String::new();
    if let Ok(cell) = &res {
        let body = split_cell(cell, ctx);
        let td = typed_decode::<T>(&ct, body.as_deref());
        if dom != Dom::Out {
            match &td {
                None => {}
                Some(Ok(y)) if y.same(&x) => {}
                Some(Ok(_)) => ctx.fail(format!("{}roundtrip: the carrier decodes to a different Rust value", tag(dom))),
                Some(Err(k)) => ctx.fail(format!("{}roundtrip: the carrier fails to decode its own encoding: {}", tag(dom), k)),
            }
        }
        // what the typed `DeserializeValue` impl makes of the carrier's own bytes (hash-ordered carriers: not printed)
        if !len_only {
            decoded = match &td {
                None => " => no-typecheck".to_owned(),
                Some(Ok(y)) => format!(" => {}", val_str(&y.to_val())),
                Some(Err(k)) => format!(" => err {}", k),
            };
        }
    }
    format!("{}{}", line_named(&res, len_only, matches!(ty, Ty::Map(..))), decoded)
}

/// serialization only (borrowed carriers, `MaybeUnset`)
fn run_ser<T: Carrier, U: SerializeValue + ?Sized>(ty: &Ty, val: &Val, ctx: &mut Ctx, view: impl Fn(&T) -> &U) -> String {
    let Some(x) = T::from_val(val) else { return "bad-case".to_owned() };
    let ct = to_column_type(ty);
    let res = serialize_any(&view(&x), &ct, ctx);
    check_bytes(ty, val, classify(ty, val, true), &res, ctx);
    line(&res, false)
}

/// Hash-based carriers iterate in arbitrary order: print their content sorted by the key's own order.
fn canon_hashed(name: &str, v: Val) -> Val {
    if !HASHED.contains(&name) {
        return v;
    }
    match v {
        Val::Set(mut vs) => {
            vs.sort_by(val_cmp);
            Val::Set(vs)
        }
        Val::Map(mut kvs) => {
            kvs.sort_by(|a, b| val_cmp(&a.0, &b.0));
            Val::Map(kvs)
        }
        v => v,
    }
}

/// The same key for `CqlTimeuuid`'s `Ord` / `Eq` / `Hash`, other bytes: another version nibble.
fn flip_version(v: &Val, rng: &mut Rng) -> Val {
    match v {
        Val::Timeuuid(b) => {
            let mut c = *b;
            c[6] ^= (rng.range(1, 15) as u8) << 4;
            Val::Timeuuid(c)
        }
        Val::List(vs) => Val::List(vs.iter().map(|x| flip_version(x, rng)).collect()),
        Val::Tuple(vs) => Val::Tuple(vs.iter().map(|x| flip_version(x, rng)).collect()),
        other => other.clone(),
    }
}

fn has_vector(t: &Ty) -> bool {
    match t {
        Ty::Vector(..) => true,
        Ty::List(e) | Ty::Set(e) => has_vector(e),
        Ty::Map(k, v) => has_vector(k) || has_vector(v),
        Ty::Tuple(ts) => ts.iter().any(has_vector),
        Ty::Udt(_, _, fs) => fs.iter().any(|f| has_vector(&f.1)),
        Ty::Native(_) => false,
    }
}

/// Typed decoder on an arbitrary cell body: never panics; what it accepts re-serializes to something it
/// decodes to the same value (`deser ∘ ser ∘ deser = deser`).
fn run_tdec_full<T>(name: &str, ty: &Ty, body: Option<Vec<u8>>, ctx: &mut Ctx) -> String
where
    T: Carrier + ToVal + SerializeValue + for<'f, 'm> DeserializeValue<'f, 'm>,
{
    let ct = to_column_type(ty);
    match typed_decode::<T>(&ct, body.as_deref()) {
        None => "no-typecheck".to_owned(),
        Some(Err(k)) => format!("err {}", k),
        Some(Ok(x)) => {
            let mut buf = Vec::new();
            match x.serialize(&ct, CellWriter::new(&mut buf)) {
                Err(_) => val_str(&canon_hashed(name, x.to_val())),
                Ok(_) => {
                    let b2 = split_cell(&buf, ctx);
                    // a decoded `None` / `Empty` element of a vector re-serializes into the known shapes C01-F2 / C01-F9
                    let known_shape = has_vector(ty) && (name.contains("opt") || name.contains("mempty"));
                    match typed_decode::<T>(&ct, b2.as_deref()) {
                        Some(Ok(y)) if y.same(&x) => {}
                        _ if known_shape => {}
                        _ => ctx.fail("typed decode: deser(ser(deser b)) differs from deser b".to_owned()),
                    }
                    val_str(&canon_hashed(name, x.to_val()))
                }
            }
        }
    }
}

macro_rules! carriers {
    (full: [$($fname:literal => $ft:ty),* $(,)?], hashed: [$($hname:literal => $ht:ty),* $(,)?]) => {
        const FULL: &[&str] = &[$($fname),*];
        const HASHED: &[&str] = &[$($hname),*];
        fn run_registered(name: &str, ty: &Ty, val: &Val, ctx: &mut Ctx) -> Option<String> {
            Some(match name {
                $($fname => run_full::<$ft>(ty, val, ctx, false),)*
                $($hname => run_full::<$ht>(ty, val, ctx, true),)*
                _ => return None,
            })
        }
        fn run_tdec_registered(name: &str, ty: &Ty, body: Option<Vec<u8>>, ctx: &mut Ctx) -> Option<String> {
            Some(match name {
                $($fname => run_tdec_full::<$ft>(name, ty, body, ctx),)*
                $($hname => run_tdec_full::<$ht>(name, ty, body, ctx),)*
                _ => return None,
            })
        }
        fn gen_registered(name: &str, rng: &mut Rng) -> Option<(Ty, Val)> {
            Some(match name {
                $($fname => { let t = <$ft>::ty(rng); let v = <$ft>::gen_val(rng, &t, Pos::Nullable); (t, v) })*
                $($hname => { let t = <$ht>::ty(rng); let v = <$ht>::gen_val(rng, &t, Pos::Nullable); (t, v) })*
                _ => return None,
            })
        }
    };
}

carriers!(
    full: [
        "i8" => i8, "i16" => i16, "i32" => i32, "i64" => i64, "f32" => f32, "f64" => f64, "bool" => bool,
        "string" => String, "blob" => Vec<u8>, "bytes" => Bytes, "inet" => IpAddr, "uuid" => uuid::Uuid,
        "timeuuid" => CqlTimeuuid, "date" => CqlDate, "time" => CqlTime, "timestamp" => CqlTimestamp,
        "duration" => CqlDuration, "varint" => CqlVarint, "decimal" => CqlDecimal, "counter" => Counter,
        "opt_i32" => Option<i32>, "opt_string" => Option<String>, "opt_varint" => Option<CqlVarint>,
        "mempty_i32" => MaybeEmpty<i32>, "mempty_uuid" => MaybeEmpty<uuid::Uuid>, "opt_mempty_i64" => Option<MaybeEmpty<i64>>,
        "vec_i32" => Vec<i32>, "vec_string" => Vec<String>, "vec_f64" => Vec<f64>, "vec_uuid" => Vec<uuid::Uuid>,
        "vec_blob" => Vec<Vec<u8>>, "vec_duration" => Vec<CqlDuration>, "vec_opt_i32" => Vec<Option<i32>>,
        "vec_opt_i64" => Vec<Option<i64>>, "vec_opt_string" => Vec<Option<String>>, "vec_vec_i32" => Vec<Vec<i32>>,
        "vec_mempty_i32" => Vec<MaybeEmpty<i32>>, "vec_mempty_varint" => Vec<MaybeEmpty<CqlVarint>>,
        "vec_tup2_i32_string" => Vec<(i32, String)>,
        "bset_i32" => BTreeSet<i32>, "bset_string" => BTreeSet<String>, "bmap_i32_string" => BTreeMap<i32, String>,
        "bmap_string_vec_i32" => BTreeMap<String, Vec<i32>>,
        "tup1_i32" => (i32,), "tup2_i32_string" => (i32, String), "tup3_opt_i32_opt_string_opt_vec_f32" => (Option<i32>, Option<String>, Option<Vec<f32>>),
        "tup2_tup1_i64_vec_i64" => ((i64,), Vec<i64>), "box_i32" => Box<i32>, "arc_string" => Arc<String>,
        // external crates (differential only)
        "chronodate" => chrono_04::NaiveDate, "chronodatetime" => chrono_04::DateTime<chrono_04::Utc>,
        "chronotime" => chrono_04::NaiveTime, "timedate" => time_03::Date,
        "timeoffsetdatetime" => time_03::OffsetDateTime, "timetime" => time_03::Time,
        "bigint03" => num_bigint_03::BigInt, "bigint04" => num_bigint_04::BigInt,
        "bigdecimal" => bigdecimal_04::BigDecimal, "vec_chronodate" => Vec<chrono_04::NaiveDate>,
        "opt_bigint04" => Option<num_bigint_04::BigInt>, "bmap_bigint04_bigdecimal" => BTreeMap<num_bigint_04::BigInt, bigdecimal_04::BigDecimal>,
        "tup2_timedate_opt_timetime" => (time_03::Date, Option<time_03::Time>), "mempty_chronotime" => MaybeEmpty<chrono_04::NaiveTime>,
        "secret08string" => secrecy_08::Secret<String>, "secret10string" => secrecy_10::SecretString,
        "secretbox10i64" => secrecy_10::SecretBox<i64>, "secretslice10_i64" => secrecy_10::SecretSlice<i64>,
        // owned string smart pointers with their own decode code (deserialize/value.rs:1926-1954)
        "boxstr" => Box<str>, "arcstr" => Arc<str>,
        // macro-generated tuple arities beyond 3
        "tup4_i32_string_bool_i64" => (i32, String, bool, i64),
        "tup16_i32_i64_bool_string_i8_i16_f32_f64_blob_uuid_opt_i32_date_time_timestamp_counter_inet" =>
            (i32, i64, bool, String, i8, i16, f32, f64, Vec<u8>, uuid::Uuid, Option<i32>, CqlDate, CqlTime, CqlTimestamp, Counter, IpAddr),
        // every key type whose order the model has (`rvCmp`)
        "bset_i8" => BTreeSet<i8>, "bset_i16" => BTreeSet<i16>, "bset_i64" => BTreeSet<i64>, "bset_bool" => BTreeSet<bool>,
        "bset_blob" => BTreeSet<Vec<u8>>, "bset_uuid" => BTreeSet<uuid::Uuid>, "bset_timeuuid" => BTreeSet<CqlTimeuuid>,
        "bset_inet" => BTreeSet<IpAddr>, "bset_counter" => BTreeSet<Counter>, "bset_timestamp" => BTreeSet<CqlTimestamp>,
        "bset_opt_i32" => BTreeSet<Option<i32>>, "bset_vec_i32" => BTreeSet<Vec<i32>>, "bset_tup2_i32_string" => BTreeSet<(i32, String)>,
        "bmap_uuid_i32" => BTreeMap<uuid::Uuid, i32>, "bmap_i64_string" => BTreeMap<i64, String>,
        "bmap_blob_opt_i64" => BTreeMap<Vec<u8>, Option<i64>>, "bmap_timeuuid_i32" => BTreeMap<CqlTimeuuid, i32>,
        "bmap_inet_bool" => BTreeMap<IpAddr, bool>,
        "bset_opt_timeuuid" => BTreeSet<Option<CqlTimeuuid>>, "bset_vec_timeuuid" => BTreeSet<Vec<CqlTimeuuid>>,
        "bset_tup2_timeuuid_i32" => BTreeSet<(CqlTimeuuid, i32)>,
    ],
    hashed: [
        "hset_i32" => HashSet<i32>, "hset_string" => HashSet<String>, "hmap_string_i64" => HashMap<String, i64>,
        "hmap_i32_opt_string" => HashMap<i32, Option<String>>,
        "hset_bool" => HashSet<bool>, "hset_i64" => HashSet<i64>, "hset_uuid" => HashSet<uuid::Uuid>,
        "hset_timeuuid" => HashSet<CqlTimeuuid>, "hset_inet" => HashSet<IpAddr>, "hmap_blob_i32" => HashMap<Vec<u8>, i32>,
        "hmap_timeuuid_i32" => HashMap<CqlTimeuuid, i32>, "hset_opt_timeuuid" => HashSet<Option<CqlTimeuuid>>,
    ]
);

/// carriers of external crates: their range limits are not modelled (malformed input is oracle-only for them)
const EXTERNAL: &[&str] = &["chrono", "timedate", "timeoffset", "timetime", "bigint", "bigdecimal", "secret"];

/// carriers whose `DeserializeValue` impl borrows from the frame (their own copies of the decode code:
/// deserialize/value.rs:376, 423, 460, 509, 1905); `cowbytes` (`Cow<[u8]>`) is decode-only
const BORROWED: &[&str] = &["strref", "cowstr", "bytesref", "varintborrowed", "decimalborrowed"];

fn borrowed_decode(name: &str, ct: &ColumnType<'static>, body: Option<&[u8]>) -> Option<Option<Result<Val, String>>> {
    macro_rules! bdec {
        ($t:ty, |$x:ident| $conv:expr) => {{
            if <$t as DeserializeValue>::type_check(ct).is_err() {
                None
            } else {
                let bytes = body.map(Bytes::copy_from_slice);
                let slice = bytes.as_ref().map(FrameSlice::new);
                Some(<$t as DeserializeValue>::deserialize(ct, slice).map(|$x| $conv).map_err(|e| de_kind(&e)))
            }
        }};
    }
    Some(match name {
        "strref" => bdec!(&str, |x| Val::Text(x.as_bytes().to_vec())),
        "cowstr" => bdec!(Cow<str>, |x| Val::Text(x.as_bytes().to_vec())),
        "bytesref" => bdec!(&[u8], |x| Val::Blob(x.to_vec())),
        "cowbytes" => bdec!(Cow<[u8]>, |x| Val::Blob(x.to_vec())),
        "varintborrowed" => bdec!(CqlVarintBorrowed, |x| Val::Varint(x.as_signed_bytes_be_slice().to_vec())),
        "decimalborrowed" => bdec!(CqlDecimalBorrowed, |x| {
            let (b, s) = x.as_signed_be_bytes_slice_and_exponent();
            Val::Decimal(s, b.to_vec())
        }),
        _ => return None,
    })
}

fn show_typed(r: &Option<Result<Val, String>>) -> String {
    match r {
        None => "no-typecheck".to_owned(),
        Some(Ok(v)) => val_str(v),
        Some(Err(k)) => format!("err {}", k),
    }
}

fn content_of(v: &Val) -> Option<(i32, Vec<u8>)> {
    match v {
        Val::Ascii(b) | Val::Text(b) | Val::Blob(b) | Val::Varint(b) => Some((0, b.clone())),
        Val::Decimal(s, b) => Some((*s, b.clone())),
        _ => None,
    }
}

/// carriers without any `DeserializeValue` impl (`MaybeUnset`) or driven for serialization only (slices, arrays, `dyn`)
const SER_ONLY: &[&str] = &["munset_i32", "vec_munset_i32", "tup2_munset_string_opt_i64", "bmap_i32_munset_string", "slice_i32", "slice_opt_string", "slice_vec_i32", "bytesarr4", "bytesarr16", "dynser_i32", "dynser_vec_string"];

fn run_ser_only(name: &str, ty: &Ty, val: &Val, ctx: &mut Ctx) -> Option<String> {
    Some(match name {
        "strref" => run_ser::<String, str>(ty, val, ctx, |s| s.as_str()),
        "bytesref" => {
            let Some(x) = <Vec<u8>>::from_val(val) else { return Some("bad-case".to_owned()) };
            let ct = to_column_type(ty);
            let res = serialize_any(&x.as_slice(), &ct, ctx);
            check_bytes(ty, val, classify(ty, val, true), &res, ctx);
            line(&res, false)
        }
        "cowstr" => {
            let Some(x) = String::from_val(val) else { return Some("bad-case".to_owned()) };
            let ct = to_column_type(ty);
            let res = serialize_any(&Cow::Borrowed(x.as_str()), &ct, ctx);
            check_bytes(ty, val, classify(ty, val, true), &res, ctx);
            line(&res, false)
        }
        "varintborrowed" => {
            let Val::Varint(b) = val else { return Some("bad-case".to_owned()) };
            let ct = to_column_type(ty);
            let res = serialize_any(&CqlVarintBorrowed::from_signed_bytes_be_slice(b), &ct, ctx);
            check_bytes(ty, val, classify(ty, val, true), &res, ctx);
            line(&res, false)
        }
        "decimalborrowed" => {
            let Val::Decimal(s, b) = val else { return Some("bad-case".to_owned()) };
            let ct = to_column_type(ty);
            let res = serialize_any(&CqlDecimalBorrowed::from_signed_be_bytes_slice_and_exponent(b, *s), &ct, ctx);
            check_bytes(ty, val, classify(ty, val, true), &res, ctx);
            line(&res, false)
        }
        "munset_i32" => run_ser::<MaybeUnset<i32>, _>(ty, val, ctx, |x| x),
        "vec_munset_i32" => run_ser::<Vec<MaybeUnset<i32>>, _>(ty, val, ctx, |x| x),
        "tup2_munset_string_opt_i64" => run_ser::<(MaybeUnset<String>, Option<i64>), _>(ty, val, ctx, |x| x),
        "bmap_i32_munset_string" => run_ser::<BTreeMap<i32, MaybeUnset<String>>, _>(ty, val, ctx, |x| x),
        // `impl SerializeValue for [T]` (value.rs:574-611, its own copy of the `Vec<T>` code)
        "slice_i32" => run_ser::<Vec<i32>, [i32]>(ty, val, ctx, |x| x.as_slice()),
        "slice_opt_string" => run_ser::<Vec<Option<String>>, [Option<String>]>(ty, val, ctx, |x| x.as_slice()),
        "slice_vec_i32" => run_ser::<Vec<Vec<i32>>, [Vec<i32>]>(ty, val, ctx, |x| x.as_slice()),
        // `impl<const N: usize> SerializeValue for [u8; N]`
        "bytesarr4" | "bytesarr16" => {
            let Some(x) = <Vec<u8>>::from_val(val) else { return Some("bad-case".to_owned()) };
            let ct = to_column_type(ty);
            let res = if name == "bytesarr4" {
                let Ok(a) = <[u8; 4]>::try_from(x.as_slice()) else { return Some("bad-case".to_owned()) };
                serialize_any(&a, &ct, ctx)
            } else {
                let Ok(a) = <[u8; 16]>::try_from(x.as_slice()) else { return Some("bad-case".to_owned()) };
                serialize_any(&a, &ct, ctx)
            };
            check_bytes(ty, val, classify(ty, val, true), &res, ctx);
            line(&res, false)
        }
        // through a trait object
        "dynser_i32" => {
            let Some(x) = i32::from_val(val) else { return Some("bad-case".to_owned()) };
            let d: &dyn SerializeValue = &x;
            let ct = to_column_type(ty);
            let res = serialize_any(&d, &ct, ctx);
            check_bytes(ty, val, classify(ty, val, true), &res, ctx);
            line(&res, false)
        }
        "dynser_vec_string" => {
            let Some(x) = <Vec<String>>::from_val(val) else { return Some("bad-case".to_owned()) };
            let d: Box<dyn SerializeValue> = Box::new(x);
            let ct = to_column_type(ty);
            let res = serialize_any(&d, &ct, ctx);
            check_bytes(ty, val, classify(ty, val, true), &res, ctx);
            line(&res, false)
        }
        _ => return None,
    })
}

fn gen_ser_only(name: &str, rng: &mut Rng) -> (Ty, Val) {
    fn g<T: Carrier>(rng: &mut Rng) -> (Ty, Val) {
        let t = T::ty(rng);
        let v = T::gen_val(rng, &t, Pos::Nullable);
        (t, v)
    }
    match name {
        "strref" | "cowstr" => g::<String>(rng),
        "bytesref" | "cowbytes" => g::<Vec<u8>>(rng),
        "varintborrowed" => g::<CqlVarint>(rng),
        "decimalborrowed" => g::<CqlDecimal>(rng),
        "munset_i32" => g::<MaybeUnset<i32>>(rng),
        "vec_munset_i32" => g::<Vec<MaybeUnset<i32>>>(rng),
        "bmap_i32_munset_string" => g::<BTreeMap<i32, MaybeUnset<String>>>(rng),
        "slice_i32" => g::<Vec<i32>>(rng),
        "slice_opt_string" => g::<Vec<Option<String>>>(rng),
        "slice_vec_i32" => g::<Vec<Vec<i32>>>(rng),
        "bytesarr4" => (Ty::Native(NativeType::Blob), Val::Blob(rng.bytes(4))),
        "bytesarr16" => (Ty::Native(NativeType::Blob), Val::Blob(rng.bytes(16))),
        "dynser_i32" => g::<i32>(rng),
        "dynser_vec_string" => g::<Vec<String>>(rng),
        _ => g::<(MaybeUnset<String>, Option<i64>)>(rng),
    }
}

/// The lazy iterators as user-facing `DeserializeValue` impls (deserialize/value.rs:962, 1216, 1430, 1793): their
/// own `type_check`, what they yield, and their `size_hint` / `ExactSizeIterator` claim (before every `next()` it
/// must be exactly the number of items still to come).
fn drain<I: Iterator>(mut it: I, ctx: &mut Ctx, what: &str, stop: impl Fn(&I::Item) -> bool) -> Vec<I::Item> {
    let (lo, hi) = it.size_hint();
    if hi != Some(lo) {
        ctx.fail(format!("{}: size_hint {:?} is not exact", what, (lo, hi)));
    }
    let mut out = Vec::new();
    let mut left = lo;
    loop {
        let (l, h) = it.size_hint();
        if l != left || h != Some(left) {
            ctx.fail(format!("{}: size_hint ({}, {:?}) with {} item(s) still to come", what, l, h, left));
        }
        match it.next() {
            Some(x) => {
                if left == 0 {
                    ctx.fail(format!("{}: yielded more items than size_hint announced ({})", what, lo));
                    break;
                }
                left -= 1;
                // like `collect::<Result<_, _>>()`: the first error ends the walk (a corrupt count may announce 2^31 items)
                let done = stop(&x);
                out.push(x);
                if done {
                    break;
                }
            }
            None => {
                if left != 0 {
                    ctx.fail(format!("{}: ended with {} announced item(s) missing", what, left));
                }
                break;
            }
        }
    }
    out
}

fn run_tdeciter_elem<E>(ty: &Ty, body: Option<Vec<u8>>, ctx: &mut Ctx) -> String
where
    E: Carrier + ToVal + for<'f, 'm> DeserializeValue<'f, 'm>,
{
    use scylla_cql_core::deserialize::value::{ListlikeIterator, MapIterator, UdtIterator, VectorIterator};
    let ct = to_column_type(ty);
    let bytes = body.as_deref().map(Bytes::copy_from_slice);
    let slice = bytes.as_ref().map(FrameSlice::new);
    fn items<T: ToVal>(rs: Vec<Result<T, DeserializationError>>) -> Result<Vec<Val>, String> {
        let mut out = Vec::new();
        for r in rs {
            match r {
                Ok(x) => out.push(x.to_val()),
                Err(e) => return Err(format!("err {}", de_kind(&e))),
            }
        }
        Ok(out)
    }
    match ty {
        Ty::List(_) | Ty::Set(_) => {
            if ListlikeIterator::<E>::type_check(&ct).is_err() {
                return "no-typecheck".to_owned();
            }
            match ListlikeIterator::<E>::deserialize(&ct, slice) {
                Err(e) => format!("err {}", de_kind(&e)),
                Ok(it) => match items(drain(it, ctx, "ListlikeIterator", |r| r.is_err())) {
                    Ok(vs) => val_str(&Val::List(vs)),
                    Err(e) => e,
                },
            }
        }
        Ty::Vector(..) => {
            if VectorIterator::<E>::type_check(&ct).is_err() {
                return "no-typecheck".to_owned();
            }
            match VectorIterator::<E>::deserialize(&ct, slice) {
                Err(e) => format!("err {}", de_kind(&e)),
                Ok(it) => match items(drain(it, ctx, "VectorIterator", |r| r.is_err())) {
                    Ok(vs) => val_str(&Val::List(vs)),
                    Err(e) => e,
                },
            }
        }
        Ty::Map(..) => {
            if MapIterator::<E, E>::type_check(&ct).is_err() {
                return "no-typecheck".to_owned();
            }
            match MapIterator::<E, E>::deserialize(&ct, slice) {
                Err(e) => format!("err {}", de_kind(&e)),
                Ok(it) => {
                    let mut kvs = Vec::new();
                    for r in drain(it, ctx, "MapIterator", |r| r.is_err()) {
                        match r {
                            Ok((k, v)) => kvs.push((k.to_val(), v.to_val())),
                            Err(e) => return format!("err {}", de_kind(&e)),
                        }
                    }
                    val_str(&Val::Map(kvs))
                }
            }
        }
        Ty::Udt(..) => {
            if UdtIterator::type_check(&ct).is_err() {
                return "no-typecheck".to_owned();
            }
            match UdtIterator::deserialize(&ct, slice) {
                Err(e) => format!("err {}", de_kind(&e)),
                Ok(it) => {
                    let mut out = vec!["udtiter".to_owned()];
                    for (_, r) in drain(it, ctx, "UdtIterator", |r| r.1.is_err()) {
                        match r {
                            Ok(None) => out.push("missing".to_owned()),
                            Ok(Some(None)) => out.push("null".to_owned()),
                            Ok(Some(Some(s))) => out.push(hex(s.as_slice())),
                            Err(e) => return format!("err {}", de_kind(&e)),
                        }
                    }
                    out.join(" ")
                }
            }
        }
        _ => "no-typecheck".to_owned(),
    }
}

pub fn run_tdeciter(elem: &str, ty: &Ty, body: Option<Vec<u8>>, ctx: &mut Ctx) -> String {
    match elem {
        "i32" => run_tdeciter_elem::<i32>(ty, body, ctx),
        "string" => run_tdeciter_elem::<String>(ty, body, ctx),
        "opt_i32" => run_tdeciter_elem::<Option<i32>>(ty, body, ctx),
        _ => "bad-case".to_owned(),
    }
}

pub fn run_tdec(name: &str, ty: &Ty, body: Option<Vec<u8>>, ctx: &mut Ctx) -> String {
    let out = match borrowed_decode(name, &to_column_type(ty), body.as_deref()) {
        Some(r) => show_typed(&r),
        None => run_tdec_registered(name, ty, body.clone(), ctx).unwrap_or("bad-case".to_owned()),
    };
    // model-independent: no string carrier may hand out non-ASCII text read from an `ascii` column
    if *ty == Ty::Native(NativeType::Ascii) && body.as_ref().is_some_and(|b| !b.is_ascii()) && out.starts_with("text ") {
        ctx.fail(format!("ascii: carrier {} accepted non-ASCII bytes from an ascii column", name));
    }
    out
}

pub fn run_carrier(name: &str, ty: &Ty, val: &Val, ctx: &mut Ctx) -> String {
    let out = run_registered(name, ty, val, ctx).or_else(|| run_ser_only(name, ty, val, ctx)).unwrap_or("bad-case".to_owned());
    if !BORROWED.contains(&name) {
        return out;
    }
    // two-way borrowed carriers: their own typed decode of the bytes just written
    let Some(cell) = unhex(&out).filter(|_| !out.starts_with("err") && out != "bad-case") else { return out };
    let body = split_cell(&cell, ctx);
    let dec = borrowed_decode(name, &to_column_type(ty), body.as_deref()).unwrap();
    if classify(ty, val, true) == Dom::In {
        match &dec {
            None => {}
            Some(Ok(v)) if content_of(v) == content_of(val) => {}
            other => ctx.fail(format!("roundtrip: the borrowed carrier decodes its own encoding to {}", show_typed(other))),
        }
    }
    format!("{} => {}", out, show_typed(&dec))
}

fn kind_of(name: &str) -> &'static str {
    if HASHED.contains(&name) {
        "carrierset"
    } else if SER_ONLY.contains(&name) {
        "carrierser"
    } else {
        "carrier"
    }
}

pub fn generate(rng: &mut Rng, tier: Tier, emit: &mut dyn FnMut(String)) {
    let per = if tier == Tier::Quick { 250 } else { 3000 };
    let names: Vec<&str> = FULL.iter().chain(HASHED).chain(SER_ONLY).chain(BORROWED).copied().collect();
    for name in &names {
        let mut done = 0;
        let mut tries = 0;
        while done < per && tries < per * 20 {
            tries += 1;
            let (t, v) = gen_registered(name, rng).unwrap_or_else(|| gen_ser_only(name, rng));
            // shapes of known findings are replayed from the corpus only; `unset` is outside the round trip
            // but its bytes are still compared with the model
            if matches!(classify(&t, &v, true), Dom::Known(_)) {
                continue;
            }
            done += 1;
            emit(format!("{} {} {} {}", kind_of(name), name, ty_str(&t), val_str(&v)));
        }
    }
    // a carrier value bound to a type it was not made for (rejections must agree with the model's
    // transcription of the typed impl, `TypedCarrier.serCarrier`)
    for _ in 0..per * 10 {
        let name = *rng.pick(&names);
        let (_, v) = gen_registered(name, rng).unwrap_or_else(|| gen_ser_only(name, rng));
        let t = gen_ty(rng, 2);
        if matches!(classify(&t, &v, true), Dom::Known(_)) {
            continue;
        }
        emit(format!("{} {} {} {}", kind_of(name), name, ty_str(&t), val_str(&v)));
    }
    // malformed / mutated cell bodies through the typed decoders (model-independent: no panic, idempotence)
    for _ in 0..per * 12 {
        let all: Vec<&str> = FULL.iter().chain(HASHED).copied().collect();
        let setmap: Vec<&str> = all.iter().copied().filter(|n| n.contains("set_") || n.contains("map_")).collect();
        let name = match rng.below(6) {
            0 | 1 => *rng.pick(&setmap),
            2 => *rng.pick(&["strref", "cowstr", "bytesref", "cowbytes", "varintborrowed", "decimalborrowed", "boxstr", "arcstr"]),
            _ => *rng.pick(&all),
        };
        if EXTERNAL.iter().any(|e| name.contains(e)) {
            continue;
        }
        let (t, v) = gen_registered(name, rng).unwrap_or_else(|| gen_ser_only(name, rng));
        // set / map bodies also in non-canonical form: unsorted, with duplicate elements / keys
        let v = match v {
            Val::Set(mut vs) if rng.bool() && !vs.is_empty() => {
                let d = vs[rng.below(vs.len() as u64) as usize].clone();
                // an `Ord`-equal key that is not identical, where the key type has one (timeuuid)
                let d = if rng.bool() { flip_version(&d, rng) } else { d };
                vs.push(d);
                if rng.bool() {
                    let d2 = vs[0].clone();
                    vs.insert(0, d2);
                }
                rng.shuffle(&mut vs);
                Val::Set(vs)
            }
            Val::Map(mut kvs) if rng.bool() && !kvs.is_empty() => {
                let (k, _) = kvs[rng.below(kvs.len() as u64) as usize].clone();
                let (_, v2) = kvs[rng.below(kvs.len() as u64) as usize].clone();
                let k = if rng.bool() { flip_version(&k, rng) } else { k };
                kvs.push((k, v2));
                rng.shuffle(&mut kvs);
                Val::Map(kvs)
            }
            v => v,
        };
        let mut b = spec_body(&t, &v).unwrap_or_default();
        match rng.below(6) {
            0 => {}
            1 => {
                let cut = rng.below(b.len() as u64 + 1) as usize;
                b.truncate(cut)
            }
            2 => {
                let l = rng.range(1, 5) as usize;
                b.extend(rng.bytes(l))
            }
            3 | 4 => {
                if !b.is_empty() {
                    let i = rng.below(b.len() as u64) as usize;
                    b[i] = *rng.pick(&[0x00u8, 0xff, 0x80, 0x7f, 0x01, 0xfe]);
                }
            }
            _ => {
                let l = rng.below(20) as usize;
                b = rng.bytes(l)
            }
        }
        let t = if rng.chance(1, 8) { gen_ty(rng, 2) } else { t };
        emit(format!("tdec {} {} {}", name, ty_str(&t), if rng.chance(1, 30) { "null".to_owned() } else { hex(&b) }));
    }
    // the lazy iterators used directly
    for _ in 0..per * 6 {
        let elem = *rng.pick(&["i32", "string", "opt_i32"]);
        let et = if elem == "string" { Ty::Native(NativeType::Text) } else { Ty::Native(NativeType::Int) };
        let t = match rng.below(8) {
            0 | 1 => Ty::List(Box::new(et.clone())),
            2 => Ty::Set(Box::new(et.clone())),
            3 | 4 => Ty::Vector(Box::new(et.clone()), rng.range(0, 4) as u16),
            5 | 6 => Ty::Map(Box::new(et.clone()), Box::new(et.clone())),
            _ => Ty::Udt("ks".into(), "t".into(), (0..rng.range(0, 3)).map(|i| (format!("f{}", i), if rng.bool() { et.clone() } else { gen_ty(rng, 1) })).collect()),
        };
        let t = if rng.chance(1, 10) { gen_ty(rng, 2) } else { t };
        let v = super::gen_cases::gen_val(rng, &t, Pos::Elem, 2);
        let v = match (elem, v) {
            // `Option` elements: some nulls
            ("opt_i32", Val::List(mut vs)) if !vs.is_empty() && rng.bool() => {
                vs[0] = Val::Null;
                Val::List(vs)
            }
            (_, v) => v,
        };
        let mut b = spec_body(&t, &v).unwrap_or_default();
        match rng.below(6) {
            0 | 1 => {}
            2 => {
                let cut = rng.below(b.len() as u64 + 1) as usize;
                b.truncate(cut)
            }
            3 => {
                let l = rng.range(1, 5) as usize;
                b.extend(rng.bytes(l))
            }
            4 => {
                if !b.is_empty() {
                    let i = rng.below(b.len() as u64) as usize;
                    b[i] = *rng.pick(&[0x00u8, 0xff, 0x80, 0x7f, 0x01, 0xfe]);
                }
            }
            _ => {
                if b.len() >= 4 {
                    // a larger element count than the body holds
                    b[3] = b[3].wrapping_add(rng.range(1, 3) as u8);
                }
            }
        }
        emit(format!("tdeciter {} {} {}", elem, ty_str(&t), if rng.chance(1, 25) { "null".to_owned() } else { hex(&b) }));
    }
    // the two places where a typed impl answers differently from the dynamic serializer of its embedding:
    // `MaybeEmpty` checks emptiability before the inner value; the set carriers reject vector types
    for _ in 0..per * 2 {
        let name = *rng.pick(&["mempty_i32", "mempty_uuid", "opt_mempty_i64", "vec_mempty_i32", "vec_mempty_varint", "mempty_chronotime"]);
        let (t0, v) = gen_registered(name, rng).unwrap();
        let bad = match rng.below(4) {
            0 => Ty::Native(NativeType::Counter),
            1 => Ty::Native(NativeType::Duration),
            2 => Ty::List(Box::new(Ty::Native(NativeType::Int))),
            _ => Ty::Map(Box::new(Ty::Native(NativeType::Int)), Box::new(Ty::Native(NativeType::Int))),
        };
        let t = match (&t0, name.starts_with("vec_")) {
            (Ty::List(_), true) => Ty::List(Box::new(bad)),
            (Ty::Set(_), true) => Ty::Set(Box::new(bad)),
            (Ty::Vector(_, d), true) => Ty::Vector(Box::new(bad), *d),
            _ => bad,
        };
        emit(format!("carrier {} {} {}", name, ty_str(&t), val_str(&v)));
    }
    for _ in 0..per * 2 {
        let name = *rng.pick(&["bset_i32", "bset_string", "hset_i32", "hset_string"]);
        let (t0, v) = gen_registered(name, rng).unwrap();
        let (Ty::List(e) | Ty::Set(e)) = t0 else { continue };
        let n = match &v {
            Val::List(vs) | Val::Set(vs) => vs.len(),
            _ => 0,
        };
        let dim = if rng.chance(3, 4) { n as u16 } else { rng.range(0, 4) as u16 };
        emit(format!("{} {} {} {}", kind_of(name), name, ty_str(&Ty::Vector(e, dim)), val_str(&v)));
    }
}

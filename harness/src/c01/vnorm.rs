//! `vnorm` cases: the normalised `PartialEq` / `Hash` of the varint carriers (`value.rs:418-525`, private
//! `as_normalized_slice`, reached through the public `==` / `Hash` of `CqlVarint`, `CqlVarintBorrowed`,
//! `CqlDecimal`, `CqlDecimalBorrowed`, `CqlValue::Varint|Decimal`) and what `collect()` into
//! `HashSet<CqlVarint>` / `HashMap<CqlVarint, i32>` does with it (the real typed `DeserializeValue` impls).
//!
//!   `vnorm eq <hexA> <hexB> <scaleA> <scaleB>`  → `eq=<0|1> heq=<0|1> deq=<0|1>`
//!   `vnorm set n <hex>…`                        → `set m <hex,…sorted>`   (elements bound as set<varint>, read back as HashSet)
//!   `vnorm map n <hex> <i32>…`                  → `map m <hex=v,…sorted>` (map<varint,int> read back as HashMap)
//!
//! Oracle (model-independent, by `num-bigint`'s own `from_signed_bytes_be`): `a == b` only if they are the same
//! integer; the same integer implies `==` unless one side carries a redundant leading 0xff (which the driver does
//! not normalise); `==` implies equal hashes; owned / borrowed / decimal / `CqlValue` agree; a decoded hash set /
//! map loses no integer, merges nothing but equal integers, a merged map key has the last value, and re-binding
//! the decoded collection and decoding again gives an equal collection.
use super::*;
use crate::rng::Rng;
use num_bigint_04::BigInt;
use scylla_cql_core::value::{CqlDecimalBorrowed, CqlVarintBorrowed};
use std::collections::{HashMap, HashSet};
use std::hash::{Hash, Hasher};

fn h64<T: Hash>(x: &T) -> u64 {
    // SipHash with the fixed zero key: deterministic across runs
    #[allow(deprecated)]
    let mut h = std::hash::SipHasher::new();
    x.hash(&mut h);
    h.finish()
}

fn no_ff_pad(b: &[u8]) -> bool {
    !(b.len() >= 2 && b[0] == 0xff && b[1] >= 0x80)
}

fn big(b: &[u8]) -> BigInt {
    BigInt::from_signed_bytes_be(b)
}

fn hx(b: &[u8]) -> String {
    hex(b)
}

fn run_eq(a: &[u8], b: &[u8], sa: i32, sb: i32, ctx: &mut Ctx) -> String {
    let (va, vb) = (CqlVarint::from_signed_bytes_be_slice(a), CqlVarint::from_signed_bytes_be_slice(b));
    let (ba, bb) = (CqlVarintBorrowed::from_signed_bytes_be_slice(a), CqlVarintBorrowed::from_signed_bytes_be_slice(b));
    let eq = va == vb;
    let heq = h64(&va) == h64(&vb);
    let (da, db) = (
        CqlDecimal::from_signed_be_bytes_slice_and_exponent(a, sa),
        CqlDecimal::from_signed_be_bytes_slice_and_exponent(b, sb),
    );
    let deq = da == db;
    // the other routes to the same normalisation must agree
    if (ba == bb) != eq || (vb == va) != eq || (bb == ba) != eq {
        ctx.fail(format!("varint-eq: owned / borrowed / swapped comparisons of {} and {} disagree", hx(a), hx(b)));
    }
    if (h64(&ba) == h64(&bb)) != heq || h64(&va) != h64(&ba) {
        ctx.fail(format!("varint-hash: owned / borrowed hashes of {} and {} disagree", hx(a), hx(b)));
    }
    if (CqlValue::Varint(va.clone()) == CqlValue::Varint(vb.clone())) != eq {
        ctx.fail("varint-eq: CqlValue::Varint compares differently from CqlVarint".to_owned());
    }
    let bdeq = CqlDecimalBorrowed::from_signed_be_bytes_slice_and_exponent(a, sa)
        == CqlDecimalBorrowed::from_signed_be_bytes_slice_and_exponent(b, sb);
    if bdeq != deq || (CqlValue::Decimal(da.clone()) == CqlValue::Decimal(db.clone())) != deq || deq != (eq && sa == sb) {
        ctx.fail(format!("decimal-eq: ({},{}) vs ({},{}) compare inconsistently", hx(a), sa, hx(b), sb));
    }
    #[allow(clippy::eq_op)]
    if va != va || vb != vb {
        ctx.fail("varint-eq: not reflexive".to_owned());
    }
    // against the integers themselves
    let same = big(a) == big(b);
    if eq && !same {
        ctx.fail(format!("varint-eq: {} == {} although they are the integers {} and {}", hx(a), hx(b), big(a), big(b)));
    }
    if same && no_ff_pad(a) && no_ff_pad(b) && !eq {
        ctx.fail(format!("varint-eq: {} != {} although both are the integer {}", hx(a), hx(b), big(a)));
    }
    if eq && !heq {
        ctx.fail(format!("varint-hash: {} == {} but their hashes differ", hx(a), hx(b)));
    }
    format!("eq={} heq={} deq={}", eq as u8, heq as u8, deq as u8)
}

fn ser<T: SerializeValue>(v: &T, ct: &ColumnType<'static>) -> Option<Vec<u8>> {
    let mut buf = Vec::new();
    v.serialize(ct, CellWriter::new(&mut buf)).ok()?;
    Some(buf)
}

fn de<T: for<'a> DeserializeValue<'a, 'a>>(ct: &ColumnType<'static>, cell: &[u8]) -> Result<T, String> {
    // `cell` = [bytes]: 4-byte length + body
    let body = Bytes::copy_from_slice(&cell[4..]);
    <T as DeserializeValue>::type_check(ct).map_err(|_| "TypeCheck".to_owned())?;
    <T as DeserializeValue>::deserialize(ct, Some(FrameSlice::new(&body))).map_err(|e| de_kind(&e))
}

fn run_set(elems: &[Vec<u8>], ctx: &mut Ctx) -> String {
    let ct = ColumnType::Collection {
        frozen: false,
        typ: CollectionType::Set(Box::new(ColumnType::Native(NativeType::Varint))),
    };
    let input: Vec<CqlVarint> = elems.iter().map(|b| CqlVarint::from_signed_bytes_be_slice(b)).collect();
    let Some(cell) = ser(&input, &ct) else { return "err Serialize".to_owned() };
    let set: HashSet<CqlVarint> = match de(&ct, &cell) {
        Ok(s) => s,
        Err(k) => return format!("err {}", k),
    };
    let in_ints: HashSet<BigInt> = elems.iter().map(|b| big(b)).collect();
    let out_ints: HashSet<BigInt> = set.iter().map(|v| big(v.as_signed_bytes_be_slice())).collect();
    if in_ints != out_ints {
        ctx.fail(format!(
            "varint-set: set<varint> of {} distinct integers decodes into a HashSet<CqlVarint> holding {} distinct integers",
            in_ints.len(),
            out_ints.len()
        ));
    }
    if elems.iter().all(|b| no_ff_pad(b)) && set.len() != in_ints.len() {
        ctx.fail(format!("varint-set: {} distinct integers decode into {} set elements", in_ints.len(), set.len()));
    }
    // the borrowed carrier must collapse the same way
    {
        let body = Bytes::copy_from_slice(&cell[4..]);
        match <HashSet<CqlVarintBorrowed> as DeserializeValue>::deserialize(&ct, Some(FrameSlice::new(&body))) {
            Ok(s) if s.len() == set.len() => {}
            _ => ctx.fail("varint-set: HashSet<CqlVarintBorrowed> differs from HashSet<CqlVarint>".to_owned()),
        }
    }
    // decode(encode v) == v for the decoded collection itself
    match ser(&set, &ct).map(|c| de::<HashSet<CqlVarint>>(&ct, &c)) {
        Some(Ok(s2)) if s2 == set && s2.len() == set.len() => {}
        _ => ctx.fail("varint-set: re-binding the decoded HashSet<CqlVarint> and decoding again gives a different set".to_owned()),
    }
    let mut out: Vec<String> = set.iter().map(|v| hx(v.as_signed_bytes_be_slice())).collect();
    out.sort();
    format!("set {} {}", out.len(), if out.is_empty() { "-".to_owned() } else { out.join(",") })
}

fn run_map(entries: &[(Vec<u8>, i32)], ctx: &mut Ctx) -> String {
    let ct = ColumnType::Collection {
        frozen: false,
        typ: CollectionType::Map(Box::new(ColumnType::Native(NativeType::Varint)), Box::new(ColumnType::Native(NativeType::Int))),
    };
    // a Vec of pairs has no map serializer: write the map body by hand (count, then [bytes] key / [bytes] value)
    let mut cell = Vec::new();
    let mut body = (entries.len() as i32).to_be_bytes().to_vec();
    for (k, v) in entries {
        body.extend_from_slice(&(k.len() as i32).to_be_bytes());
        body.extend_from_slice(k);
        body.extend_from_slice(&4i32.to_be_bytes());
        body.extend_from_slice(&v.to_be_bytes());
    }
    cell.extend_from_slice(&(body.len() as i32).to_be_bytes());
    cell.extend_from_slice(&body);
    let map: HashMap<CqlVarint, i32> = match de(&ct, &cell) {
        Ok(m) => m,
        Err(k) => return format!("err {}", k),
    };
    // expected by integers: last value of each integer
    let mut want: HashMap<BigInt, i32> = HashMap::new();
    for (k, v) in entries {
        want.insert(big(k), *v);
    }
    let got_ints: HashSet<BigInt> = map.keys().map(|k| big(k.as_signed_bytes_be_slice())).collect();
    if got_ints != want.keys().cloned().collect::<HashSet<_>>() {
        ctx.fail(format!(
            "varint-map: map<varint,int> with {} distinct integer keys decodes into a HashMap<CqlVarint,i32> with {} distinct integer keys",
            want.len(),
            got_ints.len()
        ));
    }
    if entries.iter().all(|(k, _)| no_ff_pad(k)) {
        if map.len() != want.len() {
            ctx.fail(format!("varint-map: {} distinct integer keys decode into {} entries", want.len(), map.len()));
        }
        for (k, v) in &map {
            if want.get(&big(k.as_signed_bytes_be_slice())) != Some(v) {
                ctx.fail(format!("varint-map: key {} has value {}, not the last one written for that integer", hx(k.as_signed_bytes_be_slice()), v));
            }
        }
    }
    match ser(&map, &ct).map(|c| de::<HashMap<CqlVarint, i32>>(&ct, &c)) {
        Some(Ok(m2)) if m2 == map && m2.len() == map.len() => {}
        _ => ctx.fail("varint-map: re-binding the decoded HashMap<CqlVarint,i32> and decoding again gives a different map".to_owned()),
    }
    let mut out: Vec<String> = map.iter().map(|(k, v)| format!("{}={}", hx(k.as_signed_bytes_be_slice()), v)).collect();
    out.sort();
    format!("map {} {}", out.len(), if out.is_empty() { "-".to_owned() } else { out.join(",") })
}

pub fn run_vnorm(w: &[&str], ctx: &mut Ctx) -> String {
    let bad = || "bad-case".to_owned();
    match w.first().copied() {
        Some("eq") if w.len() == 5 => {
            let (Some(a), Some(b), Ok(sa), Ok(sb)) = (unhex(w[1]), unhex(w[2]), w[3].parse::<i32>(), w[4].parse::<i32>()) else {
                return bad();
            };
            run_eq(&a, &b, sa, sb, ctx)
        }
        Some("set") => {
            let Some(n) = w.get(1).and_then(|s| s.parse::<usize>().ok()) else { return bad() };
            if w.len() != 2 + n {
                return bad();
            }
            let Some(elems) = w[2..].iter().map(|h| unhex(h)).collect::<Option<Vec<_>>>() else { return bad() };
            run_set(&elems, ctx)
        }
        Some("map") => {
            let Some(n) = w.get(1).and_then(|s| s.parse::<usize>().ok()) else { return bad() };
            if w.len() != 2 + 2 * n {
                return bad();
            }
            let mut entries = Vec::new();
            for i in 0..n {
                let (Some(k), Ok(v)) = (unhex(w[2 + 2 * i]), w[3 + 2 * i].parse::<i32>()) else { return bad() };
                entries.push((k, v));
            }
            run_map(&entries, ctx)
        }
        _ => bad(),
    }
}

/// A varint byte string, boundary-heavy: sign-alias magnitudes (top byte >= 0x80), zero / 0xff padding, all-zero, empty.
fn gen_bytes(rng: &mut Rng) -> Vec<u8> {
    let l = match rng.below(3) {
        0 => 1,
        1 => rng.range(1, 4) as usize,
        _ => rng.range(1, 10) as usize,
    };
    let mut m = rng.bytes(l);
    match rng.below(6) {
        0 => m[0] |= 0x80,
        1 => m[0] &= 0x7f,
        2 => m[0] = *rng.pick(&[0x00u8, 0x7f, 0x80, 0xff, 0x01, 0xfe]),
        _ => {}
    }
    match rng.below(8) {
        0 => m = vec![0u8; rng.range(0, 4) as usize],
        1 => {
            let k = rng.range(1, 4) as usize;
            m.splice(0..0, std::iter::repeat(0u8).take(k));
        }
        2 => {
            let k = rng.range(1, 3) as usize;
            m.splice(0..0, std::iter::repeat(0xffu8).take(k));
        }
        _ => {}
    }
    m
}

/// A byte string related to `a`: the same integer in another padding, its sign alias (n vs n - 256^k: the leading
/// sign byte dropped / added), a neighbour, or unrelated.
fn related(rng: &mut Rng, a: &[u8]) -> Vec<u8> {
    let mut b = a.to_vec();
    match rng.below(8) {
        0 => {}
        1 => {
            // sign-extend (same integer)
            let pad = if a.first().is_some_and(|x| *x >= 0x80) { 0xff } else { 0x00 };
            let k = rng.range(1, 4) as usize;
            b.splice(0..0, std::iter::repeat(pad).take(k));
        }
        2 => {
            // prepend zeros whatever the sign (a different integer when the top bit is set)
            let k = rng.range(1, 4) as usize;
            b.splice(0..0, std::iter::repeat(0u8).take(k));
        }
        3 => {
            // drop every leading zero byte (the sign alias when the next byte has its top bit set)
            while b.first() == Some(&0) {
                b.remove(0);
            }
        }
        4 => {
            // drop one leading byte
            if !b.is_empty() {
                b.remove(0);
            }
        }
        5 => {
            if let Some(x) = b.last_mut() {
                *x = x.wrapping_add(1);
            }
        }
        6 => {
            // the canonical positive form of the magnitude bytes: 00 ++ m with m's top bit forced
            while b.first() == Some(&0) {
                b.remove(0);
            }
            if let Some(x) = b.first_mut() {
                *x |= 0x80;
            }
            let m = b.clone();
            b.insert(0, 0);
            if rng.chance(1, 2) {
                return m;
            }
        }
        _ => b = gen_bytes(rng),
    }
    b
}

fn h(b: &[u8]) -> String {
    hex(b)
}

pub fn generate_vnorm(rng: &mut Rng, n: u64, emit: &mut dyn FnMut(String)) {
    // exhaustive small universe: every pair of byte strings over {00, 7f, 80, ff} up to length 2 (21 x 21)
    let alpha = [0x00u8, 0x7f, 0x80, 0xff];
    let mut small: Vec<Vec<u8>> = vec![vec![]];
    for x in alpha {
        small.push(vec![x]);
        for y in alpha {
            small.push(vec![x, y]);
        }
    }
    for a in &small {
        for b in &small {
            emit(format!("vnorm eq {} {} 0 0", h(a), h(b)));
        }
    }
    for i in 0..n {
        let a = gen_bytes(rng);
        let b = related(rng, &a);
        let sa = *rng.pick(&[0i32, 1, -1, 7, i32::MAX, i32::MIN]);
        let sb = if rng.chance(3, 4) { sa } else { *rng.pick(&[0i32, 1, -1, 7, i32::MAX, i32::MIN]) };
        emit(format!("vnorm eq {} {} {} {}", h(&a), h(&b), sa, sb));
        if i % 2 == 0 {
            // a collection holding related keys together
            let cnt = rng.range(0, 6) as usize;
            let mut ks: Vec<Vec<u8>> = Vec::new();
            for _ in 0..cnt {
                let k = if ks.is_empty() || rng.chance(1, 3) {
                    gen_bytes(rng)
                } else {
                    let base = rng.pick(&ks).clone();
                    related(rng, &base)
                };
                ks.push(k);
            }
            if i % 4 == 0 {
                emit(format!("vnorm set {}{}", cnt, ks.iter().map(|k| format!(" {}", h(k))).collect::<String>()));
            } else {
                let mut s = format!("vnorm map {}", cnt);
                for k in &ks {
                    s.push_str(&format!(" {} {}", h(k), rng.range(0, 100) as i32 - 50));
                }
                emit(s);
            }
        }
    }
}

//! The embedding of a Rust carrier value back into the value notation (for printing what a typed
//! `DeserializeValue` impl returned): `Vec` ↦ `list`, set types ↦ `set`, `String` ↦ `text`, `None` ↦ `null`,
//! `MaybeEmpty::Empty` ↦ `empty` — the conventions of `TypedCarrier.embed` in the Lean model.
use super::*;
use scylla_cql_core::value::MaybeEmpty;
use std::collections::{BTreeMap, BTreeSet, HashMap, HashSet};

pub trait ToVal {
    fn to_val(&self) -> Val;
}

macro_rules! toval {
    ($t:ty, |$x:ident| $e:expr) => {
        impl ToVal for $t {
            fn to_val(&self) -> Val {
                let $x = self;
                $e
            }
        }
    };
}

toval!(i8, |x| Val::TinyInt(*x));
toval!(i16, |x| Val::SmallInt(*x));
toval!(i32, |x| Val::Int(*x));
toval!(i64, |x| Val::BigInt(*x));
toval!(f32, |x| Val::Float(x.to_bits()));
toval!(f64, |x| Val::Double(x.to_bits()));
toval!(bool, |x| Val::Boolean(*x));
toval!(String, |x| Val::Text(x.as_bytes().to_vec()));
toval!(Vec<u8>, |x| Val::Blob(x.clone()));
toval!(Bytes, |x| Val::Blob(x.to_vec()));
toval!(IpAddr, |x| Val::Inet(match x {
    IpAddr::V4(a) => a.octets().to_vec(),
    IpAddr::V6(a) => a.octets().to_vec(),
}));
toval!(uuid::Uuid, |x| Val::Uuid(*x.as_bytes()));
toval!(CqlTimeuuid, |x| Val::Timeuuid(*x.as_bytes()));
toval!(CqlDate, |x| Val::Date(x.0));
toval!(CqlTime, |x| Val::Time(x.0));
toval!(CqlTimestamp, |x| Val::Timestamp(x.0));
toval!(CqlDuration, |x| Val::Duration(x.months, x.days, x.nanoseconds));
toval!(CqlVarint, |x| Val::Varint(x.as_signed_bytes_be_slice().to_vec()));
toval!(CqlDecimal, |x| {
    let (b, s) = x.as_signed_be_bytes_slice_and_exponent();
    Val::Decimal(s, b.to_vec())
});
toval!(Counter, |x| Val::Counter(x.0));

// external crates: back to the core notation with the external crate's own accessors
toval!(chrono_04::NaiveDate, |x| {
    use chrono_04::Datelike;
    Val::Date(((1i64 << 31) + x.num_days_from_ce() as i64 - 719_163) as u32)
});
toval!(chrono_04::DateTime<chrono_04::Utc>, |x| Val::Timestamp(x.timestamp() * 1000 + x.timestamp_subsec_millis() as i64));
toval!(chrono_04::NaiveTime, |x| {
    use chrono_04::Timelike;
    Val::Time(x.num_seconds_from_midnight() as i64 * 1_000_000_000 + x.nanosecond() as i64)
});
toval!(time_03::Date, |x| Val::Date(((1i64 << 31) + x.to_julian_day() as i64 - 2_440_588) as u32));
toval!(time_03::OffsetDateTime, |x| Val::Timestamp((x.unix_timestamp_nanos().div_euclid(1_000_000)) as i64));
toval!(time_03::Time, |x| {
    let (h, m, s, n) = x.as_hms_nano();
    Val::Time((h as i64 * 3600 + m as i64 * 60 + s as i64) * 1_000_000_000 + n as i64)
});
toval!(num_bigint_03::BigInt, |x| Val::Varint(x.to_signed_bytes_be()));
toval!(num_bigint_04::BigInt, |x| Val::Varint(x.to_signed_bytes_be()));
toval!(bigdecimal_04::BigDecimal, |x| {
    let (v, s) = x.as_bigint_and_exponent();
    Val::Decimal(s as i32, v.to_signed_bytes_be())
});
toval!(secrecy_08::Secret<String>, |x| {
    use secrecy_08::ExposeSecret;
    Val::Text(x.expose_secret().as_bytes().to_vec())
});
toval!(secrecy_10::SecretString, |x| {
    use secrecy_10::ExposeSecret;
    Val::Text(x.expose_secret().as_bytes().to_vec())
});
toval!(secrecy_10::SecretBox<i64>, |x| {
    use secrecy_10::ExposeSecret;
    Val::BigInt(*x.expose_secret())
});

impl<T: ToVal> ToVal for Option<T> {
    fn to_val(&self) -> Val {
        self.as_ref().map(|x| x.to_val()).unwrap_or(Val::Null)
    }
}
impl<T: ToVal + scylla_cql_core::value::Emptiable> ToVal for MaybeEmpty<T> {
    fn to_val(&self) -> Val {
        match self {
            MaybeEmpty::Empty => Val::Empty,
            MaybeEmpty::Value(x) => x.to_val(),
        }
    }
}
impl<T: ToVal> ToVal for Box<T> {
    fn to_val(&self) -> Val {
        (**self).to_val()
    }
}
impl<T: ToVal> ToVal for Arc<T> {
    fn to_val(&self) -> Val {
        (**self).to_val()
    }
}
impl<T: ToVal> ToVal for Vec<T> {
    fn to_val(&self) -> Val {
        Val::List(self.iter().map(|x| x.to_val()).collect())
    }
}
impl<T: ToVal> ToVal for BTreeSet<T> {
    fn to_val(&self) -> Val {
        Val::Set(self.iter().map(|x| x.to_val()).collect())
    }
}
impl<T: ToVal, S> ToVal for HashSet<T, S> {
    fn to_val(&self) -> Val {
        Val::Set(self.iter().map(|x| x.to_val()).collect())
    }
}
impl<K: ToVal, V: ToVal> ToVal for BTreeMap<K, V> {
    fn to_val(&self) -> Val {
        Val::Map(self.iter().map(|(k, v)| (k.to_val(), v.to_val())).collect())
    }
}
impl<K: ToVal, V: ToVal, S> ToVal for HashMap<K, V, S> {
    fn to_val(&self) -> Val {
        Val::Map(self.iter().map(|(k, v)| (k.to_val(), v.to_val())).collect())
    }
}
impl<A: ToVal> ToVal for (A,) {
    fn to_val(&self) -> Val {
        Val::Tuple(vec![self.0.to_val()])
    }
}
impl<A: ToVal, B: ToVal> ToVal for (A, B) {
    fn to_val(&self) -> Val {
        Val::Tuple(vec![self.0.to_val(), self.1.to_val()])
    }
}
impl<A: ToVal, B: ToVal, C: ToVal> ToVal for (A, B, C) {
    fn to_val(&self) -> Val {
        Val::Tuple(vec![self.0.to_val(), self.1.to_val(), self.2.to_val()])
    }
}

toval!(Box<str>, |x| Val::Text(x.as_bytes().to_vec()));
toval!(Arc<str>, |x| Val::Text(x.as_bytes().to_vec()));
toval!(secrecy_10::SecretSlice<i64>, |x| {
    use secrecy_10::ExposeSecret;
    Val::List(x.expose_secret().iter().map(|v| Val::BigInt(*v)).collect())
});
macro_rules! toval_tuple {
    ($($T:ident $i:tt),+) => {
        impl<$($T: ToVal),+> ToVal for ($($T,)+) {
            fn to_val(&self) -> Val {
                Val::Tuple(vec![$(self.$i.to_val()),+])
            }
        }
    };
}
toval_tuple!(A 0, B 1, C 2, D 3);
toval_tuple!(A 0, B 1, C 2, D 3, E 4, F 5, G 6, H 7, I 8, J 9, K 10, L 11, M 12, N 13, O 14, P 15);

//! External-crate carriers (differential only): chrono 0.4, time 0.3, num-bigint 0.3 / 0.4, bigdecimal 0.4,
//! secrecy 0.8 / 0.10.  The case line carries the embedding (a `date` / `time` / `timestamp` / `varint` /
//! `decimal` / `text` value); the Rust value is rebuilt from it with the external crate's own API
//! (independently of the driver's `From` / `TryFrom` conversions, which are part of what is checked).
use super::carrier::Carrier;
use super::gen_cases::{utf8, Pos};
use super::*;
use crate::rng::Rng;

fn nat(n: NativeType) -> Ty {
    Ty::Native(n)
}

/// Minimal two's-complement big-endian form (what `BigInt::to_signed_bytes_be` produces).
pub fn normalize_varint(mut b: Vec<u8>) -> Vec<u8> {
    if b.is_empty() {
        return vec![0];
    }
    while b.len() > 1 && ((b[0] == 0x00 && b[1] & 0x80 == 0) || (b[0] == 0xff && b[1] & 0x80 != 0)) {
        b.remove(0);
    }
    b
}

fn gen_varint_bytes(rng: &mut Rng) -> Vec<u8> {
    let l = match rng.below(4) {
        0 => 1,
        1 => rng.range(1, 9) as usize,
        _ => rng.range(1, 20) as usize,
    };
    let mut b = rng.bytes(l);
    if rng.chance(1, 6) {
        b = rng.pick(&[vec![0u8], vec![0xff], vec![0x7f], vec![0x80], vec![0x00, 0x80], vec![0xff, 0x7f]]).clone();
    }
    normalize_varint(b)
}

macro_rules! ext_carrier {
    ($t:ty, $n:ident, |$rng:ident| $gen:expr, $pat:pat => $mk:expr, |$a:ident, $b:ident| $same:expr) => {
        impl Carrier for $t {
            fn ty(_: &mut Rng) -> Ty {
                nat(NativeType::$n)
            }
            fn gen_val($rng: &mut Rng, _: &Ty, _: Pos) -> Val {
                $gen
            }
            fn from_val(v: &Val) -> Option<Self> {
                match v {
                    $pat => $mk,
                    _ => None,
                }
            }
            fn same(&self, o: &Self) -> bool {
                let ($a, $b) = (self, o);
                $same
            }
        }
    };
}

fn days_val(rng: &mut Rng, max: i64) -> Val {
    let d = match rng.below(4) {
        0 => *rng.pick(&[0i64, 1, -1, 365, -365, 11016, -719162]),
        1 => *rng.pick(&[max, -max, max - 1, 1 - max]),
        _ => rng.range(-max, max),
    };
    Val::Date(((1i64 << 31) + d) as u32)
}

fn millis_val(rng: &mut Rng, max: i64) -> Val {
    Val::Timestamp(match rng.below(4) {
        0 => *rng.pick(&[0i64, 1, -1, 999, -999, 1000, -1000, 1_700_000_000_123]),
        1 => *rng.pick(&[max, -max]),
        _ => rng.range(-max, max),
    })
}

fn nanos_val(rng: &mut Rng) -> Val {
    Val::Time(match rng.below(3) {
        0 => *rng.pick(&[0i64, 1, 999_999_999, 1_000_000_000, 86_399_999_999_999, 43_200_000_000_000]),
        _ => rng.range(0, 86_399_999_999_999),
    })
}

// chrono: proleptic Gregorian day 719163 = 1970-01-01
ext_carrier!(chrono_04::NaiveDate, Date, |rng| days_val(rng, 90_000_000),
    Val::Date(x) => chrono_04::NaiveDate::from_num_days_from_ce_opt((*x as i64 - (1i64 << 31) + 719_163) as i32), |a, b| a == b);
ext_carrier!(chrono_04::DateTime<chrono_04::Utc>, Timestamp, |rng| millis_val(rng, 8_000_000_000_000_000),
    Val::Timestamp(x) => chrono_04::DateTime::<chrono_04::Utc>::from_timestamp(x.div_euclid(1000), (x.rem_euclid(1000) * 1_000_000) as u32), |a, b| a == b);
ext_carrier!(chrono_04::NaiveTime, Time, |rng| nanos_val(rng),
    Val::Time(x) => chrono_04::NaiveTime::from_num_seconds_from_midnight_opt((*x / 1_000_000_000) as u32, (*x % 1_000_000_000) as u32), |a, b| a == b);
// time: Julian day 2440588 = 1970-01-01; the crate's default range is years -9999..=9999
ext_carrier!(time_03::Date, Date, |rng| days_val(rng, 2_900_000),
    Val::Date(x) => time_03::Date::from_julian_day((*x as i64 - (1i64 << 31) + 2_440_588) as i32).ok(), |a, b| a == b);
ext_carrier!(time_03::OffsetDateTime, Timestamp, |rng| millis_val(rng, 250_000_000_000_000),
    Val::Timestamp(x) => time_03::OffsetDateTime::from_unix_timestamp_nanos(*x as i128 * 1_000_000).ok(), |a, b| a == b);
ext_carrier!(time_03::Time, Time, |rng| nanos_val(rng),
    Val::Time(x) => time_03::Time::from_hms_nano((*x / 3_600_000_000_000) as u8, (*x / 60_000_000_000 % 60) as u8,
        (*x / 1_000_000_000 % 60) as u8, (*x % 1_000_000_000) as u32).ok(), |a, b| a == b);
ext_carrier!(num_bigint_03::BigInt, Varint, |rng| Val::Varint(gen_varint_bytes(rng)),
    Val::Varint(b) => Some(num_bigint_03::BigInt::from_signed_bytes_be(b)), |a, b| a == b);
ext_carrier!(num_bigint_04::BigInt, Varint, |rng| Val::Varint(gen_varint_bytes(rng)),
    Val::Varint(b) => Some(num_bigint_04::BigInt::from_signed_bytes_be(b)), |a, b| a == b);
ext_carrier!(bigdecimal_04::BigDecimal, Decimal,
    |rng| Val::Decimal(*rng.pick(&[0i32, 1, -1, 2, 10, -10, 38, i32::MAX, i32::MIN, 12345]), gen_varint_bytes(rng)),
    Val::Decimal(s, b) => Some(bigdecimal_04::BigDecimal::new(bigdecimal_04::num_bigint::BigInt::from_signed_bytes_be(b), *s as i64)),
    |a, b| a.as_bigint_and_exponent() == b.as_bigint_and_exponent());

fn text_val(rng: &mut Rng, ty: &Ty) -> Val {
    let n = rng.below(12) as usize;
    match ty {
        Ty::Native(NativeType::Ascii) => Val::Ascii((0..n).map(|_| rng.below(128) as u8).collect()),
        _ => Val::Text(utf8(rng, n)),
    }
}

impl Carrier for secrecy_08::Secret<String> {
    fn ty(rng: &mut Rng) -> Ty {
        nat(rng.pick(&[NativeType::Ascii, NativeType::Text]).clone())
    }
    fn gen_val(rng: &mut Rng, ty: &Ty, _: Pos) -> Val {
        text_val(rng, ty)
    }
    fn from_val(v: &Val) -> Option<Self> {
        String::from_val(v).map(secrecy_08::Secret::new)
    }
    fn same(&self, o: &Self) -> bool {
        use secrecy_08::ExposeSecret;
        self.expose_secret() == o.expose_secret()
    }
}

impl Carrier for secrecy_10::SecretString {
    fn ty(rng: &mut Rng) -> Ty {
        nat(rng.pick(&[NativeType::Ascii, NativeType::Text]).clone())
    }
    fn gen_val(rng: &mut Rng, ty: &Ty, _: Pos) -> Val {
        text_val(rng, ty)
    }
    fn from_val(v: &Val) -> Option<Self> {
        String::from_val(v).map(secrecy_10::SecretString::from)
    }
    fn same(&self, o: &Self) -> bool {
        use secrecy_10::ExposeSecret;
        self.expose_secret() == o.expose_secret()
    }
}

impl Carrier for secrecy_10::SecretBox<i64> {
    fn ty(_: &mut Rng) -> Ty {
        nat(NativeType::BigInt)
    }
    fn gen_val(rng: &mut Rng, _: &Ty, _: Pos) -> Val {
        Val::BigInt(rng.i64_boundary())
    }
    fn from_val(v: &Val) -> Option<Self> {
        i64::from_val(v).map(|x| secrecy_10::SecretBox::new(Box::new(x)))
    }
    fn same(&self, o: &Self) -> bool {
        use secrecy_10::ExposeSecret;
        self.expose_secret() == o.expose_secret()
    }
}

//! External-crate carriers (differential only): chrono 0.4, time 0.3, num-bigint 0.3 / 0.4, bigdecimal 0.4,
//! secrecy 0.8 / 0.10.  The case line carries the embedding (a `date` / `time` / `timestamp` / `varint` /
//! `decimal` / `text` value); the Rust value is rebuilt from it with the external crate's own API
//! (independently of the driver's `From` / `TryFrom` conversions, which are part of what is checked).
use super::carrier::Carrier;
use super::gen_cases::{utf8, Pos};
use super::*;
use crate::rng::Rng;

fn nat(n: NativeType) -> Ty {
    Ty::Native(n)
}

/// Minimal two's-complement big-endian form (what `BigInt::to_signed_bytes_be` produces).
pub fn normalize_varint(mut b: Vec<u8>) -> Vec<u8> {
    if b.is_empty() {
        return vec![0];
    }
    while b.len() > 1 && ((b[0] == 0x00 && b[1] & 0x80 == 0) || (b[0] == 0xff && b[1] & 0x80 != 0)) {
        b.remove(0);
    }
    b
}

fn gen_varint_bytes(rng: &mut Rng) -> Vec<u8> {
    let l = match rng.below(4) {
        0 => 1,
        1 => rng.range(1, 9) as usize,
        _ => rng.range(1, 20) as usize,
    };
    let mut b = rng.bytes(l);
    if rng.chance(1, 6) {
        b = rng.pick(&[vec![0u8], vec![0xff], vec![0x7f], vec![0x80], vec![0x00, 0x80], vec![0xff, 0x7f]]).clone();
    }
    normalize_varint(b)
}

macro_rules! ext_carrier {
    ($t:ty, $n:ident, |$rng:ident| $gen:expr, $pat:pat => $mk:expr, |$a:ident, $b:ident| $same:expr) => {
        impl Carrier for $t {
            fn ty(_: &mut Rng) -> Ty {
                nat(NativeType::$n)
            }
            fn gen_val($rng: &mut Rng, _: &Ty, _: Pos) -> Val {
                $gen
            }
            fn from_val(v: &Val) -> Option<Self> {
                match v {
                    $pat => $mk,
                    _ => None,
                }
            }
            fn same(&self, o: &Self) -> bool {
                let ($a, $b) = (self, o);
                $same
            }
        }
    };
}

fn days_val(rng: &mut Rng, max: i64) -> Val {
    let d = match rng.below(4) {
        0 => *rng.pick(&[0i64, 1, -1, 365, -365, 11016, -719162]),
        1 => *rng.pick(&[max, -max, max - 1, 1 - max]),
        _ => rng.range(-max, max),
    };
    Val::Date(((1i64 << 31) + d) as u32)
}

fn millis_val(rng: &mut Rng, max: i64) -> Val {
    Val::Timestamp(match rng.below(4) {
        0 => *rng.pick(&[0i64, 1, -1, 999, -999, 1000, -1000, 1_700_000_000_123]),
        1 => *rng.pick(&[max, -max]),
        _ => rng.range(-max, max),
    })
}

fn nanos_val(rng: &mut Rng) -> Val {
    Val::Time(match rng.below(3) {
        0 => *rng.pick(&[0i64, 1, 999_999_999, 1_000_000_000, 86_399_999_999_999, 43_200_000_000_000]),
        _ => rng.range(0, 86_399_999_999_999),
    })
}

// chrono: proleptic Gregorian day 719163 = 1970-01-01
ext_carrier!(chrono_04::NaiveDate, Date, |rng| days_val(rng, 90_000_000),
    Val::Date(x) => chrono_04::NaiveDate::from_num_days_from_ce_opt((*x as i64 - (1i64 << 31) + 719_163) as i32), |a, b| a == b);
ext_carrier!(chrono_04::DateTime<chrono_04::Utc>, Timestamp, |rng| millis_val(rng, 8_000_000_000_000_000),
    Val::Timestamp(x) => chrono_04::DateTime::<chrono_04::Utc>::from_timestamp(x.div_euclid(1000), (x.rem_euclid(1000) * 1_000_000) as u32), |a, b| a == b);
ext_carrier!(chrono_04::NaiveTime, Time, |rng| nanos_val(rng),
    Val::Time(x) => chrono_04::NaiveTime::from_num_seconds_from_midnight_opt((*x / 1_000_000_000) as u32, (*x % 1_000_000_000) as u32), |a, b| a == b);
// time: Julian day 2440588 = 1970-01-01; the crate's default range is years -9999..=9999
ext_carrier!(time_03::Date, Date, |rng| days_val(rng, 2_900_000),
    Val::Date(x) => time_03::Date::from_julian_day((*x as i64 - (1i64 << 31) + 2_440_588) as i32).ok(), |a, b| a == b);
ext_carrier!(time_03::OffsetDateTime, Timestamp, |rng| millis_val(rng, 250_000_000_000_000),
    Val::Timestamp(x) => time_03::OffsetDateTime::from_unix_timestamp_nanos(*x as i128 * 1_000_000).ok(), |a, b| a == b);
ext_carrier!(time_03::Time, Time, |rng| nanos_val(rng),
    Val::Time(x) => time_03::Time::from_hms_nano((*x / 3_600_000_000_000) as u8, (*x / 60_000_000_000 % 60) as u8,
        (*x / 1_000_000_000 % 60) as u8, (*x % 1_000_000_000) as u32).ok(), |a, b| a == b);
ext_carrier!(num_bigint_03::BigInt, Varint, |rng| Val::Varint(gen_varint_bytes(rng)),
    Val::Varint(b) => Some(num_bigint_03::BigInt::from_signed_bytes_be(b)), |a, b| a == b);
ext_carrier!(num_bigint_04::BigInt, Varint, |rng| Val::Varint(gen_varint_bytes(rng)),
    Val::Varint(b) => Some(num_bigint_04::BigInt::from_signed_bytes_be(b)), |a, b| a == b);
ext_carrier!(bigdecimal_04::BigDecimal, Decimal,
    |rng| Val::Decimal(*rng.pick(&[0i32, 1, -1, 2, 10, -10, 38, i32::MAX, i32::MIN, 12345]), gen_varint_bytes(rng)),
    Val::Decimal(s, b) => Some(bigdecimal_04::BigDecimal::new(bigdecimal_04::num_bigint::BigInt::from_signed_bytes_be(b), *s as i64)),
    |a, b| a.as_bigint_and_exponent() == b.as_bigint_and_exponent());

fn text_val(rng: &mut Rng, ty: &Ty) -> Val {
    let n = rng.below(12) as usize;
    match ty {
        Ty::Native(NativeType::Ascii) => Val::Ascii((0..n).map(|_| rng.below(128) as u8).collect()),
        _ => Val::Text(utf8(rng, n)),
    }
}

impl Carrier for secrecy_08::Secret<String> {
    fn ty(rng: &mut Rng) -> Ty {
        nat(rng.pick(&[NativeType::Ascii, NativeType::Text]).clone())
    }
    fn gen_val(rng: &mut Rng, ty: &Ty, _: Pos) -> Val {
        text_val(rng, ty)
    }
    fn from_val(v: &Val) -> Option<Self> {
        String::from_val(v).map(secrecy_08::Secret::new)
    }
    fn same(&self, o: &Self) -> bool {
        use secrecy_08::ExposeSecret;
        self.expose_secret() == o.expose_secret()
    }
}

impl Carrier for secrecy_10::SecretString {
    fn ty(rng: &mut Rng) -> Ty {
        nat(rng.pick(&[NativeType::Ascii, NativeType::Text]).clone())
    }
    fn gen_val(rng: &mut Rng, ty: &Ty, _: Pos) -> Val {
        text_val(rng, ty)
    }
    fn from_val(v: &Val) -> Option<Self> {
        String::from_val(v).map(secrecy_10::SecretString::from)
    }
    fn same(&self, o: &Self) -> bool {
        use secrecy_10::ExposeSecret;
        self.expose_secret() == o.expose_secret()
    }
}

impl Carrier for secrecy_10::SecretBox<i64> {
    fn ty(_: &mut Rng) -> Ty {
        nat(NativeType::BigInt)
    }
    fn gen_val(rng: &mut Rng, _: &Ty, _: Pos) -> Val {
        Val::BigInt(rng.i64_boundary())
    }
    fn from_val(v: &Val) -> Option<Self> {
        i64::from_val(v).map(|x| secrecy_10::SecretBox::new(Box::new(x)))
    }
    fn same(&self, o: &Self) -> bool {
        use secrecy_10::ExposeSecret;
        self.expose_secret() == o.expose_secret()
    }
}

// ------------------------------------------------------------------------------------------------
// `conv` cases: the driver's own `From` / `TryFrom` / `TryInto` conversions on values built from components
// (modelled arithmetically in lean/ScyllaVerif/Model/C01ExternalConv.lean)
// ------------------------------------------------------------------------------------------------

pub fn run_conv(w: &[&str]) -> String {
    let num = |i: usize| -> Option<i64> { w.get(i)?.parse().ok() };
    let bad = || "bad-case".to_owned();
    match w.first().copied() {
        Some("time_date") => {
            let Some(jd) = num(1) else { return bad() };
            match time_03::Date::from_julian_day(jd as i32) {
                Ok(d) => CqlDate::from(d).0.to_string(),
                Err(_) => bad(),
            }
        }
        Some("cql_time_date") => {
            let Some(d) = num(1) else { return bad() };
            let r: Result<time_03::Date, _> = CqlDate(d as u32).try_into();
            r.map(|d| d.to_julian_day().to_string()).unwrap_or("overflow".to_owned())
        }
        Some("time_time") => {
            let (Some(h), Some(m), Some(s), Some(n)) = (num(1), num(2), num(3), num(4)) else { return bad() };
            match time_03::Time::from_hms_nano(h as u8, m as u8, s as u8, n as u32) {
                Ok(t) => CqlTime::from(t).0.to_string(),
                Err(_) => bad(),
            }
        }
        Some("cql_time_time") => {
            let Some(x) = num(1) else { return bad() };
            let r: Result<time_03::Time, _> = CqlTime(x).try_into();
            r.map(|t| {
                let (h, m, s, n) = t.as_hms_nano();
                format!("{} {} {} {}", h, m, s, n)
            })
            .unwrap_or("overflow".to_owned())
        }
        Some("time_odt") => {
            let (Some(secs), Some(nanos)) = (num(1), num(2)) else { return bad() };
            match time_03::OffsetDateTime::from_unix_timestamp_nanos(secs as i128 * 1_000_000_000 + nanos as i128) {
                Ok(t) => CqlTimestamp::from(t).0.to_string(),
                Err(_) => bad(),
            }
        }
        Some("cql_time_odt") => {
            let Some(ms) = num(1) else { return bad() };
            let r: Result<time_03::OffsetDateTime, _> = CqlTimestamp(ms).try_into();
            r.map(|t| format!("{} {}", t.unix_timestamp(), t.nanosecond())).unwrap_or("overflow".to_owned())
        }
        Some("chrono_time") => {
            let (Some(secs), Some(frac)) = (num(1), num(2)) else { return bad() };
            match chrono_04::NaiveTime::from_num_seconds_from_midnight_opt(secs as u32, frac as u32) {
                Some(t) => CqlTime::try_from(t).map(|c| c.0.to_string()).unwrap_or("overflow".to_owned()),
                None => bad(),
            }
        }
        Some("cql_chrono_time") => {
            use chrono_04::Timelike;
            let Some(x) = num(1) else { return bad() };
            let r: Result<chrono_04::NaiveTime, _> = CqlTime(x).try_into();
            r.map(|t| format!("{} {}", t.num_seconds_from_midnight(), t.nanosecond())).unwrap_or("overflow".to_owned())
        }
        Some("chrono_dt") => {
            let (Some(secs), Some(millis)) = (num(1), num(2)) else { return bad() };
            match chrono_04::DateTime::<chrono_04::Utc>::from_timestamp(secs, (millis * 1_000_000) as u32) {
                Some(t) => CqlTimestamp::from(t).0.to_string(),
                None => bad(),
            }
        }
        Some("cql_chrono_dt") => {
            let Some(ms) = num(1) else { return bad() };
            let r: Result<chrono_04::DateTime<chrono_04::Utc>, _> = CqlTimestamp(ms).try_into();
            r.map(|t| format!("{} {}", t.timestamp(), t.timestamp_subsec_millis())).unwrap_or("overflow".to_owned())
        }
        Some("bounds") => {
            // the ranges of the external types, from their own constants
            let epoch = chrono_04::NaiveDate::from_ymd_opt(1970, 1, 1).unwrap();
            format!(
                "{} {} {} {} {} {}",
                chrono_04::NaiveDate::MIN.signed_duration_since(epoch).num_days(),
                chrono_04::NaiveDate::MAX.signed_duration_since(epoch).num_days(),
                chrono_04::DateTime::<chrono_04::Utc>::MIN_UTC.timestamp_millis(),
                chrono_04::DateTime::<chrono_04::Utc>::MAX_UTC.timestamp_millis(),
                time_03::Date::MIN.to_julian_day(),
                time_03::Date::MAX.to_julian_day()
            )
        }
        // the four external carriers with their OWN decode code (deserialize/value.rs:618-756), through DeserializeValue
        Some("de_chrono_date") | Some("de_time_date") => {
            let Some(d) = num(1) else { return bad() };
            let ct = ColumnType::Native(NativeType::Date);
            let bytes = Bytes::copy_from_slice(&(d as u32).to_be_bytes());
            let slice = Some(FrameSlice::new(&bytes));
            if w[0] == "de_chrono_date" {
                use chrono_04::Datelike;
                match <chrono_04::NaiveDate as DeserializeValue>::deserialize(&ct, slice) {
                    Ok(x) => (x.num_days_from_ce() as i64 - 719_163).to_string(),
                    Err(e) => de_kind(&e),
                }
            } else {
                match <time_03::Date as DeserializeValue>::deserialize(&ct, slice) {
                    Ok(x) => x.to_julian_day().to_string(),
                    Err(e) => de_kind(&e),
                }
            }
        }
        Some("de_chrono_dt") | Some("de_time_odt") => {
            let Some(ms) = num(1) else { return bad() };
            let ct = ColumnType::Native(NativeType::Timestamp);
            let bytes = Bytes::copy_from_slice(&ms.to_be_bytes());
            let slice = Some(FrameSlice::new(&bytes));
            if w[0] == "de_chrono_dt" {
                match <chrono_04::DateTime<chrono_04::Utc> as DeserializeValue>::deserialize(&ct, slice) {
                    Ok(x) => format!("{} {}", x.timestamp(), x.timestamp_subsec_millis()),
                    Err(e) => de_kind(&e),
                }
            } else {
                match <time_03::OffsetDateTime as DeserializeValue>::deserialize(&ct, slice) {
                    Ok(x) => format!("{} {}", x.unix_timestamp(), x.nanosecond()),
                    Err(e) => de_kind(&e),
                }
            }
        }
        Some("de_chrono_time") | Some("de_time_time") => {
            let Some(x) = num(1) else { return bad() };
            let ct = ColumnType::Native(NativeType::Time);
            let bytes = Bytes::copy_from_slice(&x.to_be_bytes());
            let slice = Some(FrameSlice::new(&bytes));
            if w[0] == "de_chrono_time" {
                use chrono_04::Timelike;
                match <chrono_04::NaiveTime as DeserializeValue>::deserialize(&ct, slice) {
                    Ok(t) => format!("{} {}", t.num_seconds_from_midnight(), t.nanosecond()),
                    Err(e) => de_kind(&e),
                }
            } else {
                match <time_03::Time as DeserializeValue>::deserialize(&ct, slice) {
                    Ok(t) => {
                        let (h, m, s, n) = t.as_hms_nano();
                        format!("{} {} {} {}", h, m, s, n)
                    }
                    Err(e) => de_kind(&e),
                }
            }
        }
        // the `ValueOverflow` serialization arm of `NaiveTime` (leap second in the last second of the day)
        Some("ser_chrono_time") => {
            let (Some(secs), Some(frac)) = (num(1), num(2)) else { return bad() };
            match chrono_04::NaiveTime::from_num_seconds_from_midnight_opt(secs as u32, frac as u32) {
                Some(t) => {
                    let mut buf = Vec::new();
                    match t.serialize(&ColumnType::Native(NativeType::Time), CellWriter::new(&mut buf)) {
                        Ok(_) => i64::from_be_bytes(buf[4..12].try_into().unwrap()).to_string(),
                        Err(e) => ser_kind(&e),
                    }
                }
                None => bad(),
            }
        }
        // `BigDecimal` with an `i64` exponent: the scale must fit the protocol's `i32` (serialize/value.rs:142-155)
        Some("ser_bigdecimal") => {
            let (Some(scale), Some(b)) = (num(1), w.get(2).and_then(|h| unhex(h))) else { return bad() };
            let x = bigdecimal_04::BigDecimal::new(bigdecimal_04::num_bigint::BigInt::from_signed_bytes_be(&b), scale);
            let mut buf = Vec::new();
            match x.serialize(&ColumnType::Native(NativeType::Decimal), CellWriter::new(&mut buf)) {
                Ok(_) => hex(&buf),
                Err(e) => ser_kind(&e),
            }
        }
        Some("chrono_date") => {
            let Some(days) = num(1) else { return bad() };
            match chrono_04::NaiveDate::from_num_days_from_ce_opt((days + 719_163) as i32) {
                Some(d) => CqlDate::from(d).0.to_string(),
                None => bad(),
            }
        }
        _ => bad(),
    }
}

pub fn generate_conv(rng: &mut Rng, n: u64, emit: &mut dyn FnMut(String)) {
    let day_ns = 86_400_000_000_000i64;
    emit("conv bounds".to_owned());
    // the external carriers' own decoders (through DeserializeValue), overflow arms included
    for _ in 0..n / 2 {
        match rng.below(8) {
            0 | 1 => {
                let centre = 1i64 << 31;
                let d = match rng.below(4) {
                    0 => *rng.pick(&[0i64, u32::MAX as i64, centre, centre - 96_465_292, centre - 96_465_293, centre + 95_026_236, centre + 95_026_237,
                        centre - 2_440_588 - 1_930_999, centre - 2_440_588 - 1_931_000, centre - 2_440_588 + 5_373_484, centre - 2_440_588 + 5_373_485]),
                    1 => rng.range(centre - 100_000_000, centre + 100_000_000),
                    2 => rng.range(centre - 5_000_000, centre + 4_000_000),
                    _ => rng.below(1 << 32) as i64,
                };
                emit(format!("conv {} {}", if rng.bool() { "de_chrono_date" } else { "de_time_date" }, d))
            }
            2 | 3 => {
                let ms = match rng.below(4) {
                    0 => *rng.pick(&[0i64, -1, 999, -999, 1000, -1001, i64::MAX, i64::MIN, -8_334_601_228_800_000, -8_334_601_228_800_001,
                        8_210_266_876_799_999, 8_210_266_876_800_000, 253_402_300_799_999, 253_402_300_800_000, -377_705_116_800_000, -377_705_116_800_001]),
                    1 => rng.range(-8_400_000_000_000_000, 8_300_000_000_000_000),
                    2 => rng.range(-400_000_000_000_000, 260_000_000_000_000),
                    _ => rng.next() as i64,
                };
                emit(format!("conv {} {}", if rng.bool() { "de_chrono_dt" } else { "de_time_odt" }, ms))
            }
            4 | 5 => {
                let x = match rng.below(4) {
                    0 => *rng.pick(&[0i64, -1, day_ns - 1, day_ns, i64::MAX, i64::MIN, 1]),
                    1 => rng.range(0, day_ns - 1),
                    2 => rng.range(-day_ns, 2 * day_ns),
                    _ => rng.next() as i64,
                };
                emit(format!("conv {} {}", if rng.bool() { "de_chrono_time" } else { "de_time_time" }, x))
            }
            6 => {
                let scale = match rng.below(4) {
                    0 => *rng.pick(&[i32::MAX as i64, i32::MAX as i64 + 1, i32::MIN as i64, i32::MIN as i64 - 1, i64::MAX, i64::MIN, 0]),
                    1 => rng.range(-300, 300),
                    2 => rng.range(-(1 << 33), 1 << 33),
                    _ => rng.next() as i64,
                };
                emit(format!("conv ser_bigdecimal {} {}", scale, hex(&gen_varint_bytes(rng))))
            }
            _ => {
                let secs = if rng.chance(1, 3) { 86_399 } else { rng.below(1440) * 60 + 59 };
                let (r1, r2) = (rng.below(1_000_000_000), rng.below(2_000_000_000));
                let frac = *rng.pick(&[0u64, 999_999_999, 1_000_000_000, 1_999_999_999, r1, r2]);
                emit(format!("conv ser_chrono_time {} {}", secs, frac))
            }
        }
    }
    for i in 0..n {
        match i % 11 {
            0 => {
                let jd = *rng.pick(&[-1_930_999i64, 5_373_484, 2_440_588, 2_440_587, 0]);
                let jd = if rng.bool() { jd } else { rng.range(-1_930_999, 5_373_484) };
                emit(format!("conv time_date {}", jd))
            }
            1 => {
                let d = match rng.below(3) {
                    0 => *rng.pick(&[0i64, u32::MAX as i64, 1 << 31, (1 << 31) - 2_440_588 - 1_930_999, (1 << 31) - 2_440_588 - 1_931_000,
                        (1 << 31) - 2_440_588 + 5_373_484, (1 << 31) - 2_440_588 + 5_373_485]),
                    1 => rng.range((1 << 31) - 5_000_000, (1 << 31) + 4_000_000),
                    _ => rng.below(1 << 32) as i64,
                };
                emit(format!("conv cql_time_date {}", d))
            }
            2 => {
                let r = rng.below(1_000_000_000);
                let n = *rng.pick(&[0u64, 1, 999_999_999, 500_000_000, r]);
                emit(format!("conv time_time {} {} {} {}", rng.below(24), rng.below(60), rng.below(60), n))
            }
            3 | 7 => {
                let x = match rng.below(4) {
                    0 => *rng.pick(&[0i64, -1, day_ns - 1, day_ns, day_ns + 1, i64::MAX, i64::MIN, 3_600_000_000_000 * 24, 3_600_000_000_000 * 256,
                        3_600_000_000_000 * 255 + 59, -day_ns]),
                    1 => rng.range(0, day_ns - 1),
                    2 => rng.range(-day_ns, 3 * day_ns),
                    _ => rng.next() as i64,
                };
                emit(format!("conv {} {}", if i % 11 == 3 { "cql_time_time" } else { "cql_chrono_time" }, x))
            }
            4 => {
                let secs = match rng.below(3) {
                    0 => *rng.pick(&[0i64, -1, 1, -377_705_116_800, 253_402_300_799, 1_700_000_000]),
                    _ => rng.range(-377_705_116_800, 253_402_300_799),
                };
                let r = rng.below(1_000_000_000);
                let n = *rng.pick(&[0u64, 999_999_999, 1_000_000, 999_999, 123_456_789, r]);
                emit(format!("conv time_odt {} {}", secs, n))
            }
            5 | 9 => {
                let ms = match rng.below(4) {
                    0 => *rng.pick(&[0i64, -1, 999, -999, 1000, -1000, -1001, 253_402_300_799_999, 253_402_300_800_000, -377_705_116_800_000,
                        -377_705_116_800_001, i64::MAX, i64::MIN]),
                    1 => rng.range(-377_705_116_800_000, 253_402_300_799_999),
                    2 => rng.range(-100_000, 100_000),
                    _ => rng.range(-8_000_000_000_000_000, 8_000_000_000_000_000),
                };
                let ms = if rng.chance(1, 6) {
                    *rng.pick(&[-8_334_601_228_800_000i64, -8_334_601_228_800_001, 8_210_266_876_799_999, 8_210_266_876_800_000, i64::MAX, i64::MIN])
                } else if rng.chance(1, 6) {
                    rng.next() as i64
                } else {
                    ms
                };
                emit(format!("conv {} {}", if i % 11 == 5 { "cql_time_odt" } else { "cql_chrono_dt" }, ms))
            }
            6 => {
                let secs = if rng.chance(1, 4) { 86_399 } else { rng.below(86_400) };
                let (r1, r2) = (rng.below(1_000_000_000), rng.below(2_000_000_000));
                let frac = *rng.pick(&[0u64, 999_999_999, 1_000_000_000, 1_999_999_999, r1, r2]);
                // chrono admits a leap-second fraction only in the 60th second of a minute
                let secs = if frac >= 1_000_000_000 { secs - secs % 60 + 59 } else { secs };
                emit(format!("conv chrono_time {} {}", secs, frac))
            }
            8 => emit(format!("conv chrono_dt {} {}", rng.range(-8_000_000_000_000, 8_000_000_000_000), rng.below(1000))),
            _ => emit(format!("conv chrono_date {}", rng.range(-90_000_000, 90_000_000))),
        }
    }
}

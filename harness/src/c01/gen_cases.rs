//! Case generators of C01: exhaustive small universe (by increasing size), type-directed mostly-valid
//! boundary-heavy random stream, out-of-domain (mismatch) stream, malformed decoder stream, carriers.
use super::carrier;
use super::*;
use crate::rng::Rng;
use crate::Tier;

pub const NAMES: [&str; 8] = ["a", "b", "c", "d", "e", "f_1", "\u{fc}", "Field"];

/// Where a value sits (decides which shapes stay inside the property's domain).
#[derive(Clone, Copy, PartialEq)]
pub enum Pos {
    /// top level, tuple field, UDT field: may be null
    Nullable,
    /// list / set / map element
    Elem,
    /// element of a fixed-width vector: never `empty`
    FixedVec,
}

pub fn native(rng: &mut Rng) -> NativeType {
    NATIVES[rng.below(20) as usize].0.clone()
}

pub fn gen_ty(rng: &mut Rng, depth: u32) -> Ty {
    if depth == 0 || rng.chance(2, 5) {
        return Ty::Native(native(rng));
    }
    let d = depth - 1;
    match rng.below(7) {
        0 => Ty::List(Box::new(gen_ty(rng, d))),
        1 => Ty::Set(Box::new(gen_ty(rng, d))),
        2 => Ty::Map(Box::new(gen_ty(rng, d)), Box::new(gen_ty(rng, d))),
        3 => Ty::Tuple((0..rng.range(1, 4)).map(|_| gen_ty(rng, d)).collect()),
        4 => {
            let n = rng.range(1, 4) as usize;
            let mut names: Vec<&str> = NAMES.to_vec();
            rng.shuffle(&mut names);
            Ty::Udt(
                rng.pick(&["ks", "K\u{e9}"]).to_string(),
                rng.pick(&["t", "my_type"]).to_string(),
                names[..n].iter().map(|s| (s.to_string(), gen_ty(rng, d))).collect(),
            )
        }
        _ => {
            let dim = if rng.chance(1, 12) { *rng.pick(&[7u16, 16, 33]) } else { rng.range(1, 4) as u16 };
            Ty::Vector(Box::new(gen_ty(rng, d)), dim)
        }
    }
}

fn len_small(rng: &mut Rng) -> usize {
    match rng.below(10) {
        0 | 1 => 0,
        2 | 3 => 1,
        4 | 5 => 2,
        6 | 7 => 3,
        8 => rng.range(4, 9) as usize,
        _ => *rng.pick(&[15usize, 16, 17, 31, 32, 33]),
    }
}

pub fn utf8(rng: &mut Rng, n: usize) -> Vec<u8> {
    let pool = ['a', 'Z', '0', ' ', '\u{0}', '\u{7f}', '\u{e9}', '\u{df}', '\u{20ac}', '\u{4e2d}', '\u{1f600}', '\u{10ffff}'];
    (0..n).map(|_| *rng.pick(&pool)).collect::<String>().into_bytes()
}

fn i32_boundary(rng: &mut Rng) -> i32 {
    match rng.below(4) {
        0 => *rng.pick(&[0, 1, -1, i32::MIN, i32::MAX, i32::MIN + 1, i32::MAX - 1, 127, 128, -128, -129, 255, 256, 65535, 65536]),
        1 => rng.range(-70, 70) as i32,
        2 => {
            let k = rng.below(31) as u32;
            let b = 1i32 << k;
            *rng.pick(&[b, b - 1, -b, -b - 1])
        }
        _ => rng.next() as i32,
    }
}

pub fn gen_native(rng: &mut Rng, n: &NativeType, pos: Pos) -> Val {
    use NativeType as N;
    let nonempty = false;
    let _ = pos;
    let slen = |rng: &mut Rng| {
        let l = len_small(rng);
        if nonempty && l == 0 { 1 } else { l }
    };
    match n {
        N::Ascii => {
            let l = slen(rng);
            Val::Ascii((0..l).map(|_| rng.below(128) as u8).collect())
        }
        N::Text => {
            let l = slen(rng);
            Val::Text(utf8(rng, l))
        }
        N::Blob => {
            let l = slen(rng);
            Val::Blob(rng.bytes(l))
        }
        N::Boolean => Val::Boolean(rng.bool()),
        N::TinyInt => Val::TinyInt(*rng.pick(&[0i8, 1, -1, i8::MIN, i8::MAX, 42])),
        N::SmallInt => Val::SmallInt(*rng.pick(&[0i16, 1, -1, i16::MIN, i16::MAX, 256, -257, 0x1234])),
        N::Int => Val::Int(i32_boundary(rng)),
        N::BigInt => Val::BigInt(rng.i64_boundary()),
        N::Counter => Val::Counter(rng.i64_boundary()),
        N::Float => Val::Float(match rng.below(4) {
            0 => *rng.pick(&[0u32, 0x8000_0000, 0x7f80_0000, 0xff80_0000, 0x7fc0_0000, 0x7f80_0001, 0xffff_ffff, 0x3f80_0000, 1]),
            _ => rng.next() as u32,
        }),
        N::Double => Val::Double(match rng.below(4) {
            0 => *rng.pick(&[0u64, 1 << 63, 0x7ff0_0000_0000_0000, 0xfff0_0000_0000_0000, 0x7ff8_0000_0000_0000, 0x7ff0_0000_0000_0001, u64::MAX, 0x3ff0_0000_0000_0000]),
            _ => rng.next(),
        }),
        N::Date => Val::Date(*rng.pick(&[0u32, 1, 1 << 31, (1 << 31) - 1, u32::MAX, 0x8000_4a3b])),
        N::Time => Val::Time(match rng.below(3) {
            0 => *rng.pick(&[0i64, 1, 86399999999999, 86399999999998, 43200000000000]),
            _ => rng.range(0, 86399999999999),
        }),
        N::Timestamp => Val::Timestamp(rng.i64_boundary()),
        N::Timeuuid => Val::Timeuuid(rng.bytes(16).try_into().unwrap()),
        N::Uuid => Val::Uuid(if rng.chance(1, 8) { [0; 16] } else { rng.bytes(16).try_into().unwrap() }),
        N::Inet => Val::Inet(match rng.below(8) {
            0 | 1 | 2 => rng.bytes(4),
            3 | 4 => rng.bytes(16),
            // structured IPv6 addresses: IPv4-mapped (::ffff:a.b.c.d), IPv4-compatible (::a.b.c.d), loopback,
            // unspecified, link-local, 6to4 - an address family must never be "normalised" on the wire
            5 => {
                let mut b = vec![0u8; 10];
                b.extend_from_slice(&[0xff, 0xff]);
                b.extend_from_slice(&rng.bytes(4));
                b
            }
            6 => {
                let mut b = vec![0u8; 12];
                b.extend_from_slice(&rng.bytes(4));
                b
            }
            _ => match rng.below(5) {
                0 => { let mut b = vec![0u8; 16]; b[15] = 1; b }
                1 => vec![0u8; 16],
                2 => { let mut b = rng.bytes(16); b[0] = 0xfe; b[1] = 0x80; b }
                3 => { let mut b = rng.bytes(16); b[0] = 0x20; b[1] = 0x02; b }
                _ => vec![0xffu8; 16],
            },
        }),
        N::Varint => {
            let l = rng.range(1, 12) as usize;
            let mut b = rng.bytes(l);
            // non-normalised forms: redundant sign bytes
            match rng.below(4) {
                0 => b.insert(0, 0x00),
                1 => b.insert(0, 0xff),
                _ => {}
            }
            Val::Varint(b)
        }
        N::Decimal => {
            let l = rng.below(10) as usize;
            Val::Decimal(i32_boundary(rng), rng.bytes(l))
        }
        N::Duration => {
            // nanoseconds walk through all nine vint lengths
            let k = rng.below(64) as u32;
            let mag = (rng.next() >> k) as i64;
            let ns = match rng.below(4) {
                0 => rng.i64_boundary(),
                1 => -mag,
                _ => mag,
            };
            Val::Duration(i32_boundary(rng), i32_boundary(rng), ns)
        }
        _ => Val::Empty,
    }
}

/// A value of the property's domain (`classify == In`) for `t`.
pub fn gen_val(rng: &mut Rng, t: &Ty, pos: Pos, size: u32) -> Val {
    if pos == Pos::Nullable && rng.chance(1, 7) {
        return Val::Null;
    }
    if supports_empty(t) && pos != Pos::FixedVec && rng.chance(1, 25) {
        return Val::Empty;
    }
    let count = |rng: &mut Rng| if size == 0 { rng.below(2) as usize } else { len_small(rng).min(2 + 3 * size as usize) };
    let s = size.saturating_sub(1);
    match t {
        Ty::Native(n) => gen_native(rng, n, pos),
        Ty::List(e) | Ty::Set(e) => {
            let vs: Vec<Val> = (0..count(rng)).map(|_| gen_val(rng, e, Pos::Elem, s)).collect();
            // mostly the constructor of the type; sometimes another one (`Vec<CqlValue>` serves all three)
            match (t, rng.below(12)) {
                (_, 0) => Val::Vector(vs),
                (Ty::List(_), 1) => Val::Set(vs),
                (Ty::Set(_), 1) => Val::List(vs),
                (Ty::List(_), _) => Val::List(vs),
                _ => Val::Set(vs),
            }
        }
        Ty::Map(k, v) => Val::Map((0..count(rng)).map(|_| (gen_val(rng, k, Pos::Elem, s), gen_val(rng, v, Pos::Elem, s))).collect()),
        Ty::Vector(e, dim) => {
            let fixed = size_for_vector(e).is_some();
            Val::Vector(
                (0..*dim)
                    .map(|i| {
                        let _ = i;
                        let p = if fixed { Pos::FixedVec } else { Pos::Elem };
                        gen_val(rng, e, p, s)
                    })
                    .collect(),
            )
        }
        Ty::Tuple(ts) => {
            // full, or short (a non-empty proper prefix)
            let n = if rng.chance(1, 3) { rng.range(1, ts.len() as i64) as usize } else { ts.len() };
            Val::Tuple(ts[..n].iter().map(|t| gen_val(rng, t, Pos::Nullable, s)).collect())
        }
        Ty::Udt(ks, name, fts) => {
            let mut fs: Vec<(String, Val)> = Vec::new();
            for (n, t) in fts {
                if rng.chance(4, 5) {
                    fs.push((n.clone(), gen_val(rng, t, Pos::Nullable, s)));
                }
            }
            if rng.chance(1, 2) {
                rng.shuffle(&mut fs);
            }
            Val::Udt(ks.clone(), name.clone(), fs)
        }
    }
}

fn pool3(n: &NativeType) -> [Val; 3] {
    use NativeType as N;
    match n {
        N::Ascii => [Val::Ascii(vec![]), Val::Ascii(b"a".to_vec()), Val::Ascii(b"hello \x7f".to_vec())],
        N::Text => [Val::Text(vec![]), Val::Text(b"x".to_vec()), Val::Text("z\u{fc}\u{20ac}\u{1f600}".as_bytes().to_vec())],
        N::Blob => [Val::Blob(vec![]), Val::Blob(vec![0]), Val::Blob(vec![0xff, 0x00, 0x80, 0x7f])],
        N::Boolean => [Val::Boolean(false), Val::Boolean(true), Val::Boolean(true)],
        N::TinyInt => [Val::TinyInt(0), Val::TinyInt(-128), Val::TinyInt(127)],
        N::SmallInt => [Val::SmallInt(0), Val::SmallInt(i16::MIN), Val::SmallInt(0x1234)],
        N::Int => [Val::Int(0), Val::Int(i32::MIN), Val::Int(0x01020304)],
        N::BigInt => [Val::BigInt(0), Val::BigInt(i64::MIN), Val::BigInt(0x0102030405060708)],
        N::Counter => [Val::Counter(0), Val::Counter(-1), Val::Counter(i64::MAX)],
        N::Float => [Val::Float(0), Val::Float(0x7fc0_0001), Val::Float(0xbf80_0000)],
        N::Double => [Val::Double(0), Val::Double(0x7ff8_0000_0000_0001), Val::Double(0xbff0_0000_0000_0000)],
        N::Date => [Val::Date(0), Val::Date(1 << 31), Val::Date(u32::MAX)],
        N::Time => [Val::Time(0), Val::Time(1), Val::Time(86399999999999)],
        N::Timestamp => [Val::Timestamp(0), Val::Timestamp(-1), Val::Timestamp(i64::MIN)],
        N::Timeuuid => [Val::Timeuuid([0; 16]), Val::Timeuuid([0xff; 16]), Val::Timeuuid(*b"\x01\x02\x03\x04\x05\x06\x17\x08\x89\x0a\x0b\x0c\x0d\x0e\x0f\x10")],
        N::Uuid => [Val::Uuid([0; 16]), Val::Uuid([0xff; 16]), Val::Uuid(*b"\x01\x02\x03\x04\x05\x06\x47\x08\x89\x0a\x0b\x0c\x0d\x0e\x0f\x10")],
        N::Inet => [
            Val::Inet(vec![127, 0, 0, 1]),
            Val::Inet(vec![0, 0, 0, 0, 0, 0, 0, 0, 0, 0, 0xff, 0xff, 10, 1, 2, 3]), // ::ffff:10.1.2.3
            Val::Inet((1..=16).collect()),
        ],
        N::Varint => [Val::Varint(vec![0]), Val::Varint(vec![0xff, 0x7f]), Val::Varint(vec![0, 0, 0x80, 1, 2, 3, 4, 5, 6])],
        N::Decimal => [Val::Decimal(0, vec![]), Val::Decimal(-3, vec![0x80]), Val::Decimal(i32::MAX, vec![1, 2, 3])],
        N::Duration => [Val::Duration(0, 0, 0), Val::Duration(-1, 1, i64::MIN), Val::Duration(i32::MAX, i32::MIN, 0x0040_0000_0000_0000)],
        _ => [Val::Empty, Val::Empty, Val::Empty],
    }
}

fn emit_dyn(emit: &mut dyn FnMut(String), t: &Ty, v: &Val) {
    // only images of `Option<CqlValue>` / `Unset` can be bound dynamically
    if !matches!(v, Val::Null | Val::Unset) && to_cql(v).is_none() {
        return;
    }
    emit(format!("dyn {} {}", ty_str(t), val_str(v)));
}

/// Every native × pool, then depth-1 types over the pool, smallest first.
fn exhaustive(tier: Tier, emit: &mut dyn FnMut(String)) {
    let nat: Vec<NativeType> = NATIVES.iter().map(|(n, _)| n.clone()).collect();
    for n in &nat {
        let t = Ty::Native(n.clone());
        emit_dyn(emit, &t, &Val::Null);
        emit_dyn(emit, &t, &Val::Unset);
        emit_dyn(emit, &t, &Val::Empty);
        for v in pool3(n) {
            emit_dyn(emit, &t, &v);
        }
    }
    for n in &nat {
        let e = Ty::Native(n.clone());
        let p = pool3(n);
        let fixed = size_for_vector(&e).is_some();
        for vs in [vec![], vec![p[0].clone()], vec![p[2].clone(), p[1].clone(), p[0].clone()], vec![p[1].clone(), Val::Empty]] {
            if vs.contains(&Val::Empty) && !supports_empty(&e) {
                continue;
            }
            emit_dyn(emit, &Ty::List(Box::new(e.clone())), &Val::List(vs.clone()));
            emit_dyn(emit, &Ty::Set(Box::new(e.clone())), &Val::Set(vs.clone()));
        }
        for d in 1..=3usize {
            // p[0] (possibly a zero-length body) first, the non-empty p[1] last
            let order = [p[0].clone(), p[2].clone(), p[1].clone()];
            let vs: Vec<Val> = order[3 - d..].to_vec();
            emit_dyn(emit, &Ty::Vector(Box::new(e.clone()), d as u16), &Val::Vector(vs));
        }
        if !fixed && supports_empty(&e) {
            emit_dyn(emit, &Ty::Vector(Box::new(e.clone()), 2), &Val::Vector(vec![Val::Empty, p[1].clone()]));
        }
    }
    let step = if tier == Tier::Quick { 3 } else { 1 };
    for (i, a) in nat.iter().enumerate() {
        for (j, b) in nat.iter().enumerate() {
            if (i + j) % step != 0 {
                continue;
            }
            let (ta, tb) = (Ty::Native(a.clone()), Ty::Native(b.clone()));
            let (pa, pb) = (pool3(a), pool3(b));
            let tt = Ty::Tuple(vec![ta.clone(), tb.clone()]);
            emit_dyn(emit, &tt, &Val::Tuple(vec![pa[2].clone(), pb[1].clone()]));
            emit_dyn(emit, &tt, &Val::Tuple(vec![pa[1].clone()]));
            emit_dyn(emit, &tt, &Val::Tuple(vec![Val::Null, pb[2].clone()]));
            emit_dyn(emit, &tt, &Val::Tuple(vec![pa[0].clone(), Val::Null]));
            let tm = Ty::Map(Box::new(ta.clone()), Box::new(tb.clone()));
            emit_dyn(emit, &tm, &Val::Map(vec![]));
            emit_dyn(emit, &tm, &Val::Map(vec![(pa[0].clone(), pb[2].clone()), (pa[2].clone(), pb[0].clone())]));
            let tu = Ty::Udt("ks".into(), "t".into(), vec![("a".into(), ta.clone()), ("b".into(), tb.clone())]);
            emit_dyn(emit, &tu, &Val::Udt("ks".into(), "t".into(), vec![("b".into(), pb[1].clone()), ("a".into(), pa[2].clone())]));
            emit_dyn(emit, &tu, &Val::Udt("ks".into(), "t".into(), vec![("b".into(), pb[2].clone())]));
            emit_dyn(emit, &tu, &Val::Udt("ks".into(), "t".into(), vec![]));
        }
    }
}

/// Values outside the domain: the implementation must reject (or accept) them exactly as the model does.
fn mismatch(rng: &mut Rng, depth: u32, emit: &mut dyn FnMut(String)) {
    let t = gen_ty(rng, depth);
    let v = match rng.below(12) {
        // a value of another type
        0..=3 => {
            let t2 = gen_ty(rng, depth);
            gen_val(rng, &t2, Pos::Nullable, 2)
        }
        // right shape, locally broken
        _ => {
            let v = gen_val(rng, &t, Pos::Elem, 2);
            break_val(rng, &t, v)
        }
    };
    // shapes of known findings are replayed from the corpus only
    if matches!(classify(&t, &v, true), Dom::Known(_)) {
        return;
    }
    emit_dyn(emit, &t, &v);
}

fn break_val(rng: &mut Rng, t: &Ty, v: Val) -> Val {
    match (t, v) {
        (Ty::List(_), Val::List(vs)) => if rng.bool() { Val::Set(vs) } else { Val::Vector(vs) },
        (Ty::Set(_), Val::Set(vs)) => if rng.bool() { Val::List(vs) } else { Val::Vector(vs) },
        (Ty::Vector(e, _), Val::Vector(mut vs)) => match rng.below(4) {
            0 => Val::List(vs),
            1 => {
                vs.pop();
                Val::Vector(vs)
            }
            2 => {
                let extra = gen_val(rng, e, Pos::Elem, 1);
                vs.push(extra);
                Val::Vector(vs)
            }
            _ => Val::Set(vs),
        },
        (Ty::Tuple(ts), Val::Tuple(mut fs)) => match rng.below(3) {
            0 => {
                while fs.len() <= ts.len() {
                    fs.push(Val::Null)
                }
                Val::Tuple(fs)
            }
            1 => {
                fs.reverse();
                Val::Tuple(fs)
            }
            _ => Val::List(fs),
        },
        (Ty::Udt(..), Val::Udt(ks, name, mut fs)) => match rng.below(5) {
            0 => Val::Udt(format!("{}x", ks), name, fs),
            1 => Val::Udt(ks, "other".into(), fs),
            2 => {
                fs.push(("zz_extra".into(), Val::Int(1)));
                if rng.bool() {
                    fs.push(("aa_extra".into(), Val::Null));
                }
                Val::Udt(ks, name, fs)
            }
            3 => {
                // duplicate field name in the value: the last one wins
                if let Some((n, _)) = fs.first().cloned() {
                    fs.push((n, Val::Null));
                }
                Val::Udt(ks, name, fs)
            }
            _ => Val::Tuple(fs.into_iter().map(|f| f.1).collect()),
        },
        (Ty::Map(..), Val::Map(kvs)) => Val::List(kvs.into_iter().map(|kv| kv.0).collect()),
        (Ty::Native(NativeType::Text), Val::Text(b)) => Val::Ascii(b),
        (Ty::Native(NativeType::Ascii), Val::Ascii(_)) => Val::Text("\u{e9}t\u{e9}".as_bytes().to_vec()),
        (Ty::Native(NativeType::Time), _) => Val::Time(*rng.pick(&[-1i64, 86400000000000, i64::MAX, i64::MIN])),
        (Ty::Native(NativeType::Varint), _) => Val::Varint(vec![]),
        (Ty::Native(NativeType::BigInt), Val::BigInt(x)) => Val::Counter(x),
        (Ty::Native(NativeType::Timestamp), Val::Timestamp(x)) => Val::BigInt(x),
        (Ty::Native(NativeType::Uuid), Val::Uuid(x)) => Val::Timeuuid(x),
        (Ty::Native(NativeType::Int), Val::Int(x)) => Val::Date(x as u32),
        (Ty::Native(NativeType::Counter | NativeType::Duration), _) => Val::Empty,
        (_, _) => Val::Empty,
    }
}

/// Degenerate types (no such CQL type exists; outside the domain, model and code must still agree).
fn degenerate(rng: &mut Rng, emit: &mut dyn FnMut(String)) {
    let e = Ty::Native(native(rng));
    let v = gen_val(rng, &e, Pos::Elem, 1);
    match rng.below(5) {
        0 => emit_dyn(emit, &Ty::Tuple(vec![]), &Val::Tuple(vec![])),
        1 => emit_dyn(emit, &Ty::Udt("ks".into(), "t".into(), vec![]), &Val::Udt("ks".into(), "t".into(), vec![])),
        2 => emit_dyn(emit, &Ty::Vector(Box::new(e), 0), &Val::Vector(vec![])),
        3 => emit_dyn(
            emit,
            &Ty::Udt("ks".into(), "t".into(), vec![("a".into(), e.clone()), ("a".into(), e.clone())]),
            &Val::Udt("ks".into(), "t".into(), vec![("a".into(), v)]),
        ),
        _ => emit_dyn(emit, &Ty::List(Box::new(Ty::Vector(Box::new(Ty::Vector(Box::new(e), 0)), 2))), &Val::List(vec![])),
    }
}

/// Decoder on arbitrary cell bodies: valid encodings truncated / extended / corrupted, and random bytes.
fn malformed(rng: &mut Rng, depth: u32, emit: &mut dyn FnMut(String)) {
    let t = gen_ty(rng, depth);
    let body: Option<Vec<u8>> = match rng.below(10) {
        0 => None,
        1 => {
            let l = rng.below(24) as usize;
            Some(rng.bytes(l))
        }
        _ => {
            let v = gen_val(rng, &t, Pos::Elem, 2);
            let mut b = spec_body(&t, &v).unwrap_or_default();
            match rng.below(7) {
                0 => {}
                1 => {
                    let cut = rng.below(b.len() as u64 + 1) as usize;
                    b.truncate(cut)
                }
                2 => {
                    let l = rng.range(1, 6) as usize;
                    b.extend(rng.bytes(l))
                }
                3 | 4 => {
                    if !b.is_empty() {
                        let i = rng.below(b.len() as u64) as usize;
                        b[i] = *rng.pick(&[0x00u8, 0xff, 0x80, 0x7f, 0x01, 0xfe]);
                    }
                }
                5 => {
                    if !b.is_empty() {
                        let i = rng.below(b.len() as u64) as usize;
                        b[i] ^= 1 << rng.below(8);
                    }
                }
                _ => {
                    if b.len() >= 4 {
                        let i = rng.below(b.len() as u64 - 3) as usize;
                        let pats: [[u8; 4]; 5] = [[0xff, 0xff, 0xff, 0xff], [0x7f, 0xff, 0xff, 0xff], [0, 0, 0, 0], [0xff, 0xff, 0xff, 0xfe], [0x80, 0, 0, 0]];
                        let pat = *rng.pick(&pats);
                        b[i..i + 4].copy_from_slice(&pat);
                    }
                }
            }
            Some(b)
        }
    };
    emit(format!("dec {} {}", ty_str(&t), body.map(|b| hex(&b)).unwrap_or("null".into())));
}

pub fn generate(rng: &mut Rng, tier: Tier, emit: &mut dyn FnMut(String)) {
    let scale: u64 = if tier == Tier::Quick { 4 } else { 48 };
    let depth = if tier == Tier::Quick { 4 } else { 6 };
    exhaustive(tier, emit);
    // in-domain, type-directed
    for i in 0..14_000 * scale {
        let d = 1 + (i % depth as u64) as u32;
        let t = gen_ty(rng, d);
        let v = gen_val(rng, &t, Pos::Nullable, 3);
        debug_assert!(classify(&t, &v, true) == Dom::In, "generator left the domain: {} {}", ty_str(&t), val_str(&v));
        emit_dyn(emit, &t, &v);
    }
    // focused: vectors (fixed / variable width, nested), durations (vint lengths), short tuples / UDTs
    for _ in 0..3_000 * scale {
        let e = gen_ty(rng, 2);
        let dim = rng.range(1, 5) as u16;
        let t = match rng.below(4) {
            0 => Ty::Vector(Box::new(e), dim),
            1 => Ty::Vector(Box::new(Ty::Vector(Box::new(e), dim)), rng.range(1, 3) as u16),
            2 => Ty::List(Box::new(Ty::Vector(Box::new(e), dim))),
            _ => Ty::Map(Box::new(Ty::Native(NativeType::Duration)), Box::new(Ty::Tuple(vec![e, Ty::Native(NativeType::Duration), Ty::Native(native(rng))]))),
        };
        let v = gen_val(rng, &t, Pos::Elem, 3);
        emit_dyn(emit, &t, &v);
    }
    // write_size = false at the top level (how a vector element is written)
    for _ in 0..1_500 * scale {
        let t = gen_ty(rng, 3);
        let v = if rng.chance(1, 6) {
            let t2 = gen_ty(rng, 2);
            gen_val(rng, &t2, Pos::Nullable, 2)
        } else {
            gen_val(rng, &t, Pos::Nullable, 2)
        };
        if !matches!(v, Val::Null | Val::Unset) && to_cql(&v).is_none() {
            continue;
        }
        emit(format!("dynraw {} {}", ty_str(&t), val_str(&v)));
    }
    for _ in 0..3_000 * scale {
        mismatch(rng, 3, emit);
    }
    for _ in 0..300 * scale {
        degenerate(rng, emit);
    }
    for _ in 0..5_000 * scale {
        malformed(rng, 3, emit);
    }
    carrier::generate(rng, tier, emit);
    super::external::generate_conv(rng, 2_000 * scale, emit);
    super::vnorm::generate_vnorm(rng, 1_500 * scale, emit);
}

// C08 — the layer above the frame parser: the REAL `Connection::router` / `reader` (through the `RawConnection` hook)
// fed arbitrary bytes by a scripted peer, and the real `ResponseHandlerMap::lookup` (through the `StreamMap` hook).
//
//   r <n> <wire hex|->   n requests in flight (stream ids 0..n-1), then the peer writes the bytes and closes
//   R <n> <lo> <cnt>     one connection per stream id lo .. lo+cnt-1: n requests in flight, one empty RESULT frame on
//                        that stream, then EOF; summarised
//   k <n> <lo> <cnt>     `ResponseHandlerMap::lookup(id)` for every id of the range on one map with n handlers
//
// Model: `Model/C08Reader.lean`.  What the property's text says directly is checked here without the model: the reader
// task must END WITH AN ERROR KIND (a panic inside it shows as: no error reported, the callers cut off with
// `ChannelError`), every caller gets its response or exactly that error, nothing hangs.
use crate::rng::Rng;
use crate::util::{hex, unhex};
use crate::Tier;
use scylla::verif_hooks::connection::{Lookup, RawConnection, RawResponse, StreamMap};
use std::time::Duration;
use tokio::io::{AsyncReadExt, AsyncWriteExt};

const STEP_TIMEOUT: Duration = Duration::from_secs(20);

pub struct ReaderRun {
    /// label of the error that broke the connection; `None`: the router ended without reporting one
    pub broken: Option<String>,
    /// per request, indexed by the stream id the writer gave it: the response or the error label
    pub outcomes: Vec<Result<RawResponse, String>>,
    pub problems: Vec<String>,
}

/// One connection: `n` requests submitted and seen on the wire by the peer, then `wire` arrives and the peer closes.
pub async fn reader_run(n: usize, wire: &[u8]) -> ReaderRun {
    let mut problems = vec![];
    let (client, mut server) = tokio::io::duplex(1 << 16);
    let (conn, broken_rx) = RawConnection::spawn(client, None, None, false);
    let conn = std::sync::Arc::new(conn);
    let mut tasks = Vec::with_capacity(n);
    for i in 0..n {
        let conn = conn.clone();
        tasks.push(tokio::spawn(async move { conn.send_raw((i as u64).to_be_bytes().to_vec()).await }));
    }
    // the peer: read the n request frames (tag -> stream id), then write the scripted bytes and close
    let mut stream_of_tag: Vec<Option<i16>> = vec![None; n];
    let mut buf: Vec<u8> = Vec::new();
    let mut seen = 0usize;
    let read_all = async {
        while seen < n {
            while buf.len() >= 9 {
                let len = u32::from_be_bytes(buf[5..9].try_into().unwrap()) as usize;
                if buf.len() < 9 + len {
                    break;
                }
                let frame: Vec<u8> = buf.drain(..9 + len).collect();
                let stream = i16::from_be_bytes([frame[2], frame[3]]);
                if frame.len() == 17 {
                    let tag = u64::from_be_bytes(frame[9..17].try_into().unwrap()) as usize;
                    if tag < n {
                        stream_of_tag[tag] = Some(stream);
                    }
                }
                seen += 1;
            }
            if seen >= n {
                break;
            }
            match server.read_buf(&mut buf).await {
                Ok(k) if k > 0 => {}
                _ => break,
            }
        }
    };
    if tokio::time::timeout(STEP_TIMEOUT, read_all).await.is_err() || seen < n {
        problems.push(format!("only {} of {} requests reached the wire", seen, n));
    }
    let _ = server.write_all(wire).await;
    let _ = server.flush().await;
    drop(server);
    let broken = match tokio::time::timeout(STEP_TIMEOUT, broken_rx).await {
        Ok(Ok(label)) => Some(label),
        Ok(Err(_)) => None,
        Err(_) => {
            problems.push("hang: the connection did not break after the peer closed".to_owned());
            None
        }
    };
    let mut by_tag: Vec<Result<RawResponse, String>> = Vec::with_capacity(n);
    for t in tasks {
        by_tag.push(match tokio::time::timeout(STEP_TIMEOUT, t).await {
            Ok(Ok(r)) => r,
            Ok(Err(_)) => Err("task-panicked".to_owned()),
            Err(_) => {
                problems.push("hang: a request never completed after the connection broke".to_owned());
                Err("hang".to_owned())
            }
        });
    }
    drop(conn);
    // index by assigned stream id
    let mut outcomes: Vec<Option<Result<RawResponse, String>>> = (0..n).map(|_| None).collect();
    for (tag, r) in by_tag.into_iter().enumerate() {
        match stream_of_tag[tag] {
            Some(s) if s >= 0 && (s as usize) < n && outcomes[s as usize].is_none() => outcomes[s as usize] = Some(r),
            other => problems.push(format!("request {} was given stream id {:?} (expected a fresh id below {})", tag, other, n)),
        }
    }
    let outcomes = outcomes.into_iter().map(|o| o.unwrap_or_else(|| Err("unassigned".to_owned()))).collect();
    ReaderRun { broken, outcomes, problems }
}

/// The model-independent oracle on one run.
fn judge(run: &ReaderRun, what: &str, orc: &mut Vec<String>) {
    for p in &run.problems {
        orc.push(format!("{}: {}", what, p));
    }
    let Some(label) = &run.broken else {
        orc.push(format!(
            "{}: the router ended WITHOUT reporting the error that broke the connection (the reader task crashed instead of returning an error)",
            what
        ));
        return;
    };
    if label != "FrameHeaderParseError" && label != "UnexpectedStreamId" {
        orc.push(format!("{}: the reader broke the connection with {}, which no response bytes can cause here", what, label));
    }
    let want = format!("Broken:{}", label);
    for (k, o) in run.outcomes.iter().enumerate() {
        match o {
            Ok(r) => {
                if r.stream as usize != k {
                    orc.push(format!("{}: the request on stream {} was handed a response that arrived on stream {}", what, k, r.stream));
                }
            }
            Err(e) if *e == want => {}
            Err(e) => orc.push(format!("{}: the request on stream {} ended with {} instead of the connection's error {}", what, k, e, want)),
        }
    }
}

fn rt() -> tokio::runtime::Runtime {
    tokio::runtime::Builder::new_current_thread().enable_all().build().unwrap()
}

pub fn run_r(n: usize, wire: Vec<u8>) -> (String, Vec<String>) {
    let rt = rt();
    let run = rt.block_on(reader_run(n, &wire));
    rt.shutdown_timeout(Duration::from_millis(100));
    let mut orc = vec![];
    judge(&run, "reader", &mut orc);
    let mut line = format!("rd broken={}", run.broken.as_deref().unwrap_or("NONE"));
    for (k, o) in run.outcomes.iter().enumerate() {
        match o {
            Ok(r) => line.push_str(&format!(" {}=ok:{}:{}:{}:{}", k, r.stream, r.flags, r.opcode, if r.body.is_empty() { "-".to_owned() } else { hex(&r.body) })),
            Err(e) => line.push_str(&format!(" {}=err:{}", k, e)),
        }
    }
    (line, orc)
}

pub fn run_sweep(n: usize, lo: i32, cnt: usize) -> (String, Vec<String>) {
    let rt = rt();
    let mut orc = vec![];
    let (mut unexpected, mut delivered, mut closed, mut other) = (0usize, 0usize, 0usize, 0usize);
    rt.block_on(async {
        for i in 0..cnt {
            let s = (lo + i as i32) as i16;
            let frame = crate::c08gen::frame_bytes(0, s, 0x08, &[]);
            let run = reader_run(n, &frame).await;
            let what = format!("response header with stream id {}", s);
            let before = orc.len();
            judge(&run, &what, &mut orc);
            // what `Connection::reader` says about this frame, straight from its text: negative = not a response;
            // an id somebody waits on = that request's response; any other id = UnexpectedStreamId for everybody
            let oks = run.outcomes.iter().filter(|o| o.is_ok()).count();
            let label = run.broken.as_deref().unwrap_or("NONE");
            let class = if s < 0 || (s as usize) < n { "FrameHeaderParseError" } else { "UnexpectedStreamId" };
            let want_oks = if s >= 0 && (s as usize) < n { 1 } else { 0 };
            if orc.len() == before && (label != class || oks != want_oks) {
                orc.push(format!("{}: connection ended with {} and {} delivered responses, expected {} and {}", what, label, oks, class, want_oks));
            }
            match (label, oks) {
                ("UnexpectedStreamId", 0) => unexpected += 1,
                ("FrameHeaderParseError", 1) => delivered += 1,
                ("FrameHeaderParseError", 0) => closed += 1,
                _ => other += 1,
            }
            if orc.len() > 40 {
                break;
            }
        }
    });
    rt.shutdown_timeout(Duration::from_millis(100));
    (format!("sweep unexpected={} delivered={} closed={} other={}", unexpected, delivered, closed, other), orc)
}

pub fn run_lookups(n: usize, lo: i32, cnt: usize) -> (String, Vec<String>) {
    let mut orc = vec![];
    let mut map = StreamMap::new();
    for r in 0..n {
        map.allocate(r as u64);
    }
    let (mut handler, mut missing, mut panics) = (0usize, 0usize, 0usize);
    let prev = std::panic::take_hook();
    std::panic::set_hook(Box::new(|_| {}));
    for i in 0..cnt {
        let s = (lo + i as i32) as i16;
        match std::panic::catch_unwind(std::panic::AssertUnwindSafe(|| map.lookup(s))) {
            Ok(Lookup::Handler(_)) => handler += 1,
            Ok(Lookup::Missing) => missing += 1,
            Ok(Lookup::Orphaned) => orc.push(format!("lookup({}) = Orphaned, but nothing was orphaned", s)),
            Err(_) => {
                panics += 1;
                // a negative id never reaches lookup (the reader tests it first); any other id comes from the network
                if s >= 0 && orc.len() < 40 {
                    orc.push(format!("panic: ResponseHandlerMap::lookup({}) panicked (a stream id a response header can carry)", s));
                }
            }
        }
    }
    std::panic::set_hook(prev);
    (format!("lk handler={} missing={} panic={}", handler, missing, panics), orc)
}

pub fn parse_args(w: &[&str]) -> Option<(usize, i32, usize)> {
    let (n, lo, cnt) = (w[1].parse::<usize>().ok()?, w[2].parse::<i32>().ok()?, w[3].parse::<usize>().ok()?);
    if n > 64 || lo < -32768 || lo as i64 + cnt as i64 > 32768 || cnt > 4096 {
        return None;
    }
    Some((n, lo, cnt))
}

pub fn parse_r(w: &[&str]) -> Option<(usize, Vec<u8>)> {
    let n = w[1].parse::<usize>().ok()?;
    if n > 64 {
        return None;
    }
    let wire = if w[2] == "-" { vec![] } else { unhex(w[2])? };
    Some((n, wire))
}

pub fn generate(rng: &mut Rng, tier: Tier, emit: &mut dyn FnMut(String)) {
    let scale = if tier == Tier::Quick { 1 } else { 8 };
    // EVERY i16 through the real `ResponseHandlerMap::lookup` (negative ids: the model's panic site is compared too)
    for lo in (-32768i32..32768).step_by(2048) {
        emit(format!("k {} {} 2048", *rng.pick(&[0usize, 1, 3, 64]), lo));
    }
    // through the real reader: the whole last bitmap word and both ends of every word with 2 requests in flight, the
    // ids around the requests in flight and around -1, and random windows (thorough: every non-negative id)
    emit("R 2 32704 64".to_owned());
    emit("R 0 32640 128".to_owned());
    emit("R 3 -4 12".to_owned());
    emit("R 64 56 16".to_owned());
    emit("R 1 -32768 8".to_owned());
    for word in (0..512i32).step_by(if tier == Tier::Quick { 8 } else { 1 }) {
        if word < 511 {
            emit(format!("R 2 {} 2", word * 64 + 63)); // last id of a word and first of the next
        }
    }
    emit("R 2 32767 1".to_owned());
    if tier != Tier::Quick {
        for lo in (0..32768i32).step_by(512) {
            emit(format!("R 1 {} 512", lo));
        }
    }
    for _ in 0..24 * scale {
        let lo = rng.range(-32768, 32767 - 16) as i32;
        emit(format!("R {} {} 16", rng.below(4), lo));
    }
    // frame sequences: responses for waiting requests in any order, repeated ids, negative ids, unsolicited ids from
    // the boundary pool, every opcode / flag, small bodies, then EOF / a truncated frame / a bad header
    let opcodes = [0x00u8, 0x02, 0x03, 0x06, 0x08, 0x0C, 0x0E, 0x10];
    for _ in 0..1500 * scale {
        let n = *rng.pick(&[0usize, 1, 2, 3, 5, 8]);
        let frames = 1 + rng.below(4);
        let mut wire = vec![];
        for _ in 0..frames {
            let s: i16 = match rng.below(10) {
                0..=3 if n > 0 => rng.below(n as u64) as i16,
                4 => *rng.pick(&[-32768i16, -32767, -3, -2, -1, -1]),
                5 => *rng.pick(&[0i16, 1, 62, 63, 64, 65, 127, 128, 4095, 4096, 16383, 16384, 32639, 32640, 32703, 32704, 32705, 32766, 32767]),
                6 => n as i16,
                7 => rng.range(32704, 32767) as i16,
                8 => rng.range(-32768, -1) as i16,
                _ => rng.range(0, 32767) as i16,
            };
            let blen = rng.below(12) as usize;
            let body = rng.bytes(blen);
            wire.extend_from_slice(&crate::c08gen::frame_bytes(rng.next() as u8, s, *rng.pick(&opcodes), &body));
        }
        match rng.below(8) {
            0 => {
                // a frame cut short
                let cut = rng.below(wire.len() as u64 + 1) as usize;
                wire.truncate(cut);
            }
            1 => wire.extend_from_slice(&[0x04, 0, 0, 0, 0x08, 0, 0, 0, 0]), // request-direction version byte
            2 => wire.extend_from_slice(&[0x84, 0, 0x7F, 0xFF, 0x55, 0, 0, 0, 0]), // unknown opcode on stream 32767
            3 => wire.extend_from_slice(&rng.bytes(9)),
            _ => {}
        }
        emit(format!("r {} {}", n, if wire.is_empty() { "-".to_owned() } else { hex(&wire) }));
    }
    // the seed's own frame (READY on stream 32767) with 0 / 3 requests waiting
    emit("r 0 84007fff0200000000".to_owned());
    emit("r 3 84007fff0200000000".to_owned());
    emit("r 3 8400000108000000012a84007fc00800000000".to_owned());
}

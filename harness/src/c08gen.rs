//! C08 — case generation: an encoder of the CQL v4 response formats written from the protocol specification
//! (independent of the driver's decoders) that produces, together with the bytes, the canonical line the decoded
//! value must print as; truncations; field-aware mutations; random bytes; deep nesting; custom type strings.
use crate::c08::{canon_map, fnv, lst, opt_hex, tup};
use crate::rng::Rng;
use crate::util::hex;
use crate::Tier;
use scylla_cql::frame::types;

/// Positions of length / count / flag / id fields inside an encoded body (targets of field-aware mutation).
#[derive(Clone, Copy)]
pub struct Mark {
    pub off: usize,
    pub w: u8,
}

#[derive(Default, Clone)]
pub struct B {
    pub out: Vec<u8>,
    pub marks: Vec<Mark>,
}

impl B {
    fn u8(&mut self, v: u8) {
        self.marks.push(Mark { off: self.out.len(), w: 1 });
        self.out.push(v);
    }
    fn short(&mut self, v: u16) {
        self.marks.push(Mark { off: self.out.len(), w: 2 });
        self.out.extend_from_slice(&v.to_be_bytes());
    }
    fn int(&mut self, v: i32) {
        self.marks.push(Mark { off: self.out.len(), w: 4 });
        self.out.extend_from_slice(&v.to_be_bytes());
    }
    fn raw(&mut self, b: &[u8]) {
        self.out.extend_from_slice(b);
    }
    /// [string]; returns its canonical form
    fn string(&mut self, s: &[u8]) -> String {
        self.short(s.len() as u16);
        self.raw(s);
        hex(s)
    }
    fn short_bytes(&mut self, s: &[u8]) -> String {
        self.string(s)
    }
    fn bytes(&mut self, s: &[u8]) -> String {
        self.int(s.len() as i32);
        self.raw(s);
        hex(s)
    }
    fn bytes_opt(&mut self, s: Option<&[u8]>) -> String {
        match s {
            None => {
                self.int(-1);
                "none".into()
            }
            Some(b) => self.bytes(b),
        }
    }
    fn string_list(&mut self, l: &[Vec<u8>]) -> Vec<String> {
        self.short(l.len() as u16);
        l.iter().map(|s| self.string(s)).collect()
    }
}

// ---------------------------------------------------------------------------------------------
// random atoms
// ---------------------------------------------------------------------------------------------

fn ident(rng: &mut Rng) -> Vec<u8> {
    match rng.below(12) {
        0 => vec![],
        1 => "zażółć€𝄞".as_bytes().to_vec(),
        2 => {
            let n = *rng.pick(&[15usize, 16, 17, 31, 32, 33, 255, 256, 300]);
            (0..n).map(|i| b'a' + (i % 26) as u8).collect()
        }
        _ => {
            let n = rng.range(1, 8) as usize;
            (0..n).map(|_| *rng.pick(b"abcdefghijklmnopqrstuvwxyz_0123456789ABC")).collect()
        }
    }
}

fn blob(rng: &mut Rng) -> Vec<u8> {
    match rng.below(6) {
        0 => vec![],
        1 => {
            let n = *rng.pick(&[1usize, 15, 16, 17, 33, 100]);
            rng.bytes(n)
        }
        _ => {
            let n = rng.below(9) as usize;
            rng.bytes(n)
        }
    }
}

fn some_i32(rng: &mut Rng) -> i32 {
    match rng.below(4) {
        0 => *rng.pick(&[0, 1, -1, i32::MIN, i32::MAX, 65535, 65536]),
        1 => rng.range(-5, 300) as i32,
        _ => rng.next() as i32,
    }
}

// ---------------------------------------------------------------------------------------------
// types
// ---------------------------------------------------------------------------------------------

const NATIVES: [(u16, &str, &str); 20] = [
    (0x01, "ascii", "AsciiType"),
    (0x02, "bigint", "LongType"),
    (0x03, "blob", "BytesType"),
    (0x04, "boolean", "BooleanType"),
    (0x05, "counter", "CounterColumnType"),
    (0x06, "decimal", "DecimalType"),
    (0x07, "double", "DoubleType"),
    (0x08, "float", "FloatType"),
    (0x09, "int", "Int32Type"),
    (0x0B, "timestamp", "TimestampType"),
    (0x0C, "uuid", "UUIDType"),
    (0x0D, "text", "UTF8Type"),
    (0x0E, "varint", "IntegerType"),
    (0x0F, "timeuuid", "TimeUUIDType"),
    (0x10, "inet", "InetAddressType"),
    (0x11, "date", "SimpleDateType"),
    (0x12, "time", "TimeType"),
    (0x13, "smallint", "ShortType"),
    (0x14, "tinyint", "ByteType"),
    (0x15, "duration", "DurationType"),
];
const EXTRA_SIMPLE: [(&str, &str); 3] = [("DateType", "date"), ("SmallIntType", "smallint"), ("TinyIntType", "tinyint")];
const MARSHAL: &str = "org.apache.cassandra.db.marshal.";

/// Shape of a generated type, kept so that cells of that type can be generated.
#[derive(Clone, Debug)]
pub enum Shape {
    Native(&'static str),
    Coll(Box<Shape>),
    Map(Box<Shape>, Box<Shape>),
    Tuple(Vec<Shape>),
    Vector(Box<Shape>, u16),
}

fn sep(rng: &mut Rng) -> &'static str {
    *rng.pick(&[",", ", ", " ", " , ", ","])
}

/// A well-formed custom type string (class-name syntax) appended to `s`; returns (canonical type, shape).
/// `frozen`: inside a `FrozenType(` (freezing flows down to every nested collection / UDT).
fn gen_custom(rng: &mut Rng, depth: u32, frozen: bool, s: &mut String) -> (String, Shape) {
    let f = if frozen { "f" } else { "" };
    if rng.chance(1, 8) {
        s.push_str(*rng.pick(&["1f:", "0:", "+a0:", "deadBEEF:"]));
    }
    if rng.bool() {
        s.push_str(MARSHAL);
    }
    let k = if depth == 0 { 0 } else { rng.below(9) };
    match k {
        1 | 2 => {
            let (name, cname) = if k == 1 { ("ListType", "list") } else { ("SetType", "set") };
            s.push_str(name);
            if rng.chance(1, 6) {
                s.push(' ');
            }
            s.push('(');
            let (c, sh) = gen_custom(rng, depth - 1, frozen, s);
            s.push(')');
            (format!("{}{}<{}>", f, cname, c), Shape::Coll(Box::new(sh)))
        }
        3 => {
            s.push_str("MapType(");
            let (k, ks) = gen_custom(rng, depth - 1, frozen, s);
            s.push_str(sep(rng));
            let (v, vs) = gen_custom(rng, depth - 1, frozen, s);
            s.push(')');
            (format!("{}map<{},{}>", f, k, v), Shape::Map(Box::new(ks), Box::new(vs)))
        }
        4 => {
            s.push_str("TupleType(");
            let n = rng.range(1, 3);
            let mut cs = vec![];
            let mut shs = vec![];
            for i in 0..n {
                if i > 0 {
                    s.push_str(sep(rng));
                }
                let (c, sh) = gen_custom(rng, depth - 1, frozen, s);
                cs.push(c);
                shs.push(sh);
            }
            s.push(')');
            (format!("tuple<{}>", cs.join(",")), Shape::Tuple(shs))
        }
        5 => {
            s.push_str("VectorType(");
            let (c, sh) = gen_custom(rng, depth - 1, frozen, s);
            let dim = *rng.pick(&[1u16, 1, 2, 3, 65535]); // 0 is rejected since fix 2a278cb
            s.push_str(sep(rng));
            s.push_str(&format!("{}{})", if rng.chance(1, 5) { "00" } else { "" }, dim));
            (format!("vector<{},{}>", c, dim), Shape::Vector(Box::new(sh), dim))
        }
        6 => {
            s.push_str("UserType(");
            // (an empty keyspace cannot be written: the parser would take the type name for it)
            let ks: String = (0..rng.range(1, 5)).map(|_| *rng.pick(b"abck_1.") as char).collect();
            let mut name = ident(rng);
            if name.is_empty() {
                name = b"n".to_vec(); // likewise an empty type name is only expressible before a comma
            }
            s.push_str(&ks);
            s.push(',');
            s.push_str(&hex_plain(&name));
            let n = rng.below(3);
            let mut fs = vec![];
            let mut shs = vec![];
            for _ in 0..n {
                s.push_str(sep(rng));
                let fname = ident(rng);
                s.push_str(&hex_plain(&fname));
                s.push(':');
                let (c, sh) = gen_custom(rng, depth - 1, frozen, s);
                fs.push(format!("{}:{}", hex(&fname), c));
                shs.push(sh);
            }
            s.push(')');
            (format!("{}udt({},{}){{{}}}", f, hex(ks.as_bytes()), hex(&name), fs.join(",")), Shape::Tuple(shs))
        }
        7 => {
            s.push_str("FrozenType(");
            let r = gen_custom(rng, depth - 1, true, s);
            s.push(')');
            r
        }
        _ => {
            if rng.chance(1, 6) {
                let (n, c) = *rng.pick(&EXTRA_SIMPLE);
                s.push_str(n);
                (c.to_owned(), Shape::Native(c))
            } else {
                let (_, c, n) = *rng.pick(&NATIVES);
                s.push_str(n);
                (c.to_owned(), Shape::Native(c))
            }
        }
    }
}

fn hex_plain(b: &[u8]) -> String {
    let h = hex(b);
    if h == "-" { String::new() } else { h }
}

/// A well-formed binary type description appended to `b`; returns (canonical type, shape).
fn gen_type(rng: &mut Rng, depth: u32, b: &mut B) -> (String, Shape) {
    let k = if depth == 0 { 0 } else { rng.below(12) };
    match k {
        1 | 2 => {
            b.short(if k == 1 { 0x20 } else { 0x22 });
            let (c, sh) = gen_type(rng, depth - 1, b);
            (format!("{}<{}>", if k == 1 { "list" } else { "set" }, c), Shape::Coll(Box::new(sh)))
        }
        3 => {
            b.short(0x21);
            let (k, ks) = gen_type(rng, depth - 1, b);
            let (v, vs) = gen_type(rng, depth - 1, b);
            (format!("map<{},{}>", k, v), Shape::Map(Box::new(ks), Box::new(vs)))
        }
        4 => {
            b.short(0x31);
            let n = rng.below(4);
            b.short(n as u16);
            let mut cs = vec![];
            let mut shs = vec![];
            for _ in 0..n {
                let (c, sh) = gen_type(rng, depth - 1, b);
                cs.push(c);
                shs.push(sh);
            }
            (format!("tuple<{}>", cs.join(",")), Shape::Tuple(shs))
        }
        5 => {
            b.short(0x30);
            let ks = b.string(&ident(rng));
            let name = b.string(&ident(rng));
            let n = rng.below(4);
            b.short(n as u16);
            let mut fs = vec![];
            let mut shs = vec![];
            for _ in 0..n {
                let fname = b.string(&ident(rng));
                let (c, sh) = gen_type(rng, depth - 1, b);
                fs.push(format!("{}:{}", fname, c));
                shs.push(sh);
            }
            (format!("udt({},{}){{{}}}", ks, name, fs.join(",")), Shape::Tuple(shs))
        }
        6 => {
            b.short(0);
            let mut s = String::new();
            let r = gen_custom(rng, depth.min(3), false, &mut s);
            b.string(s.as_bytes());
            r
        }
        _ => {
            let (id, c, _) = *rng.pick(&NATIVES);
            b.short(id);
            (c.to_owned(), Shape::Native(c))
        }
    }
}

/// The body of a cell of the given shape (mostly valid; typed decoding is only driven for the crash oracle).
fn gen_value(rng: &mut Rng, sh: &Shape) -> Vec<u8> {
    fn cell(rng: &mut Rng, sh: &Shape, out: &mut Vec<u8>) {
        if rng.chance(1, 10) {
            out.extend_from_slice(&(-1i32).to_be_bytes());
        } else {
            let v = gen_value(rng, sh);
            out.extend_from_slice(&(v.len() as i32).to_be_bytes());
            out.extend_from_slice(&v);
        }
    }
    match sh {
        Shape::Native(n) => {
            let len = match *n {
                "int" | "float" | "date" => 4,
                "bigint" | "double" | "timestamp" | "time" | "counter" => 8,
                "boolean" | "tinyint" => 1,
                "smallint" => 2,
                "uuid" | "timeuuid" => 16,
                "inet" => *rng.pick(&[4usize, 16]),
                "duration" => 3,
                "decimal" => 5,
                "ascii" | "text" => return ident(rng).into_iter().filter(|b| *b < 0x80).collect(),
                _ => rng.below(6) as usize,
            };
            let mut v = rng.bytes(len);
            if *n == "duration" {
                v = vec![2, 4, 6];
            }
            v
        }
        Shape::Coll(e) => {
            let n = rng.below(3) as i32;
            let mut out = n.to_be_bytes().to_vec();
            for _ in 0..n {
                cell(rng, e, &mut out);
            }
            out
        }
        Shape::Map(k, v) => {
            let n = rng.below(3) as i32;
            let mut out = n.to_be_bytes().to_vec();
            for _ in 0..n {
                cell(rng, k, &mut out);
                cell(rng, v, &mut out);
            }
            out
        }
        Shape::Tuple(fs) => {
            let mut out = vec![];
            for f in fs {
                cell(rng, f, &mut out);
            }
            out
        }
        Shape::Vector(e, dim) => {
            let mut out = vec![];
            for _ in 0..(*dim).min(3) {
                let v = gen_value(rng, e);
                out.extend_from_slice(&v);
            }
            out
        }
    }
}

// ---------------------------------------------------------------------------------------------
// response bodies
// ---------------------------------------------------------------------------------------------

#[derive(Clone, Copy)]
pub struct Feats {
    pub rl: Option<i32>,
    pub lwt: Option<u32>,
    pub tab: bool,
    pub mid: bool,
}

fn gen_feats(rng: &mut Rng) -> Feats {
    Feats {
        rl: if rng.bool() { Some(*rng.pick(&[0x4321, 0x1000, 0x0000, -7, 0x2500])) } else { None },
        lwt: if rng.chance(1, 3) { Some(*rng.pick(&[0x80000000u32, 1, 0])) } else { None },
        tab: rng.bool(),
        mid: rng.bool(),
    }
}

/// Column specs (`count` of them) with an optional global table spec; returns (canonical cols, shapes).
fn gen_cols(rng: &mut Rng, b: &mut B, global: bool, count: usize, depth: u32) -> (Vec<String>, Vec<Shape>) {
    let mut gts = (String::new(), String::new());
    if global {
        gts = (b.string(&ident(rng)), b.string(&ident(rng)));
    }
    let mut cols = vec![];
    let mut shapes = vec![];
    for _ in 0..count {
        let ts = if global { gts.clone() } else { (b.string(&ident(rng)), b.string(&ident(rng))) };
        let name = b.string(&ident(rng));
        let (c, sh) = gen_type(rng, depth, b);
        cols.push(format!("{}.{}.{}:{}", ts.0, ts.1, name, c));
        shapes.push(sh);
    }
    (cols, shapes)
}

fn gen_schema_change(rng: &mut Rng, b: &mut B) -> String {
    let ct = *rng.pick(&["CREATED", "UPDATED", "DROPPED", "RENAMED", ""]);
    let c = match ct {
        "CREATED" => "C",
        "UPDATED" => "U",
        "DROPPED" => "D",
        _ => "I",
    };
    b.string(ct.as_bytes());
    let target = *rng.pick(&["KEYSPACE", "TABLE", "TYPE", "FUNCTION", "AGGREGATE"]);
    b.string(target.as_bytes());
    let ks = b.string(&ident(rng));
    match target {
        "KEYSPACE" => format!("{} KEYSPACE {}", c, ks),
        "TABLE" | "TYPE" => {
            let n = b.string(&ident(rng));
            format!("{} {} {} {}", c, target, ks, n)
        }
        _ => {
            let n = b.string(&ident(rng));
            let args: Vec<Vec<u8>> = (0..rng.below(4)).map(|_| ident(rng)).collect();
            let a = b.string_list(&args);
            format!("{} {} {} {} {}", c, target, ks, n, lst(&a))
        }
    }
}

fn gen_inet(rng: &mut Rng, b: &mut B) -> String {
    let iplen = if rng.bool() { 4 } else { 16 };
    let ip = rng.bytes(iplen);
    b.u8(ip.len() as u8);
    b.raw(&ip);
    let port = *rng.pick(&[0i32, 1, 9042, 65535, 19042]);
    b.int(port);
    format!("{}:{}", hex(&ip), port)
}

const ERROR_CODES: [i32; 21] = [
    0x0000, 0x000A, 0x0100, 0x1000, 0x1001, 0x1002, 0x1003, 0x1100, 0x1200, 0x1300, 0x1400, 0x1500, 0x2000, 0x2100, 0x2200,
    0x2300, 0x2400, 0x2500, 0x4321, 0x7777, -1,
];
const CONSISTENCIES: [u16; 11] = [0, 1, 2, 3, 4, 5, 6, 7, 8, 9, 10];
const WRITE_TYPES: [&str; 10] = ["SIMPLE", "BATCH", "UNLOGGED_BATCH", "COUNTER", "BATCH_LOG", "CAS", "VIEW", "CDC", "WEIRD", ""];

fn gen_error(rng: &mut Rng, b: &mut B, f: &Feats) -> String {
    let code = if rng.chance(1, 6) { f.rl.unwrap_or(0x4321) } else { *rng.pick(&ERROR_CODES) };
    b.int(code);
    let reason = b.string(&ident(rng));
    let mut fl: Vec<String> = vec![];
    let cons = |rng: &mut Rng, b: &mut B| {
        let c = *rng.pick(&CONSISTENCIES);
        b.short(c);
        c.to_string()
    };
    let int = |rng: &mut Rng, b: &mut B| {
        let v = some_i32(rng);
        b.int(v);
        v.to_string()
    };
    let boolean = |rng: &mut Rng, b: &mut B| {
        let v = *rng.pick(&[0u8, 1, 2, 255]);
        b.u8(v);
        if v != 0 { "1".to_owned() } else { "0".to_owned() }
    };
    let wt = |rng: &mut Rng, b: &mut B| {
        let w = *rng.pick(&WRITE_TYPES);
        b.string(w.as_bytes())
    };
    let name = match code {
        0x0000 => "ServerError",
        0x000A => "ProtocolError",
        0x0100 => "AuthenticationError",
        0x1000 => {
            fl = vec![cons(rng, b), int(rng, b), int(rng, b)];
            "Unavailable"
        }
        0x1001 => "Overloaded",
        0x1002 => "IsBootstrapping",
        0x1003 => "TruncateError",
        0x1100 => {
            fl = vec![cons(rng, b), int(rng, b), int(rng, b), wt(rng, b)];
            "WriteTimeout"
        }
        0x1200 => {
            fl = vec![cons(rng, b), int(rng, b), int(rng, b), boolean(rng, b)];
            "ReadTimeout"
        }
        0x1300 => {
            fl = vec![cons(rng, b), int(rng, b), int(rng, b), int(rng, b), boolean(rng, b)];
            "ReadFailure"
        }
        0x1400 => {
            let ks = b.string(&ident(rng));
            let fun = b.string(&ident(rng));
            let args: Vec<Vec<u8>> = (0..rng.below(4)).map(|_| ident(rng)).collect();
            fl = vec![ks, fun, tup(&b.string_list(&args))];
            "FunctionFailure"
        }
        0x1500 => {
            fl = vec![cons(rng, b), int(rng, b), int(rng, b), int(rng, b), wt(rng, b)];
            "WriteFailure"
        }
        0x2000 => "SyntaxError",
        0x2100 => "Unauthorized",
        0x2200 => "Invalid",
        0x2300 => "ConfigError",
        0x2400 => {
            fl = vec![b.string(&ident(rng)), b.string(&ident(rng))];
            "AlreadyExists"
        }
        0x2500 => {
            fl = vec![b.short_bytes(&blob(rng))];
            "Unprepared"
        }
        c if Some(c) == f.rl => {
            let op = *rng.pick(&[0u8, 1, 2, 200]);
            b.u8(op);
            fl = vec![op.to_string(), boolean(rng, b)];
            "RateLimitReached"
        }
        _ => "Other",
    };
    if rng.chance(1, 5) {
        b.raw(&rng.bytes(3)); // trailing bytes are ignored by the decoder
    }
    format!("ERROR {} code={} reason={} {}", name, code, reason, lst(&fl))
}

fn gen_event(rng: &mut Rng, b: &mut B) -> String {
    match rng.below(4) {
        0 => {
            b.string(b"TOPOLOGY_CHANGE");
            let c = *rng.pick(&["NEW_NODE", "REMOVED_NODE"]);
            b.string(c.as_bytes());
            format!("EVENT TOPO {} {}", hex(c.as_bytes()), gen_inet(rng, b))
        }
        1 => {
            b.string(b"STATUS_CHANGE");
            let c = *rng.pick(&["UP", "DOWN"]);
            b.string(c.as_bytes());
            format!("EVENT STATUS {} {}", hex(c.as_bytes()), gen_inet(rng, b))
        }
        2 => {
            b.string(b"SCHEMA_CHANGE");
            format!("EVENT SCHEMA {}", gen_schema_change(rng, b))
        }
        _ => {
            b.string(b"CLIENT_ROUTES_CHANGE");
            b.string(b"UPDATE_NODES");
            let n = rng.below(4) as usize;
            let conns: Vec<Vec<u8>> = (0..n).map(|_| ident(rng)).collect();
            let c = b.string_list(&conns);
            b.short(n as u16);
            let mut hs = vec![];
            for _ in 0..n {
                let u = rng.bytes(16);
                let h = hex(&u);
                let hy = format!("{}-{}-{}-{}-{}", &h[0..8], &h[8..12], &h[12..16], &h[16..20], &h[20..32]);
                let s = match rng.below(5) {
                    0 => h.clone(),
                    1 => hy.to_uppercase(),
                    2 => format!("{{{}}}", hy),
                    3 => format!("urn:uuid:{}", hy),
                    _ => hy,
                };
                b.string(s.as_bytes());
                hs.push(h);
            }
            format!("EVENT ROUTES {} {}", lst(&c), lst(&hs))
        }
    }
}

/// Result metadata as it appears inside PREPARED (flags, col count, [paging], [new id], [gts], cols).
fn gen_result_metadata_in_prepared(rng: &mut Rng, b: &mut B, f: &Feats, id: Option<String>) -> String {
    let global = rng.bool();
    let no_meta = rng.chance(1, 5);
    let changed = f.mid && !no_meta && rng.chance(1, 3);
    let mut flags = 0i32;
    if global {
        flags |= 1;
    }
    if no_meta {
        flags |= 4;
    }
    if changed || (!f.mid && rng.chance(1, 4)) {
        flags |= 8; // without the feature the bit is ignored
    }
    if rng.chance(1, 6) {
        flags |= *rng.pick(&[0x10, 0x100, i32::MIN]);
    }
    b.int(flags);
    let n = rng.below(4) as usize;
    b.int(n as i32);
    if changed {
        b.short_bytes(&blob(rng)); // overridden by the id of PREPARED itself
    }
    let cols = if no_meta { vec![] } else { gen_cols(rng, b, global, n, 3).0 };
    format!("meta{{id={} cc={} cols={}}}", id.unwrap_or("none".into()), n, lst(&cols))
}

pub struct Gen {
    pub opcode: u8,
    pub body: B,
    pub canon: String,
}

fn gen_response(rng: &mut Rng, f: &Feats, cached: bool) -> Gen {
    let mut b = B::default();
    let kind = rng.below(16);
    let (opcode, canon) = match kind {
        0 | 1 => (0x00, gen_error(rng, &mut b, f)),
        2 => (0x02, "READY".to_owned()),
        3 => (0x03, format!("AUTHENTICATE {}", b.string(&ident(rng)))),
        4 => {
            let n = rng.below(5);
            b.short(n as u16);
            let mut kvs = vec![];
            for _ in 0..n {
                let k = if rng.chance(1, 6) { b"dup".to_vec() } else { ident(rng) };
                let k = b.string(&k);
                let vals: Vec<Vec<u8>> = (0..rng.below(4)).map(|_| ident(rng)).collect();
                let v = tup(&b.string_list(&vals));
                kvs.push((k, v));
            }
            (0x06, format!("SUPPORTED {}", canon_map(&kvs)))
        }
        5 => (0x0C, gen_event(rng, &mut b)),
        6 => {
            let m = if rng.chance(1, 4) { None } else { Some(blob(rng)) };
            (0x0E, format!("AUTH_CHALLENGE {}", b.bytes_opt(m.as_deref())))
        }
        7 => {
            let m = if rng.chance(1, 4) { None } else { Some(blob(rng)) };
            (0x10, format!("AUTH_SUCCESS {}", b.bytes_opt(m.as_deref())))
        }
        8 => {
            b.int(1);
            (0x08, "RESULT VOID".to_owned())
        }
        9 => {
            b.int(3);
            (0x08, format!("RESULT SETKS {}", b.string(&ident(rng))))
        }
        10 => {
            b.int(5);
            (0x08, format!("RESULT SCHEMA {}", gen_schema_change(rng, &mut b)))
        }
        11 | 12 => {
            b.int(4);
            let id = b.short_bytes(&blob(rng));
            let rmid = if f.mid { Some(b.short_bytes(&blob(rng))) } else { None };
            // prepared metadata
            let global = rng.bool();
            let flags = if global { 1 } else { 0 } | if rng.chance(1, 5) { *rng.pick(&[2, 4, 0x40, i32::MIN]) } else { 0 };
            b.int(flags);
            let n = rng.below(4) as usize;
            b.int(n as i32);
            let pkn = rng.below(4) as usize;
            b.int(pkn as i32);
            let mut pk: Vec<(u16, u16)> = vec![];
            for i in 0..pkn {
                let idx = *rng.pick(&[0u16, 1, 2, 3, 3, 65535]);
                b.short(idx);
                pk.push((idx, i as u16));
            }
            pk.sort();
            let (cols, _) = gen_cols(rng, &mut b, global, n, 3);
            let pm = format!(
                "pm{{flags={} cc={} pk={} cols={}}}",
                flags,
                n,
                lst(&pk.iter().map(|(i, s)| format!("{}:{}", i, s)).collect::<Vec<_>>()),
                lst(&cols)
            );
            let rm = gen_result_metadata_in_prepared(rng, &mut b, f, rmid);
            (0x08, format!("RESULT PREPARED id={} {} r{}", id, pm, rm))
        }
        _ => {
            b.int(2);
            let global = rng.bool();
            let no_meta = rng.chance(1, 6);
            let changed = f.mid && !no_meta && rng.chance(1, 3);
            let more = rng.chance(1, 3);
            let mut flags = 0i32;
            if global {
                flags |= 1;
            }
            if more {
                flags |= 2;
            }
            if no_meta {
                flags |= 4;
            }
            if changed || (!f.mid && rng.chance(1, 4)) {
                flags |= 8;
            }
            b.int(flags);
            let n = rng.below(4) as usize;
            b.int(n as i32);
            let ps = if more { b.bytes(&blob(rng)) } else { "none".to_owned() };
            let (src, meta, shapes): (&str, String, Vec<Shape>) = if no_meta {
                if cached {
                    (
                        "cached",
                        format!("meta{{id=none cc=2 cols=[{}.{}.{}:int;{}.{}.{}:text]}}", hex(b"ks"), hex(b"t"), hex(b"a"), hex(b"ks"), hex(b"t"), hex(b"b")),
                        vec![Shape::Native("int"), Shape::Native("text")],
                    )
                } else {
                    ("empty", "meta{id=none cc=0 cols=[]}".to_owned(), vec![])
                }
            } else {
                let id = if changed { Some(b.short_bytes(&blob(rng))) } else { None };
                let (cols, shapes) = gen_cols(rng, &mut b, global, n, 3);
                ("parsed", format!("meta{{id={} cc={} cols={}}}", id.unwrap_or("none".into()), n, lst(&cols)), shapes)
            };
            let rc = rng.below(4) as usize;
            b.int(rc as i32);
            let mut rows = vec![];
            for _ in 0..rc {
                let mut cells = vec![];
                for sh in &shapes {
                    if rng.chance(1, 6) {
                        b.int(*rng.pick(&[-1, -1, -2, i32::MIN]));
                        cells.push("null".to_owned());
                    } else {
                        let v = if rng.chance(1, 8) { blob(rng) } else { gen_value(rng, sh) };
                        cells.push(b.bytes(&v));
                    }
                }
                rows.push(tup(&cells));
            }
            let rows_s = if shapes.is_empty() { format!("rows0={}", rc) } else { format!("rows={}", lst(&rows)) };
            (0x08, format!("RESULT ROWS ps={} src={} {} rc={} {}", ps, src, meta, rc, rows_s))
        }
    };
    Gen { opcode, body: b, canon }
}

// ---------------------------------------------------------------------------------------------
// frames and case lines
// ---------------------------------------------------------------------------------------------

pub fn frame_bytes(flags: u8, stream: i16, opcode: u8, body: &[u8]) -> Vec<u8> {
    let mut v = vec![0x84, flags];
    v.extend_from_slice(&stream.to_be_bytes());
    v.push(opcode);
    v.extend_from_slice(&(body.len() as u32).to_be_bytes());
    v.extend_from_slice(body);
    v
}

fn case_line(f: &Feats, cached: bool, comp: char, expect: Option<&str>, frame: &[u8]) -> String {
    if let (Some(e), true) = (expect, std::env::var_os("C08_DEBUG_EXPECT").is_some()) {
        eprintln!("{:016x} {}", fnv(e), e);
    }
    format!(
        "f {} {} {} {} {} {} {} {} {}",
        f.rl.map(|x| x.to_string()).unwrap_or("-".into()),
        f.lwt.map(|x| x.to_string()).unwrap_or("-".into()),
        f.tab as u8,
        f.mid as u8,
        cached as u8,
        comp,
        expect.map(|e| format!("{:016x}", fnv(e))).unwrap_or("-".into()),
        hex(frame),
        uni_table(frame)
    )
}

/// Classes (Rust's `char::is_alphanumeric` / `is_whitespace`) of every non-ASCII scalar that occurs at any byte
/// offset of the frame: a parameter of the model, which does not carry the Unicode tables.  `A` alphanumeric,
/// `W` whitespace; scalars of neither class are omitted.
pub fn uni_table(frame: &[u8]) -> String {
    let mut seen: Vec<(Vec<u8>, char)> = Vec::new();
    for i in 0..frame.len() {
        if frame[i] < 0xC2 {
            continue;
        }
        for k in 2..=4usize {
            if i + k > frame.len() {
                break;
            }
            if let Ok(st) = std::str::from_utf8(&frame[i..i + k]) {
                let mut it = st.chars();
                if let (Some(c), None) = (it.next(), it.next()) {
                    let cls = if c.is_alphanumeric() { 'A' } else if c.is_whitespace() { 'W' } else { 'O' };
                    if cls != 'O' && !seen.iter().any(|(b, _)| b == &frame[i..i + k]) {
                        seen.push((frame[i..i + k].to_vec(), cls));
                    }
                }
            }
        }
    }
    if seen.is_empty() {
        "-".to_owned()
    } else {
        seen.iter().map(|(b, c)| format!("{}:{}", hex(b), c)).collect::<Vec<_>>().join(",")
    }
}

/// Extensions (tracing id, warnings, custom payload) in front of `body`; returns (flags, ext+body, canon, marks shift).
fn with_ext(rng: &mut Rng, body: &B) -> (u8, B, String) {
    let mut b = B::default();
    let mut flags = 0u8;
    let mut t = "none".to_owned();
    let mut w = "[]".to_owned();
    let mut p = "none".to_owned();
    if rng.chance(1, 4) {
        flags |= 0x02;
        let u = rng.bytes(16);
        b.raw(&u);
        t = hex(&u);
    }
    if rng.chance(1, 4) {
        flags |= 0x08;
        let ws: Vec<Vec<u8>> = (0..rng.below(3)).map(|_| ident(rng)).collect();
        w = lst(&b.string_list(&ws));
    }
    if rng.chance(1, 4) {
        flags |= 0x04;
        let n = rng.below(3);
        b.short(n as u16);
        let mut kvs = vec![];
        for _ in 0..n {
            let tab = rng.chance(1, 3);
            let k = if tab { b"tablets-routing-v1".to_vec() } else { ident(rng) };
            let k = b.string(&k);
            let val = if tab && rng.chance(4, 5) { tablet_payload(rng) } else { blob(rng) };
            let v = b.bytes(&val);
            kvs.push((k, v));
        }
        p = canon_map(&kvs);
    }
    let shift = b.out.len();
    b.out.extend_from_slice(&body.out);
    b.marks.extend(body.marks.iter().map(|m| Mark { off: m.off + shift, w: m.w }));
    (flags, b, format!("t={} w={} p={}", t, w, p))
}

/// A tablets routing payload cell `tuple<bigint, bigint, list<tuple<uuid, int>>>`: mostly well-formed, with
/// boundary tokens (`first + 1` must not overflow), negative shards, nulls, short tuples and truncations.
fn tablet_payload(rng: &mut Rng) -> Vec<u8> {
    fn cell(out: &mut Vec<u8>, body: &[u8]) {
        out.extend_from_slice(&(body.len() as i32).to_be_bytes());
        out.extend_from_slice(body);
    }
    let a = *rng.pick(&[i64::MIN, i64::MIN + 1, -1, 0, 1, i64::MAX - 1, i64::MAX, 42]);
    let b = match rng.below(5) {
        0 => a,
        1 => a.wrapping_add(1),
        2 => i64::MAX,
        3 => i64::MIN,
        _ => a.wrapping_add(rng.range(-2, 1000)),
    };
    let mut out = vec![];
    cell(&mut out, &a.to_be_bytes());
    if rng.chance(1, 12) {
        return out; // short tuple
    }
    cell(&mut out, &b.to_be_bytes());
    if rng.chance(1, 12) {
        return out;
    }
    if rng.chance(1, 12) {
        out.extend_from_slice(&(-1i32).to_be_bytes()); // null list
        return out;
    }
    let n = rng.below(4) as i32;
    let mut list = (if rng.chance(1, 10) { *rng.pick(&[-1, n + 1, i32::MAX]) } else { n }).to_be_bytes().to_vec();
    for _ in 0..n {
        let mut el = vec![];
        let ulen = if rng.chance(1, 10) { 15 } else { 16 };
        cell(&mut el, &rng.bytes(ulen));
        let shard = *rng.pick(&[0i32, 1, 7, -1, i32::MAX, i32::MIN]);
        if rng.chance(1, 10) {
            el.extend_from_slice(&(-1i32).to_be_bytes());
        } else if !rng.chance(1, 12) {
            cell(&mut el, &shard.to_be_bytes());
        }
        cell(&mut list, &el);
    }
    cell(&mut out, &list);
    if rng.chance(1, 8) && !out.is_empty() {
        let cut = rng.below(out.len() as u64) as usize;
        out.truncate(cut);
    }
    out
}

struct WellFormed {
    f: Feats,
    cached: bool,
    flags: u8,
    stream: i16,
    opcode: u8,
    body: B,
    canon: String,
}

fn gen_wellformed(rng: &mut Rng) -> WellFormed {
    let f = gen_feats(rng);
    let cached = rng.chance(1, 3);
    let g = gen_response(rng, &f, cached);
    let (flags, body, ext) = with_ext(rng, &g.body);
    let stream = *rng.pick(&[0i16, 1, -1, 127, 32767, i16::MIN]);
    let canon = format!("h={},{},{} {} {}", flags, stream, g.opcode, ext, g.canon);
    WellFormed { f, cached, flags, stream, opcode: g.opcode, body, canon }
}

fn mutate_value(rng: &mut Rng, w: u8, old: &[u8]) -> Vec<u8> {
    match w {
        1 => vec![*rng.pick(&[0u8, 1, 4, 16, 255, old[0].wrapping_add(1), old[0].wrapping_sub(1)])],
        2 => {
            let o = u16::from_be_bytes([old[0], old[1]]);
            rng.pick(&[0u16, 1, 0xFFFF, 0x7FFF, 0x8000, o.wrapping_add(1), o.wrapping_sub(1), 0x20, 0x21, 0x22, 0x30, 0x31, 0x0A, 0x16, 0x00])
                .to_be_bytes()
                .to_vec()
        }
        _ => {
            let o = i32::from_be_bytes([old[0], old[1], old[2], old[3]]);
            rng.pick(&[0i32, -1, -2, i32::MAX, i32::MIN, 1, o.wrapping_add(1), o.wrapping_sub(1), 65536, o ^ 1, o ^ 2, o ^ 4, o ^ 8, 0x00010000])
                .to_be_bytes()
                .to_vec()
        }
    }
}

fn nested_type(kind: u32, depth: usize) -> Vec<u8> {
    let mut v: Vec<u8> = vec![];
    for _ in 0..depth {
        match kind {
            0 => v.extend_from_slice(&[0, 0x20]),
            1 => v.extend_from_slice(&[0, 0x22]),
            2 => v.extend_from_slice(&[0, 0x31, 0, 1]),
            3 => v.extend_from_slice(&[0, 0x21, 0, 9]),                   // map<int, ...>
            4 => v.extend_from_slice(&[0, 0x30, 0, 0, 0, 0, 0, 1, 0, 0]), // udt with one field
            _ => v.extend_from_slice(&[0, 0x31, 0xFF, 0xFF]),             // tuple claiming 65535 elements
        }
    }
    v.extend_from_slice(&[0, 9]);
    v
}

/// A Rows frame with one column of the given binary type description, no rows.
fn rows_frame_with_type(ty: &[u8]) -> Vec<u8> {
    let mut b = B::default();
    b.int(2);
    b.int(1);
    b.int(1);
    b.string(b"k");
    b.string(b"t");
    b.string(b"c");
    b.raw(ty);
    b.int(0);
    frame_bytes(0, 0, 0x08, &b.out)
}

fn custom_type_bytes(s: &[u8]) -> Vec<u8> {
    let mut v = vec![0, 0];
    v.extend_from_slice(&(s.len().min(65535) as u16).to_be_bytes());
    v.extend_from_slice(&s[..s.len().min(65535)]);
    v
}

fn nested_custom(name: &str, depth: usize, close: bool) -> String {
    let mut s = String::new();
    for _ in 0..depth {
        s.push_str(name);
        s.push('(');
    }
    s.push_str("Int32Type");
    if close {
        for _ in 0..depth {
            s.push(')');
        }
    }
    s
}

/// Malformed custom type strings from a small grammar.
fn malformed_custom(rng: &mut Rng) -> Vec<u8> {
    let mut s = String::new();
    gen_custom(rng, 3, false, &mut s);
    let mut v = s.into_bytes();
    for _ in 0..rng.range(1, 3) {
        if v.is_empty() {
            break;
        }
        let i = rng.below(v.len() as u64) as usize;
        match rng.below(6) {
            0 => {
                v.remove(i);
            }
            1 => v.insert(i, *rng.pick(b"()!,: \t)(:,")),
            2 => v.truncate(i),
            3 => v[i] = *rng.pick(b"()!,:;- x9"),
            4 => {
                if let Some(p) = v.iter().position(|c| *c == b')') {
                    v.remove(p);
                }
            }
            _ => v.insert(i, if rng.chance(1, 4) { 0xC3 } else { b'(' }),
        }
    }
    v
}

/// Non-ASCII material for identifier positions of custom type strings: 2-, 3- and 4-byte alphanumerics
/// (letters, decimal digits of other scripts, mathematical digits), non-alphanumerics, combining marks, spaces.
const UNI: [&str; 16] = [
    "\u{e9}", "\u{df}", "\u{ff21}", "\u{661}", "\u{1d7d8}", "\u{20ac}", "\u{301}", "\u{fc}", "\u{4e2d}", "\u{1d49c}", "\u{b2}", "\u{2003}",
    "\u{a0}", "\u{e9}\u{e9}", "\u{37e}", "\u{10ffff}",
];

/// An identifier with a non-ASCII piece at an odd or even byte offset, with odd or even total byte length.
fn uni_ident(rng: &mut Rng) -> String {
    let pre: String = (0..rng.below(4)).map(|_| *rng.pick(b"0123456789abcdefAF") as char).collect();
    let post: String = (0..rng.below(4)).map(|_| *rng.pick(b"0123456789abcdefAF") as char).collect();
    let mid: &str = *rng.pick(&UNI);
    let mut s = format!("{}{}{}", pre, mid, post);
    if rng.chance(1, 4) {
        let u: &str = *rng.pick(&UNI);
        s.push_str(u);
    }
    s
}

const UNI_TEMPLATES: [&str; 18] = [
    "UserType(ks,{},61:Int32Type)",
    "UserType(ks,6e,{}:Int32Type)",
    "UserType({},6e,61:Int32Type)",
    "UserType(ks,6e,61:{})",
    "UserType(ks,{})",
    "UserType(ks,6e,61:Int32Type,{}:LongType)",
    "org.apache.cassandra.db.marshal.UserType(ks , {} , {}:org.apache.cassandra.db.marshal.UTF8Type)",
    "{}:Int32Type",
    "{}",
    "{}Type",
    "Int32Type{}",
    "ListType({})",
    "ListType({}:Int32Type)",
    "VectorType(Int32Type, {})",
    "VectorType(Int32Type, 3{})",
    "MapType({},Int32Type)",
    "FrozenType(UserType(ks,{},{}:Int32Type))",
    "TupleType(Int32Type,UserType(ks,6e,{}:LongType,{}:LongType))",
];

fn uni_custom(rng: &mut Rng) -> String {
    let t = *rng.pick(&UNI_TEMPLATES);
    let mut out = String::new();
    for (i, part) in t.split("{}").enumerate() {
        if i > 0 {
            out.push_str(&uni_ident(rng));
        }
        out.push_str(part);
    }
    out
}

/// A Prepared frame whose single bind-marker column has the given binary type description.
fn prepared_frame_with_type(ty: &[u8]) -> Vec<u8> {
    let mut b = B::default();
    b.int(4);
    b.short_bytes(b"id");
    b.int(0);
    b.int(1);
    b.int(0);
    b.string(b"k");
    b.string(b"t");
    b.string(b"c");
    b.raw(ty);
    b.int(4); // result metadata: no metadata
    b.int(0);
    frame_bytes(0, 0, 0x08, &b.out)
}

pub fn generate(rng: &mut Rng, tier: Tier, emit: &mut dyn FnMut(String)) {
    let scale = if tier == Tier::Quick { 1 } else { 15 };
    let nofeat = Feats { rl: None, lwt: None, tab: false, mid: false };
    let mid = Feats { rl: Some(0x4321), lwt: None, tab: true, mid: true };

    // (a) well-formed frames of every kind, (b) all their truncation points, (c) field-aware mutations
    for i in 0..6000 * scale {
        let wf = gen_wellformed(rng);
        let frame = frame_bytes(wf.flags, wf.stream, wf.opcode, &wf.body.out);
        emit(case_line(&wf.f, wf.cached, 'n', Some(&wf.canon), &frame));
        if i % 12 == 0 && wf.body.out.len() <= 160 {
            // every truncation point of the body (header length = truncated length: reaches the decoders)
            for cut in 0..wf.body.out.len() {
                emit(case_line(&wf.f, wf.cached, 'n', None, &frame_bytes(wf.flags, wf.stream, wf.opcode, &wf.body.out[..cut])));
            }
            // raw truncation of the frame (header keeps the full length)
            for cut in [0usize, 1, 8, 9, 10, frame.len().saturating_sub(1)] {
                if cut < frame.len() {
                    emit(case_line(&wf.f, wf.cached, 'n', None, &frame[..cut]));
                }
            }
        }
        // mutations of count / length / flag / id fields
        if !wf.body.marks.is_empty() {
            for _ in 0..3 {
                let m = *rng.pick(&wf.body.marks);
                let mut body = wf.body.out.clone();
                let w = m.w as usize;
                let new = mutate_value(rng, m.w, &body[m.off..m.off + w]);
                body[m.off..m.off + w].copy_from_slice(&new);
                let mut f = wf.f;
                if rng.chance(1, 4) {
                    f.mid = !f.mid;
                }
                if rng.chance(1, 8) {
                    f.rl = if f.rl.is_some() { None } else { Some(0x4321) };
                }
                emit(case_line(&f, wf.cached ^ rng.chance(1, 6), 'n', None, &frame_bytes(wf.flags, wf.stream, wf.opcode, &body)));
            }
        }
        // the error tail of the row iterator (items after the first failing row), capped
        if i % 8 == 0 && wf.opcode == 0x08 && wf.flags == 0 && wf.body.out.len() > 12 {
            let cut = rng.range(12, wf.body.out.len() as i64) as usize;
            emit(format!("e 3000 {}", hex(&frame_bytes(0, wf.stream, 0x08, &wf.body.out[..cut]))));
            emit(format!("e 3000 {}", hex(&frame)));
        }
        // byte-level mutations: flip a byte, header mutations, frame flags flipped
        if i % 3 == 0 {
            let mut fr = frame.clone();
            match rng.below(6) {
                0 => fr[0] = *rng.pick(&[0x04, 0x83, 0x85, 0x00, 0xFF, 0x84]),
                1 => fr[1] ^= 1 << rng.below(8),
                2 => fr[4] = *rng.pick(&[0x00, 0x01, 0x02, 0x03, 0x06, 0x08, 0x0C, 0x0E, 0x10, 0x11, 0xFF, 0x07]),
                3 => {
                    let l = *rng.pick(&[0u32, 1, wf.body.out.len() as u32 + 1, wf.body.out.len().saturating_sub(1) as u32, 0x7FFFFFFF, 0xFFFFFFFF, 1 << 20, (1 << 20) + wf.body.out.len() as u32 + 1]);
                    fr[5..9].copy_from_slice(&l.to_be_bytes());
                }
                _ => {
                    if fr.len() > 9 {
                        let k = 9 + rng.below(fr.len() as u64 - 9) as usize;
                        fr[k] = rng.next() as u8;
                    }
                }
            }
            emit(case_line(&wf.f, wf.cached, *rng.pick(&['n', 'n', 'l', 's']), None, &fr));
        }
    }

    // (d) random bytes behind a valid header, and fully random frames
    for _ in 0..3000 * scale {
        let f = gen_feats(rng);
        let n = rng.below(40) as usize;
        let mut body = rng.bytes(n);
        if rng.bool() && n >= 4 {
            body[0] = 0;
            body[1] = 0;
            body[2] = 0;
            body[3] = rng.below(6) as u8;
        }
        let op = *rng.pick(&[0x00u8, 0x02, 0x03, 0x06, 0x08, 0x08, 0x08, 0x0C, 0x0E, 0x10]);
        let flags = if rng.chance(1, 4) { rng.next() as u8 & 0x0E } else { 0 };
        emit(case_line(&f, rng.bool(), 'n', None, &frame_bytes(flags, 0, op, &body)));
    }
    for _ in 0..500 * scale {
        let n = rng.below(30) as usize;
        let mut fr = rng.bytes(n);
        if n > 0 && rng.bool() {
            fr[0] = 0x84;
        }
        emit(case_line(&nofeat, false, 'n', None, &fr));
    }

    // nesting deepened (binary type descriptions and custom type strings): around the limit of 128 and far beyond
    for kind in 0..6u32 {
        for depth in [1usize, 100, 127, 128, 129, 130, 200, 5000] {
            if kind == 4 && depth > 5000 {
                continue;
            }
            emit(case_line(&nofeat, false, 'n', None, &rows_frame_with_type(&nested_type(kind, depth))));
        }
    }
    for name in ["ListType", "SetType", "FrozenType", "TupleType", "org.apache.cassandra.db.marshal.SetType"] {
        for depth in [1usize, 100, 126, 127, 128, 129, 200, 5000] {
            for close in [true, false] {
                let s = nested_custom(name, depth, close);
                if s.len() <= 65535 {
                    emit(case_line(&nofeat, false, 'n', None, &rows_frame_with_type(&custom_type_bytes(s.as_bytes()))));
                }
            }
        }
    }
    // binary nesting 128 deep with a custom type 128 deep at the bottom (deepest accepted stack)
    for (bd, cd) in [(127usize, 127usize), (128, 127), (128, 128), (129, 1), (100, 200)] {
        let mut ty = nested_type(0, bd);
        ty.truncate(ty.len() - 2);
        ty.extend_from_slice(&custom_type_bytes(nested_custom("ListType", cd, true).as_bytes()));
        emit(case_line(&nofeat, false, 'n', None, &rows_frame_with_type(&ty)));
    }
    // custom type strings: well-formed with expected value, then malformed
    for _ in 0..1500 * scale {
        let mut s = String::new();
        let (c, _) = gen_custom(rng, 4, false, &mut s);
        let frame = rows_frame_with_type(&custom_type_bytes(s.as_bytes()));
        let canon = format!(
            "h=0,0,8 t=none w=[] p=none RESULT ROWS ps=none src=parsed meta{{id=none cc=1 cols=[{}.{}.{}:{}]}} rc=0 rows=[]",
            hex(b"k"), hex(b"t"), hex(b"c"), c
        );
        emit(case_line(&nofeat, false, 'n', Some(&canon), &frame));
    }
    for _ in 0..3000 * scale {
        let s = malformed_custom(rng);
        emit(case_line(&nofeat, false, 'n', None, &rows_frame_with_type(&custom_type_bytes(&s))));
    }
    for s in [
        "", " ", "(", ")", "ListType", "ListType(", "ListType()", "ListType(!)", "ListType(Int32Type", "ListType(Int32Type,", "ListType(Int32Type,Int32Type)",
        "MapType(Int32Type)", "MapType(!)", "MapType(Int32Type,!)", "MapType(Int32Type,Int32Type,Int32Type)", "TupleType()", "TupleType(", "TupleType(Int32Type,!)",
        "VectorType()", "VectorType(Int32Type,0)", "VectorType(Int32Type,00)", "VectorType(Int32Type,0", "VectorType(Int32Type)", "VectorType(Int32Type,)", "VectorType(Int32Type,65536)", "VectorType(Int32Type,65535)", "VectorType(Int32Type,3",
        "VectorType(Int32Type 3)", "UserType()", "UserType(ks,6e)", "UserType(ks,6e,61:Int32Type)", "UserType(ks,6e,6:Int32Type)", "UserType(ks,zz)", "UserType(ks,c328)",
        "UserType(ks,6e,61 Int32Type)", "UserType(ks,6e,:Int32Type)", "UserType(ks,6e", "FrozenType()", "FrozenType(ListType(Int32Type))", "FrozenType(Int32Type,Int32Type)",
        "zz:Int32Type", "+:Int32Type", "+1:Int32Type", "-1:Int32Type", "11111111111111111:Int32Type", "0000000000000000000001:Int32Type", "1:", "1:(", "Int32Type garbage",
        "Int32Type(", "FooType(Int32Type)", "ListType(ListType(Int32Type,Int32Type))", "ListType(Int32Type,ListType(Int32Type,Int32Type))", "SetType(,Int32Type)",
        "SetType(,,Int32Type)", "SetType( , Int32Type , )", "ListType(Int32Type))", "\u{00e9}Type", "ListType(\u{2003}Int32Type)", "Int32Type\u{00a0}",
    ] {
        emit(case_line(&nofeat, false, 'n', None, &rows_frame_with_type(&custom_type_bytes(s.as_bytes()))));
    }

    // non-ASCII characters in every identifier position of a custom type string (Rows and Prepared metadata):
    // the model does not carry the Unicode classes (its line is an echo), the panic / hang / allocation oracle runs
    for i in 0..2500 * scale {
        let s = uni_custom(rng);
        let ty = custom_type_bytes(s.as_bytes());
        let frame = if i % 3 == 0 { prepared_frame_with_type(&ty) } else { rows_frame_with_type(&ty) };
        emit(case_line(&nofeat, false, 'n', None, &frame));
    }

    // parameter-count mismatches nested k deep: the count is taken by re-parsing (known finding C08-H1: 2^k)
    for k in [1usize, 2, 6, 12, 26] {
        let s = format!("{}LongType{}", "ListType(LongType,".repeat(k), ")".repeat(k));
        emit(case_line(&nofeat, false, 'n', None, &rows_frame_with_type(&custom_type_bytes(s.as_bytes()))));
    }

    // vectors: element size overflow (8 * 65535^4, fix 2692908) and zero dimensions (fix 2a278cb), with a cell
    for (dims, inner) in [
        (vec![65535u32, 65535, 65535, 65535, 1], "LongType"),
        (vec![65535, 65535, 65535, 65535, 65535], "LongType"),
        (vec![32768, 32768, 32768, 32768, 2], "LongType"),
        (vec![65535, 65535, 65535, 65535], "LongType"),
        (vec![0, 65535, 65535], "Int32Type"),
        (vec![0, 10000, 10000], "Int32Type"),
        (vec![0, 65535], "Int32Type"),
        (vec![0], "Int32Type"),
        (vec![1, 65535, 65535], "Int32Type"),
        (vec![65535, 0], "Int32Type"),
        (vec![5], "LongType"),
        (vec![3], "Int32Type"),
        (vec![2, 3], "Int32Type"),
        (vec![65535], "Int32Type"),
        (vec![3], "UTF8Type"),
    ] {
        let mut s = inner.to_owned();
        for d in dims {
            s = format!("VectorType({}, {})", s, d);
        }
        let c40: Vec<u8> = (0..40u8).collect();
        let c24: Vec<u8> = (0..24u8).collect();
        for cell in [&[0u8][..], &[][..], &[0, 0, 0, 1, 0, 0, 0, 2][..], &c40[..], &c24[..], &c24[..12], &[1, b'a', 1, b'b', 1, b'c'][..]] {
            let mut b = B::default();
            b.int(2);
            b.int(1);
            b.int(1);
            b.string(b"k");
            b.string(b"t");
            b.string(b"c");
            b.raw(&custom_type_bytes(s.as_bytes()));
            b.int(1);
            b.bytes(cell);
            emit(case_line(&nofeat, false, 'n', None, &frame_bytes(0, 0, 0x08, &b.out)));
        }
    }

    // variable-length integers cut at EVERY byte: the three components of a duration and the element length
    // prefixes of vectors with variable-size elements, each with every encoded width (1..9 bytes), the cell (and
    // every enclosing length) ending exactly 1, 2, ... bytes short of the full integer, down to the lone first byte;
    // at top level and nested in list / tuple / map / vector / vector-of-vector
    {
        fn uv(value: u64, extra: usize) -> Vec<u8> {
            // unsigned vint of `value` written with exactly `extra` extra bytes (not necessarily the shortest form)
            if extra == 0 {
                return vec![(value & 0x7f) as u8];
            }
            let mut v = vec![(0xffu16 << (8 - extra)) as u8];
            v.extend_from_slice(&value.to_be_bytes()[8 - extra..]);
            v
        }
        fn cellb(inner: &[u8]) -> Vec<u8> {
            let mut o = (inner.len() as i32).to_be_bytes().to_vec();
            o.extend_from_slice(inner);
            o
        }
        // (type string around `T`, wrapper of the inner value bytes)
        type Wrap = fn(&[u8]) -> Vec<u8>;
        fn w_top(i: &[u8]) -> Vec<u8> {
            i.to_vec()
        }
        fn w_list(i: &[u8]) -> Vec<u8> {
            let mut o = 2i32.to_be_bytes().to_vec();
            o.extend_from_slice(&cellb(&[0, 0, 0]));
            o.extend_from_slice(&cellb(i));
            o
        }
        fn w_tuple(i: &[u8]) -> Vec<u8> {
            let mut o = cellb(&[0, 0, 0, 7]);
            o.extend_from_slice(&cellb(i));
            o
        }
        fn w_map(i: &[u8]) -> Vec<u8> {
            let mut o = 1i32.to_be_bytes().to_vec();
            o.extend_from_slice(&cellb(&[0, 0, 0, 1]));
            o.extend_from_slice(&cellb(i));
            o
        }
        fn w_vec(i: &[u8]) -> Vec<u8> {
            // two variable-size elements: a complete one, then the one under test, each behind its length
            let mut o = uv(3, 0);
            o.extend_from_slice(&[0, 0, 0]);
            o.extend_from_slice(&uv(i.len() as u64, 0));
            o.extend_from_slice(i);
            o
        }
        fn w_vecvec(i: &[u8]) -> Vec<u8> {
            // outer vector of two inner vectors: a complete inner vector ["a"], then the one under test
            let mut o = uv(2, 0);
            o.extend_from_slice(&[1, b'a']);
            o.extend_from_slice(&uv(i.len() as u64, 1));
            o.extend_from_slice(i);
            o
        }
        fn w_vec_wide(i: &[u8]) -> Vec<u8> {
            // … the length of the element under test written as a 3-byte integer
            let mut o = uv(i.len() as u64, 2);
            o.extend_from_slice(i);
            o
        }
        fn w_list_vec(i: &[u8]) -> Vec<u8> {
            let mut o = 1i32.to_be_bytes().to_vec();
            o.extend_from_slice(&cellb(&w_vec(i)));
            o
        }
        let dur_ctx: [(&str, Wrap); 7] = [
            ("DurationType", w_top),
            ("ListType(DurationType)", w_list),
            ("TupleType(Int32Type,DurationType)", w_tuple),
            ("MapType(Int32Type,DurationType)", w_map),
            ("VectorType(DurationType, 2)", w_vec),
            ("VectorType(DurationType, 1)", w_vec_wide),
            ("ListType(VectorType(DurationType, 2))", w_list_vec),
        ];
        let mut one = |ty: &str, cell: &[u8]| {
            let mut b = B::default();
            b.int(2);
            b.int(1);
            b.int(1);
            b.string(b"k");
            b.string(b"t");
            b.string(b"c");
            b.raw(&custom_type_bytes(ty.as_bytes()));
            b.int(1);
            b.bytes(cell);
            emit(case_line(&nofeat, false, 'n', None, &frame_bytes(0, 0, 0x08, &b.out)));
        };
        for (ty, wrap) in dur_ctx {
            for which in 0..3usize {
                for extra in 0..=8usize {
                    // the component under test is `extra + 1` bytes wide, the others one byte
                    let mut full = vec![];
                    let mut end_of_tested = 0;
                    for c in 0..3 {
                        if c == which {
                            full.extend_from_slice(&uv(0x0102_0304_0506_0708u64 >> (8 * (8 - extra.max(1))) << 1, extra));
                            end_of_tested = full.len();
                        } else {
                            full.extend_from_slice(&uv(2 * (c as u64 + 1), 0));
                        }
                    }
                    one(ty, &wrap(&full));
                    // every cut inside (and right in front of) the component under test
                    let start = end_of_tested - (extra + 1);
                    for cut in start..end_of_tested {
                        one(ty, &wrap(&full[..cut]));
                    }
                    // one byte too many
                    let mut more = full.clone();
                    more.push(0);
                    one(ty, &wrap(&more));
                }
                // a lone first byte announcing 1, 2, 7, 8 more bytes, after complete components
                for first in [0x80u8, 0xc0, 0xe0, 0xfe, 0xff] {
                    let mut v = vec![2u8; which];
                    v.push(first);
                    one(ty, &wrap(&v));
                }
            }
        }
        // the length prefix of a variable-size vector element, every width, every cut; then the body cut
        let vec_ctx: [(&str, Wrap); 6] = [
            ("VectorType(UTF8Type, 1)", w_top),
            ("ListType(VectorType(UTF8Type, 1))", w_list),
            ("TupleType(Int32Type,VectorType(UTF8Type, 1))", w_tuple),
            ("MapType(Int32Type,VectorType(BytesType, 1))", w_map),
            ("VectorType(VectorType(UTF8Type, 1), 2)", w_vecvec),
            ("VectorType(VectorType(VectorType(AsciiType, 1), 1), 1)", w_vec_wide),
        ];
        for (ty, wrap) in vec_ctx {
            for extra in 0..=8usize {
                let mut full = uv(3, extra);
                full.extend_from_slice(b"abc");
                for cut in 0..=full.len() {
                    one(ty, &wrap(&full[..cut]));
                }
                // the prefix announces more than the rest of the cell / usize-sized lengths
                for v in [4u64, 0xff, u64::MAX >> (8 * (8 - extra.max(1))), 1u64 << (8 * extra.max(1) - 1)] {
                    let mut c = uv(v, extra);
                    c.extend_from_slice(b"abc");
                    one(ty, &wrap(&c));
                }
            }
            for first in [0x80u8, 0xc0, 0xe0, 0xfe, 0xff] {
                one(ty, &wrap(&[first]));
            }
        }
        // two elements: the SECOND element's prefix cut (the iterator is in the middle of the vector)
        for extra in 1..=8usize {
            let mut full = uv(1, 0);
            full.push(b'x');
            let at = full.len();
            full.extend_from_slice(&uv(2, extra));
            full.extend_from_slice(b"yz");
            for cut in at..full.len() {
                one("VectorType(UTF8Type, 2)", &full[..cut]);
                one("ListType(VectorType(UTF8Type, 2))", &w_list(&full[..cut]));
            }
        }
    }

    // huge counts in front of (almost) nothing: must be refused without a proportional allocation
    for feats in [nofeat, mid] {
        for count in [i32::MAX, 0x0FFFFFFF, 65536, 1 << 20] {
            // Rows: col_count
            let mut b = B::default();
            b.int(2);
            b.int(0);
            b.int(count);
            emit(case_line(&feats, false, 'n', None, &frame_bytes(0, 0, 8, &b.out)));
            // Rows: no metadata, zero columns, `count` rows
            let mut b = B::default();
            b.int(2);
            b.int(4);
            b.int(0);
            b.int(count);
            emit(case_line(&feats, false, 'n', None, &frame_bytes(0, 0, 8, &b.out)));
            emit(case_line(&feats, true, 'n', None, &frame_bytes(0, 0, 8, &b.out)));
            // Prepared: pk_count / col_count
            for which in 0..2 {
                let mut b = B::default();
                b.int(4);
                b.short_bytes(b"id");
                if feats.mid {
                    b.short_bytes(b"rm");
                }
                b.int(0);
                b.int(if which == 0 { count } else { 0 });
                b.int(if which == 1 { count } else { 0 });
                emit(case_line(&feats, false, 'n', None, &frame_bytes(0, 0, 8, &b.out)));
            }
        }
    }

    // rows_count far beyond the rows present (1 column, then 0 / 1 / 2 complete rows and a partial one)
    for rc in [0i32, 1, 2, 3, 1000, 100000, i32::MAX] {
        for present in 0..3usize {
            let mut b = B::default();
            b.int(2);
            b.int(1);
            b.int(1);
            b.string(b"k");
            b.string(b"t");
            b.string(b"c");
            b.short(9);
            b.int(rc);
            for r in 0..present {
                b.bytes(&[0, 0, 0, r as u8]);
            }
            emit(format!("e 3000 {}", hex(&frame_bytes(0, 0, 0x08, &b.out))));
            b.raw(&[0, 0]);
            emit(format!("e 3000 {}", hex(&frame_bytes(0, 0, 0x08, &b.out))));
        }
    }

    // three columns, a failure in the middle of a row (column 0 / 1 / 2, short length field or short cell body):
    // the first Err item reports that column, the following ones column 0 (the iterator stands at the failing cell)
    for rc in [1i32, 2, 5, 100000] {
        for complete_rows in 0..2usize {
            for fail_col in 0..3usize {
                for short_body in [false, true] {
                    let mut b = B::default();
                    b.int(2);
                    b.int(1);
                    b.int(3);
                    b.string(b"k");
                    b.string(b"t");
                    for c in ["a", "b", "c"] {
                        b.string(c.as_bytes());
                        b.short(9);
                    }
                    b.int(rc);
                    for r in 0..complete_rows {
                        for c in 0..3u8 {
                            b.bytes(&[0, 0, r as u8, c]);
                        }
                    }
                    for c in 0..fail_col {
                        b.bytes(&[9, 9, 9, c as u8]);
                    }
                    if short_body {
                        b.int(8);
                        b.raw(&[1, 2, 3]);
                    } else {
                        b.raw(&[0, 0]);
                    }
                    emit(format!("e 3000 {}", hex(&frame_bytes(0, 0, 0x08, &b.out))));
                }
            }
        }
    }

    // towers in every composite arm of the binary type parser, far beyond the limit (4..10 bytes per level):
    // each arm must count its nesting level
    for depth in [129usize, 130, 131, 1000, 20000, 200000] {
        let arms: [(&[u8], &[u8]); 7] = [
            (&[0, 0x20], &[]),                         // list<…>
            (&[0, 0x22], &[]),                         // set<…>
            (&[0, 0x21], &[0, 9]),                     // map<…, int>   (key position)
            (&[0, 0x21, 0, 9], &[]),                   // map<int, …>   (value position)
            (&[0, 0x31, 0, 1], &[]),                   // tuple<…>
            (&[0, 0x31, 0, 2, 0, 9], &[]),             // tuple<int, …> (second element)
            (&[0, 0x30, 0, 0, 0, 0, 0, 1, 0, 0], &[]), // udt{f: …}
        ];
        for (open, close) in arms {
            if open.len() * depth > 900_000 {
                continue;
            }
            let mut ty: Vec<u8> = Vec::with_capacity(open.len() * depth + 2 + close.len() * depth);
            for _ in 0..depth {
                ty.extend_from_slice(open);
            }
            ty.extend_from_slice(&[0, 9]);
            for _ in 0..depth {
                ty.extend_from_slice(close);
            }
            emit(case_line(&nofeat, false, 'n', None, &rows_frame_with_type(&ty)));
            emit(case_line(&nofeat, false, 'n', None, &prepared_frame_with_type(&ty)));
        }
    }

    // compressed frames: decompression is a parameter of the model (the harness passes the plain body on)
    for _ in 0..300 * scale {
        let wf = gen_wellformed(rng);
        for (c, comp) in [('l', scylla_cql::frame::Compression::Lz4), ('s', scylla_cql::frame::Compression::Snappy)] {
            let mut z = vec![];
            if scylla_cql::frame::compress_append(&wf.body.out, comp, &mut z).is_err() {
                continue;
            }
            let canon = format!("h={},{},{} z={} {}", wf.flags | 1, wf.stream, wf.opcode, hex(&wf.body.out), &wf.canon[wf.canon.find(' ').unwrap() + 1..]);
            emit(case_line(&wf.f, wf.cached, c, Some(&canon), &frame_bytes(wf.flags | 1, wf.stream, wf.opcode, &z)));
            emit(case_line(&wf.f, wf.cached, 'n', None, &frame_bytes(wf.flags | 1, wf.stream, wf.opcode, &z)));
            // malformed compression: truncated, corrupted, wrong algorithm
            if !z.is_empty() {
                let cut = rng.below(z.len() as u64) as usize;
                emit(case_line(&wf.f, wf.cached, c, None, &frame_bytes(wf.flags | 1, wf.stream, wf.opcode, &z[..cut])));
                let mut zz = z.clone();
                let k = rng.below(zz.len() as u64) as usize;
                zz[k] ^= 1 << rng.below(8);
                emit(case_line(&wf.f, wf.cached, c, None, &frame_bytes(wf.flags | 1, wf.stream, wf.opcode, &zz)));
                emit(case_line(&wf.f, wf.cached, if c == 'l' { 's' } else { 'l' }, None, &frame_bytes(wf.flags | 1, wf.stream, wf.opcode, &z)));
            }
        }
    }
    // declared uncompressed sizes out of proportion to the frame (LZ4: 4-byte prefix; Snappy: varint header)
    for claimed in [0u32, 1, 1 << 20, 1 << 28] {
        let mut z = claimed.to_be_bytes().to_vec();
        z.extend_from_slice(&[0x10, b'a']);
        emit(case_line(&nofeat, false, 'l', None, &frame_bytes(1, 0, 2, &z)));
        let mut z = vec![];
        let mut v = claimed;
        loop {
            let byte = (v & 0x7f) as u8;
            v >>= 7;
            if v == 0 {
                z.push(byte);
                break;
            }
            z.push(byte | 0x80);
        }
        z.extend_from_slice(&[0x00, b'a']);
        emit(case_line(&nofeat, false, 's', None, &frame_bytes(1, 0, 2, &z)));
    }

    // `read_response_frame` alone: headers announcing far more than arrives (EOF after 0 / few / many body bytes);
    // the capacity its body buffer reaches is compared with the model (1 MiB up front, then doubling)
    for ln in [0xffff_ffffu32, 0x7fff_ffff, 0x1000_0000, (1 << 20) + 1, 1 << 20, (1 << 20) - 1, 70_000, 65_536, 65_535, 5, 0] {
        for present in [0usize, 1, 4, 7, 70_000, (1 << 20) + 5] {
            let mut fr = vec![0x84, 0, 0, 0, 2];
            fr.extend_from_slice(&ln.to_be_bytes());
            fr.extend(std::iter::repeat(7u8).take(present));
            emit(format!("h {}", hex(&fr)));
            if present <= 7 {
                // the same through the whole pipeline
                emit(case_line(&nofeat, false, 'n', None, &fr));
            }
        }
    }
    // … and complete bodies around and beyond the up-front allocation, followed by the start of the next frame: the
    // body returned must be exactly the announced bytes and the next frame must be left in the reader
    for ln in [0usize, 1, 5, 65_536, (1 << 20) - 1, 1 << 20, (1 << 20) + 1, (2 << 20) + 1, 3 << 20] {
        for trailing in [&[][..], &[0x84, 0, 0, 0, 2, 0, 0, 0, 0][..], &[0xff][..]] {
            if ln > (1 << 20) + 1 && trailing.len() == 1 {
                continue;
            }
            let mut fr = vec![0x84, 0, 0, 7, 8];
            fr.extend_from_slice(&(ln as u32).to_be_bytes());
            fr.extend((0..ln).map(|i| (i.wrapping_mul(31) % 251) as u8));
            fr.extend_from_slice(trailing);
            emit(format!("h {}", hex(&fr)));
        }
    }
    {
        // a body that outgrows the up-front allocation twice (2.5 MiB of a 3 MiB announcement)
        let mut fr = vec![0x84, 0, 0, 0, 2];
        fr.extend_from_slice(&(3u32 << 20).to_be_bytes());
        fr.extend(std::iter::repeat(1u8).take(5 << 19));
        emit(format!("h {}", hex(&fr)));
    }

    // columns shaped for the derive-generated row / UDT targets (by-name and in-order flavours): names a / b / u,
    // UDT fields x / y in every arrangement, with complete, null, short, long and cut cells
    {
        fn udt_ty(fields: &[(&str, u16)]) -> Vec<u8> {
            let mut b = B::default();
            b.short(0x30);
            b.string(b"ks");
            b.string(b"t");
            b.short(fields.len() as u16);
            for (n, id) in fields {
                b.string(n.as_bytes());
                b.short(*id);
            }
            b.out
        }
        fn cellv(v: Option<&[u8]>) -> Vec<u8> {
            match v {
                None => (-1i32).to_be_bytes().to_vec(),
                Some(v) => {
                    let mut o = (v.len() as i32).to_be_bytes().to_vec();
                    o.extend_from_slice(v);
                    o
                }
            }
        }
        let int_ty = vec![0u8, 0x09];
        let text_ty = vec![0u8, 0x0d];
        let udts: Vec<Vec<u8>> = vec![
            udt_ty(&[("x", 9), ("y", 0x0d)]),
            udt_ty(&[("y", 0x0d), ("x", 9)]),
            udt_ty(&[("x", 9)]),
            udt_ty(&[("y", 0x0d)]),
            udt_ty(&[("x", 9), ("y", 0x0d), ("z", 9)]),
            udt_ty(&[("x", 0x0d), ("y", 9)]),
            udt_ty(&[]),
        ];
        let mut layouts: Vec<Vec<(&str, Vec<u8>)>> = vec![
            vec![("a", int_ty.clone()), ("b", text_ty.clone())],
            vec![("b", text_ty.clone()), ("a", int_ty.clone())],
            vec![("a", int_ty.clone()), ("b", text_ty.clone()), ("c", int_ty.clone())],
            vec![("a", int_ty.clone())],
            vec![("a", text_ty.clone()), ("b", int_ty.clone())],
            vec![("q", int_ty.clone()), ("r", text_ty.clone())],
        ];
        for u in &udts {
            layouts.push(vec![("a", int_ty.clone()), ("u", u.clone())]);
            layouts.push(vec![("u", u.clone())]);
            let mut l = vec![0u8, 0x20];
            l.extend_from_slice(u);
            layouts.push(vec![("l", l)]);
        }
        let int_cells: [Option<&[u8]>; 5] = [Some(&[0, 0, 0, 7]), None, Some(&[]), Some(&[0, 0, 7]), Some(&[0, 0, 0, 0, 7])];
        let text_cells: [Option<&[u8]>; 4] = [Some(b"hi"), None, Some(&[]), Some(&[0xff, 0xfe])];
        let mut udt_cells: Vec<Option<Vec<u8>>> = vec![None, Some(vec![])];
        for a in int_cells {
            for b in text_cells {
                let mut v = cellv(a);
                udt_cells.push(Some(v.clone()));
                v.extend_from_slice(&cellv(b));
                udt_cells.push(Some(v.clone()));
                let mut w = cellv(b);
                w.extend_from_slice(&cellv(a));
                udt_cells.push(Some(w));
                v.extend_from_slice(&cellv(Some(&[0, 0, 0, 1])));
                udt_cells.push(Some(v.clone()));
                v.push(0);
                udt_cells.push(Some(v));
            }
        }
        udt_cells.push(Some(vec![0, 0, 0]));
        udt_cells.push(Some(vec![0, 0, 0, 9, 1]));
        udt_cells.push(Some(vec![0x7f, 0xff, 0xff, 0xff]));
        for layout in &layouts {
            let mut head = B::default();
            head.int(2);
            head.int(1);
            head.int(layout.len() as i32);
            head.string(b"ks");
            head.string(b"tb");
            for (n, ty) in layout {
                head.string(n.as_bytes());
                head.raw(ty);
            }
            // candidate cells per column
            let per_col: Vec<Vec<Vec<u8>>> = layout
                .iter()
                .map(|(_, ty)| {
                    if *ty == int_ty {
                        int_cells.iter().map(|c| cellv(*c)).collect()
                    } else if *ty == text_ty {
                        text_cells.iter().map(|c| cellv(*c)).collect()
                    } else if ty[1] == 0x20 {
                        // a list of UDT values: two elements
                        udt_cells
                            .iter()
                            .map(|c| {
                                let mut v = 2i32.to_be_bytes().to_vec();
                                v.extend_from_slice(&cellv(c.as_deref()));
                                v.extend_from_slice(&cellv(Some(&[0, 0, 0, 4, 0, 0, 0, 1, 0, 0, 0, 1, b'z'])));
                                cellv(Some(&v))
                            })
                            .collect()
                    } else {
                        udt_cells.iter().map(|c| cellv(c.as_deref())).collect()
                    }
                })
                .collect();
            let most = per_col.iter().map(|c| c.len()).max().unwrap_or(0);
            for i in 0..most {
                // row 0 complete and plain, row 1 with the i-th candidate of every column, row 2 plain again
                let mut rows = vec![];
                for r in 0..3 {
                    for c in &per_col {
                        rows.extend_from_slice(&c[if r == 1 { i % c.len() } else { 0 }]);
                    }
                }
                let mut b = B::default();
                b.raw(&head.out);
                b.int(3);
                b.raw(&rows);
                emit(case_line(&nofeat, false, 'n', None, &frame_bytes(0, 0, 8, &b.out)));
                if i < 3 {
                    // every cut of the rows region (rows_count stays 3)
                    for cut in 0..rows.len() {
                        let mut b = B::default();
                        b.raw(&head.out);
                        b.int(3);
                        b.raw(&rows[..cut]);
                        emit(case_line(&nofeat, false, 'n', None, &frame_bytes(0, 0, 8, &b.out)));
                    }
                }
            }
        }
    }

    // SUPPORTED option maps for `ProtocolFeatures::parse_from_supported`: every extension key present / absent, its
    // field first / last / duplicated / behind a field sharing its prefix / bare / followed by something else than `=`
    {
        let exts: [(&str, &str); 2] = [("SCYLLA_RATE_LIMIT_ERROR", "ERROR_CODE"), ("SCYLLA_LWT_ADD_METADATA_MARK", "LWT_OPTIMIZATION_META_BIT_MASK")];
        let nums = [
            "0", "1", "61440", "-1", "+5", "-0", "+", "-", "", "007", "2147483647", "2147483648", "-2147483648", "-2147483649", "4294967295", "4294967296",
            "99999999999999999999999", "12a", "a", " 1", "1 ", "0x10", "1.0", "\u{661}", "1\u{20ac}", "+-1", "--1", "=1", "1=2",
        ];
        let body = |entries: &[(String, Vec<String>)]| -> String {
            let mut b = B::default();
            b.short(entries.len() as u16);
            for (k, vs) in entries {
                b.string(k.as_bytes());
                b.short(vs.len() as u16);
                for v in vs {
                    b.string(v.as_bytes());
                }
            }
            format!("s {}", hex(&b.out))
        };
        for (ext, key) in exts {
            let mut lists: Vec<Vec<String>> = vec![vec![], vec!["".into()], vec![key.into()], vec![format!("{}=", key)]];
            for n in nums {
                lists.push(vec![format!("{}={}", key, n)]);
            }
            for tail in ["", "2=7", "€61440", "\u{e9}", ":5", " =5", "=", "==5", "X", "=5", "\0=5", "\u{301}=5"] {
                // the bare key / the key followed by something else, alone, before and after a proper field
                let odd = format!("{}{}", key, tail);
                lists.push(vec![odd.clone()]);
                lists.push(vec![odd.clone(), format!("{}=9", key)]);
                lists.push(vec![format!("{}=9", key), odd.clone()]);
                lists.push(vec!["OTHER=1".into(), odd.clone(), "".into(), format!("{}=12", key)]);
            }
            lists.push(vec![format!("{}=1", key), format!("{}=2", key)]);
            lists.push(vec![format!("{}=x", key), format!("{}=2", key)]);
            lists.push(vec![format!("X{}=1", key), format!("{}=2", key)]);
            lists.push(vec![format!("{}=3", &key[..key.len() - 1]), format!("{}=4", key)]);
            lists.push(vec![format!("{}=3", key.to_lowercase())]);
            lists.push(vec!["A=1".into(), "B".into(), format!("{}=77", key)]);
            lists.push(vec![format!("{}=77", key), "A=1".into(), "B".into()]);
            for l in &lists {
                emit(body(&[(ext.to_owned(), l.clone())]));
                // among other options, with the other extensions present, and as a repeated key (the last one counts)
                emit(body(&[
                    ("CQL_VERSION".to_owned(), vec!["3.0.0".into()]),
                    ("TABLETS_ROUTING_V1".to_owned(), vec!["".into()]),
                    (ext.to_owned(), l.clone()),
                    ("SCYLLA_USE_METADATA_ID".to_owned(), vec![]),
                    ("COMPRESSION".to_owned(), vec!["lz4".into(), "snappy".into()]),
                ]));
                emit(body(&[(ext.to_owned(), vec![format!("{}=1", key)]), (ext.to_owned(), l.clone())]));
                emit(body(&[(ext.to_owned(), l.clone()), (ext.to_owned(), vec![format!("{}=1", key)])]));
            }
        }
        // the two at once, the presence-only extensions, keys sharing a prefix, unknown keys, an empty map
        emit(body(&[]));
        emit("s -".to_owned());
        for k in ["TABLETS_ROUTING_V1", "SCYLLA_USE_METADATA_ID", "TABLETS_ROUTING_V", "TABLETS_ROUTING_V12", "tablets_routing_v1", "SCYLLA_RATE_LIMIT_ERROR2", "SCYLLA_RATE_LIMIT_ERRO", "", "\u{20ac}"] {
            emit(body(&[(k.to_owned(), vec![])]));
            emit(body(&[(k.to_owned(), vec!["ERROR_CODE=5".into(), "LWT_OPTIMIZATION_META_BIT_MASK=6".into()])]));
        }
        emit(body(&[
            ("SCYLLA_RATE_LIMIT_ERROR".to_owned(), vec!["ERROR_CODE=61440".into()]),
            ("SCYLLA_LWT_ADD_METADATA_MARK".to_owned(), vec!["LWT_OPTIMIZATION_META_BIT_MASK=2147483648".into()]),
            ("TABLETS_ROUTING_V1".to_owned(), vec!["".into()]),
            ("SCYLLA_USE_METADATA_ID".to_owned(), vec!["".into()]),
        ]));
        emit(body(&[
            ("SCYLLA_RATE_LIMIT_ERROR".to_owned(), vec!["LWT_OPTIMIZATION_META_BIT_MASK=3".into()]),
            ("SCYLLA_LWT_ADD_METADATA_MARK".to_owned(), vec!["ERROR_CODE=4".into()]),
        ]));
        // the sharding options `open_connection` reads from the same map (`ShardInfo::try_from`, then `shard_of`):
        // every combination of boundary values incl. SCYLLA_SHARDING_IGNORE_MSB at and beyond 64, missing keys, empty
        // value lists, a second value, a repeated key
        {
            let shards = ["0", "3", "4", "65535", "65536", "-1", "+2", "x", ""];
            let nrs = ["0", "1", "4", "+4", "65535", "65536", "x", ""];
            let msbs = ["0", "12", "63", "64", "65", "127", "128", "255", "256", "x", "", "+7", "-0"];
            let three = |a: Vec<String>, b: Vec<String>, c: Vec<String>| -> Vec<(String, Vec<String>)> {
                vec![("SCYLLA_SHARD".to_owned(), a), ("SCYLLA_NR_SHARDS".to_owned(), b), ("SCYLLA_SHARDING_IGNORE_MSB".to_owned(), c)]
            };
            for a in shards {
                for b in nrs {
                    for c in msbs {
                        emit(body(&three(vec![a.into()], vec![b.into()], vec![c.into()])));
                    }
                }
            }
            for c in msbs {
                for (a, b) in [("0", "1"), ("1", "2"), ("6", "7"), ("255", "256"), ("40000", "65535")] {
                    emit(body(&three(vec![a.into()], vec![b.into()], vec![c.into()])));
                }
                // only the FIRST value counts; a repeated key: the last entry counts
                emit(body(&three(vec!["1".into(), "x".into()], vec!["4".into(), "0".into()], vec![c.into(), "12".into()])));
                let mut e = three(vec!["1".into()], vec!["4".into()], vec!["12".into()]);
                e.push(("SCYLLA_SHARDING_IGNORE_MSB".to_owned(), vec![c.into()]));
                emit(body(&e));
            }
            for mask in 0..8u8 {
                // every subset of the three keys present; then present with an empty value list
                let full = three(vec!["1".into()], vec!["4".into()], vec!["64".into()]);
                let sub: Vec<(String, Vec<String>)> = full.iter().enumerate().filter(|(i, _)| mask >> i & 1 == 1).map(|(_, e)| e.clone()).collect();
                emit(body(&sub));
                let emptied: Vec<(String, Vec<String>)> = full.iter().enumerate().map(|(i, e)| if mask >> i & 1 == 1 { (e.0.clone(), vec![]) } else { e.clone() }).collect();
                emit(body(&emptied));
            }
            emit(body(&[
                ("SCYLLA_SHARD".to_owned(), vec!["2".into()]),
                ("SCYLLA_NR_SHARDS".to_owned(), vec!["8".into()]),
                ("SCYLLA_SHARDING_IGNORE_MSB".to_owned(), vec!["200".into()]),
                ("SCYLLA_SHARD_AWARE_PORT".to_owned(), vec!["19042".into()]),
                ("SCYLLA_PARTITIONER".to_owned(), vec!["org.apache.cassandra.dht.Murmur3Partitioner".into()]),
                ("SCYLLA_SHARDING_ALGORITHM".to_owned(), vec!["biased-token-round-robin".into()]),
                ("SCYLLA_RATE_LIMIT_ERROR".to_owned(), vec!["ERROR_CODE=61440".into()]),
            ]));
        }
        // random structured maps, and every truncation of one
        for i in 0..300 * scale {
            let n = rng.below(5) as usize;
            let mut entries = vec![];
            for _ in 0..n {
                let k = (*rng.pick(&["SCYLLA_RATE_LIMIT_ERROR", "SCYLLA_LWT_ADD_METADATA_MARK", "TABLETS_ROUTING_V1", "SCYLLA_USE_METADATA_ID", "CQL_VERSION", "X"])).to_owned();
                let m = rng.below(4) as usize;
                let vs: Vec<String> = (0..m)
                    .map(|_| {
                        let key = *rng.pick(&["ERROR_CODE", "LWT_OPTIMIZATION_META_BIT_MASK", "ERROR_CODE2", "ERROR_COD", "Z", ""]);
                        let sepr = *rng.pick(&["=", "=", "=", "", ":", "\u{20ac}", "=="]);
                        format!("{}{}{}", key, sepr, *rng.pick(&nums))
                    })
                    .collect();
                entries.push((k, vs));
            }
            let line = body(&entries);
            if i % 50 == 0 {
                let hx = &line[2..];
                for cut in (0..hx.len()).step_by(2) {
                    emit(format!("s {}", if cut == 0 { "-" } else { &hx[..cut] }));
                }
            }
            emit(line);
        }
    }

    // the type strings of the schema tables (`map_string_to_cql_type`, fetching.rs; nesting limit of fix 7c5e882)
    {
        let mut t = |s: &str| emit(format!("t {} {}", if s.is_empty() { "-".to_owned() } else { hex(s.as_bytes()) }, uni_table(s.as_bytes())));
        // every constructor nested around and far beyond the limit, closed and unclosed; for map / tuple the deep
        // component first, last, or behind many siblings
        let towers: [(&str, &str); 12] = [
            ("frozen<", ">"),
            ("list<", ">"),
            ("set<", ">"),
            ("vector<", ", 3>"),
            ("vector<", ",0>"),
            ("map<int, ", ">"),
            ("map<", ", int>"),
            ("tuple<", ">"),
            ("tuple<int, text, ", ">"),
            ("tuple<", ", int, text>"),
            ("frozen<list<", ">>"),
            ("map<frozen<tuple<int, ", ">>, set<uuid>>"),
        ];
        for (open, close) in towers {
            for depth in [0usize, 1, 2, 3, 63, 64, 126, 127, 128, 129, 130, 131, 200, 257, 1000, 5000, 20_000, 100_000] {
                // mixed prefixes count their own levels: also hit the limit exactly from both sides
                if depth > 5000 && !matches!(open, "frozen<" | "tuple<" | "map<int, ") {
                    continue;
                }
                for leaf in ["int", "my_udt", ""] {
                    if depth > 300 && !leaf.is_empty() && leaf != "int" {
                        continue;
                    }
                    let mut s = open.repeat(depth);
                    s.push_str(leaf);
                    if depth <= 300 || leaf == "int" {
                        t(&s);
                    }
                    if !(depth > 300 && leaf.is_empty()) {
                        s.push_str(&close.repeat(depth));
                        t(&s);
                    }
                }
            }
        }
        // many siblings, no nesting; long identifiers; long digit strings
        for n in [1usize, 2, 100, 10_000] {
            t(&format!("tuple<{}int>", "int, ".repeat(n)));
            t(&format!("tuple<{}int", "int,".repeat(n)));
            t(&format!("{}", "a".repeat(n)));
            t(&format!("frozen<{}>", "k.$_9".repeat(n)));
            t(&format!("vector<int, {}3>", "0".repeat(n)));
            t(&format!("vector<int, {}>", "9".repeat(n)));
            t(&format!("list<int{}", ">".repeat(n)));
            t(&format!("{}int", " ".repeat(n)));
            t(&format!("vector<int{},{}3{}>", " ".repeat(n), " ".repeat(n), " ".repeat(n)));
        }
        // well-formed random types, every prefix of them, and single-character edits
        const NATIVES: [&str; 20] = [
            "ascii", "boolean", "blob", "counter", "date", "decimal", "double", "duration", "float", "int", "bigint", "text", "timestamp", "inet",
            "smallint", "tinyint", "time", "timeuuid", "uuid", "varint",
        ];
        fn gen_ty(rng: &mut Rng, depth: u32, out: &mut String) {
            let sp = |rng: &mut Rng| *rng.pick(&["", "", " ", "  ", "\t"]);
            let k = if depth == 0 { rng.below(3) } else { rng.below(10) };
            match k {
                0 | 1 => out.push_str(*rng.pick(&NATIVES)),
                2 => out.push_str(*rng.pick(&["my_udt", "ks.typ", "a$b", "Int", "frozen", "list", "varchar", "x1", "_", "1a", "t\u{e9}", "\u{4e2d}\u{6587}", "int2", "mapx"])),
                3 => {
                    out.push_str("frozen<");
                    gen_ty(rng, depth - 1, out);
                    out.push('>');
                }
                4 | 5 => {
                    out.push_str(*rng.pick(&["list<", "set<"]));
                    gen_ty(rng, depth - 1, out);
                    out.push('>');
                }
                6 => {
                    out.push_str("map<");
                    gen_ty(rng, depth - 1, out);
                    out.push(',');
                    out.push_str(sp(rng));
                    gen_ty(rng, depth - 1, out);
                    out.push('>');
                }
                7 | 8 => {
                    out.push_str("tuple<");
                    let n = 1 + rng.below(4);
                    for i in 0..n {
                        if i > 0 {
                            out.push(',');
                            out.push_str(sp(rng));
                        }
                        gen_ty(rng, depth - 1, out);
                    }
                    out.push('>');
                }
                _ => {
                    out.push_str("vector<");
                    gen_ty(rng, depth - 1, out);
                    out.push_str(sp(rng));
                    out.push(',');
                    out.push_str(sp(rng));
                    out.push_str(*rng.pick(&["0", "1", "3", "003", "65535", "65536", "99999", "1536"]));
                    out.push_str(sp(rng));
                    out.push('>');
                }
            }
        }
        for i in 0..400 * scale {
            let mut s = String::new();
            let d = 1 + rng.below(4) as u32;
            gen_ty(rng, d, &mut s);
            t(&s);
            if i % 8 == 0 {
                // every prefix (cut at scalar boundaries)
                for (k, _) in s.char_indices() {
                    t(&s[..k]);
                }
            }
            // one scalar replaced / inserted / removed
            let chars: Vec<char> = s.chars().collect();
            for _ in 0..3 {
                let mut c = chars.clone();
                let k = rng.below(c.len() as u64 + 1) as usize;
                let ins = *rng.pick(&['<', '>', ',', ' ', '.', '$', '_', '0', 'x', '(', '"', '\\', '\n', '\u{a0}', '\u{2003}', '\u{85}', '\u{e9}', '\u{301}', '\u{661}', '\u{b2}', '\u{10ffff}', '\0']);
                match rng.below(3) {
                    0 if k < c.len() => c[k] = ins,
                    1 if k < c.len() => {
                        c.remove(k);
                    }
                    _ => c.insert(k, ins),
                }
                t(&c.into_iter().collect::<String>());
            }
        }
        // fixed malformed shapes
        for s in [
            "", " ", "<", ">", ",", "<>", "int>", "int,", "int ", " int", "list", "list<", "list<>", "list<,>", "list<int,>", "list<int>>", "list<int> ",
            "list <int>", "LIST<int>", "frozen<>", "frozen<frozen<>>", "map<>", "map<int>", "map<int,>", "map<,int>", "map<int;text>", "map<int,text,blob>",
            "map<int ,text>", "map<int,\u{a0}text>", "map<int,\u{2003}\u{85} text>", "tuple<>", "tuple<,>", "tuple<int,>", "tuple<int,,int>", "tuple<int int>",
            "tuple<int , int>", "vector<>", "vector<int>", "vector<int,>", "vector<int,x>", "vector<int,-1>", "vector<int,+1>", "vector<int,1.0>",
            "vector<int,\u{661}>", "vector<int,1\u{661}>", "vector<int, 65535>", "vector<int, 65536>", "vector<int,1,2>", "vector<,3>", "vector<int 3>",
            "frozen<int", "frozen<int>>", "frozen<my_udt>", "frozen<frozen<list<my.udt>>>", "frozen<tuple<int>>", "frozen<vector<int,2>>", "frozen<map<int,int>>",
            "\u{e9}", "t\u{e9}<int>", "list<\u{e9}\u{301}>", "\u{301}", "$", ".", "a.b.c", "a..b", "a b", "a\u{a0}b", "\u{ff21}\u{1d7d8}", "int\u{e9}", "in", "intt", "_int",
            "text\0", "\"quoted\"", "'q'", "org.apache.cassandra.db.marshal.Int32Type", "frozen<org.apache.cassandra.db.marshal.ListType(Int32Type)>",
        ] {
            t(s);
        }
        for _ in 0..100 * scale {
            t(&uni_ident(rng));
            t(&format!("frozen<{}>", uni_ident(rng)));
            t(&format!("map<{}, {}>", uni_ident(rng), uni_ident(rng)));
        }
    }

    // primitive readers
    let prims = ["short", "int", "long", "intlen", "cons", "string", "lstring", "bytes", "sbytes", "bytesopt", "uuid", "inet", "strlist", "strmap", "bytesmap", "strmmap", "value"];
    for _ in 0..4000 * scale {
        let name = *rng.pick(&prims);
        let mut b = B::default();
        match name {
            "short" | "cons" => b.short(*rng.pick(&[0u16, 1, 10, 11, 0xFFFF, 0x1234])),
            "int" | "intlen" => b.int(some_i32(rng)),
            "long" => b.raw(&rng.bytes(8)),
            "string" | "sbytes" => {
                b.string(&ident(rng));
            }
            "lstring" | "bytes" => {
                b.bytes(&ident(rng));
            }
            "bytesopt" | "value" => {
                if rng.chance(1, 3) {
                    b.int(*rng.pick(&[-1, -2, -3, i32::MIN]));
                } else {
                    b.bytes(&blob(rng));
                }
            }
            "uuid" => b.raw(&rng.bytes(16)),
            "inet" => {
                gen_inet(rng, &mut b);
            }
            "strlist" => {
                let l: Vec<Vec<u8>> = (0..rng.below(4)).map(|_| ident(rng)).collect();
                b.string_list(&l);
            }
            "strmap" | "bytesmap" | "strmmap" => {
                let n = rng.below(4);
                b.short(n as u16);
                for _ in 0..n {
                    let k = if rng.chance(1, 4) { b"k".to_vec() } else { ident(rng) };
                    b.string(&k);
                    match name {
                        "strmap" => {
                            b.string(&ident(rng));
                        }
                        "bytesmap" => {
                            b.bytes(&blob(rng));
                        }
                        _ => {
                            let l: Vec<Vec<u8>> = (0..rng.below(3)).map(|_| ident(rng)).collect();
                            b.string_list(&l);
                        }
                    }
                }
            }
            _ => {}
        }
        let mut bytes = b.out.clone();
        match rng.below(5) {
            0 => {
                let cut = rng.below(bytes.len() as u64 + 1) as usize;
                bytes.truncate(cut);
            }
            1 => {
                if !b.marks.is_empty() {
                    let m = *rng.pick(&b.marks);
                    let w = m.w as usize;
                    let new = mutate_value(rng, m.w, &bytes[m.off..m.off + w]);
                    bytes[m.off..m.off + w].copy_from_slice(&new);
                }
            }
            2 => {
                if !bytes.is_empty() {
                    let k = rng.below(bytes.len() as u64) as usize;
                    bytes[k] = *rng.pick(&[0x80u8, 0xC0, 0xFF, 0xED, 0xF5, 0x00]);
                }
            }
            3 => bytes.extend_from_slice(&rng.bytes(3)),
            _ => {}
        }
        emit(format!("p {} {}", name, hex(&bytes)));
    }
    for name in prims {
        for n in 0..20usize {
            emit(format!("p {} {}", name, hex(&vec![0u8; n])));
            emit(format!("p {} {}", name, hex(&vec![0xFFu8; n])));
        }
    }
    // invalid UTF-8 boundary strings
    for s in [&[0xC0u8, 0x80][..], &[0xED, 0xA0, 0x80], &[0xF4, 0x90, 0x80, 0x80], &[0xE2, 0x82], &[0xF0, 0x9F, 0x98, 0x80], &[0xEF, 0xBF, 0xBF], &[0xC2]] {
        let mut b = B::default();
        b.string(s);
        emit(format!("p string {}", hex(&b.out)));
    }
    let _ = opt_hex(None);
    // the connection reader's dispatch on the header's stream field (c08reader.rs)
    crate::c08reader::generate(rng, tier, emit);
}

// ---------------------------------------------------------------------------------------------
// primitive readers (run side)
// ---------------------------------------------------------------------------------------------

pub fn run_prim(name: &str, bs: &[u8]) -> String {
    use scylla_cql::frame::frame_errors::LowLevelDeserializationError as L;
    let buf = &mut &bs[..];
    fn kind(e: L) -> String {
        format!(
            "err {}",
            match e {
                L::IoError(_) => "eof",
                L::TryFromIntError(_) => "negint",
                L::TryFromSliceError(_) => "slice",
                L::TooFewBytesReceived { .. } => "few",
                L::InvalidValueLength(_) => "valuelen",
                L::UnknownConsistency(_) => "consistency",
                L::InvalidInetLength(_) => "inetlen",
                L::UTF8DeserializationError(_) => "utf8",
                _ => "ll?",
            }
        )
    }
    let io = |e: std::io::Error| kind(L::from(e));
    let pairs = |m: Vec<(String, String)>| canon_map(&m);
    let r: Result<String, String> = match name {
        "short" => types::read_short(buf).map(|v| v.to_string()).map_err(io),
        "int" => types::read_int(buf).map(|v| v.to_string()).map_err(io),
        "long" => types::read_long(buf).map(|v| v.to_string()).map_err(io),
        "intlen" => types::read_int_length(buf).map(|v| v.to_string()).map_err(kind),
        "cons" => types::read_consistency(buf).map(|v| (v as u16).to_string()).map_err(kind),
        "string" => types::read_string(buf).map(|v| hex(v.as_bytes())).map_err(kind),
        "lstring" => types::read_long_string(buf).map(|v| hex(v.as_bytes())).map_err(kind),
        "bytes" => types::read_bytes(buf).map(hex).map_err(kind),
        "sbytes" => types::read_short_bytes(buf).map(hex).map_err(kind),
        "bytesopt" => types::read_bytes_opt(buf).map(opt_hex).map_err(kind),
        "uuid" => types::read_uuid(buf).map(|u| hex(u.as_bytes())).map_err(kind),
        "inet" => types::read_inet(buf)
            .map(|a| match a.ip() {
                std::net::IpAddr::V4(v) => format!("{}:{}", hex(&v.octets()), a.port()),
                std::net::IpAddr::V6(v) => format!("{}:{}", hex(&v.octets()), a.port()),
            })
            .map_err(kind),
        "strlist" => types::read_string_list(buf).map(|l| lst(&l.iter().map(|s| hex(s.as_bytes())).collect::<Vec<_>>())).map_err(kind),
        "strmap" => types::read_string_map(buf)
            .map(|m| pairs(m.iter().map(|(k, v)| (hex(k.as_bytes()), hex(v.as_bytes()))).collect()))
            .map_err(kind),
        "bytesmap" => types::read_bytes_map(buf).map(|m| pairs(m.iter().map(|(k, v)| (hex(k.as_bytes()), hex(v))).collect())).map_err(kind),
        "strmmap" => types::read_string_multimap(buf)
            .map(|m| pairs(m.iter().map(|(k, v)| (hex(k.as_bytes()), tup(&v.iter().map(|s| hex(s.as_bytes())).collect::<Vec<_>>()))).collect()))
            .map_err(kind),
        "value" => types::read_value(buf)
            .map(|v| match v {
                types::RawValue::Null => "null".to_owned(),
                types::RawValue::Unset => "unset".to_owned(),
                types::RawValue::Value(b) => format!("v:{}", hex(b)),
            })
            .map_err(kind),
        _ => return "bad-case".into(),
    };
    match r {
        Ok(v) => format!("ok {} rest={}", v, hex(buf)),
        Err(e) => e,
    }
}

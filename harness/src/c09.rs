//! C09 — request frames on the wire say exactly what the caller asked for.
//!
//! Case grammar (space separated words; bytes: `-` empty, `z<n>` n zero bytes, `y<n>` n times 'a', else lowercase hex;
//! optional things: `N` = absent):
//!   query    <comp> <tr> <stream> <text> <cons> <serial> <ts> <page size> <paging state> <skip> <values>
//!   execute  <comp> <tr> <stream> <id> <result metadata id|N> <cons> <serial> <ts> <page size> <paging state> <skip> <values>
//!   prepare  <comp> <tr> <stream> <text>
//!   options  <comp> <tr> <stream>
//!   startup  <comp> <tr> <stream> <key>=<value> ...
//!   register <comp> <tr> <stream> <v1|v2> <Event[*k],...|_>
//!   auth     <comp> <tr> <stream> <bytes|N>
//!   batch    <comp> <tr> <stream> <type> <cons> <serial> <ts> <q:text|p:id>[*k] ... / <values>[*k] ...
//!   biglen   <what> <len>          (only the length guard; a 2 GiB buffer of lazily mapped zero pages)
//! <comp> = none|lz4|snappy, <tr> = 0|1, <stream> = N|i16, <values> = `_` (none) or comma separated `N` (null) / `U` (unset) /
//! bytes, each optionally `*count`.
//!
//! Output: `ok <frame hex>` (with compression: `ok <frame hex> <decompressed body hex>`) or `err <kind>`.
//! The ORACLE is the protocol-spec parser at the bottom of this file (written from native_protocol_v4.spec, shares
//! nothing with the crate's own (de)serializers): every header field and every body field must read back to what the
//! case asked for, and an unrepresentable request must not produce a frame.
use crate::rng::Rng;
use crate::util::{hex, unhex};
use crate::{Ctx, Tier};
use scylla_cql::Consistency;
use scylla_cql::frame::frame_errors::{
    AuthResponseSerializationError, BatchSerializationError, BatchStatementSerializationError,
    CqlRequestSerializationError, ExecuteSerializationError, PrepareSerializationError,
    QueryParametersSerializationError, QuerySerializationError, RegisterSerializationError,
    StartupSerializationError,
};
use scylla_cql::frame::request::batch::{Batch, BatchStatement, BatchType};
use scylla_cql::frame::request::execute::ExecuteV2;
use scylla_cql::frame::request::query::{PagingState, Query, QueryParameters};
use scylla_cql::frame::request::register::{Register, RegisterV2};
use scylla_cql::frame::request::{AuthResponse, Options, Prepare, SerializableRequest, Startup};
use scylla_cql::frame::response::result::{ColumnSpec, ColumnType, NativeType, TableSpec};
use scylla_cql::serialize::batch::BatchValuesFromIterator;
use scylla_cql::serialize::raw_batch::RawBatchValuesAdapter;
use scylla_cql::serialize::row::RowSerializationContext;
use scylla_cql::frame::server_event_type::{EventType, EventTypeV2};
use scylla_cql::frame::types::SerialConsistency;
use scylla_cql::frame::{Compression, SerializedRequest};
use scylla_cql::serialize::SerializationError;
use scylla_cql::serialize::row::SerializedValues;
use scylla_cql::value::MaybeUnset;
use std::borrow::Cow;
use std::collections::HashMap;

mod conn;
mod sessglue;

const MAX_LEN: usize = 1 << 25;

// ------------------------------------------------------------------------------------------------
// what a case asks for
// ------------------------------------------------------------------------------------------------

#[derive(Clone, Debug, PartialEq, Eq)]
enum Val {
    Null,
    Unset,
    Bytes(Vec<u8>),
}

#[derive(Clone, Debug)]
struct Params {
    cons: Consistency,
    serial: Option<SerialConsistency>,
    ts: Option<i64>,
    page_size: Option<i32>,
    paging: Option<Vec<u8>>,
    skip: bool,
    values: Vec<Val>,
}

#[derive(Clone, Debug)]
enum Stmt {
    Query(String),
    Prepared(Vec<u8>),
}

#[derive(Clone, Debug)]
enum Asked {
    Options,
    Prepare(String),
    Auth(Option<Vec<u8>>),
    Query(String, Params),
    Execute(Vec<u8>, Option<Vec<u8>>, Params),
    Register(bool, Vec<String>), // v2?, event variant names
    Startup(Vec<(String, String)>),
    Batch {
        ty: BatchType,
        cons: Consistency,
        serial: Option<SerialConsistency>,
        ts: Option<i64>,
        stmts: Vec<Stmt>,
        values: Vec<Vec<Val>>,
        /// `Some((carrier, context column counts per statement))`: the values go through `RawBatchValuesAdapter`
        adapter: Option<(String, Vec<usize>)>,
    },
}

fn bytes_tok(s: &str) -> Option<Vec<u8>> {
    if let Some(n) = s.strip_prefix('z') {
        let n: usize = n.parse().ok()?;
        return (n <= MAX_LEN).then(|| vec![0u8; n]);
    }
    if let Some(n) = s.strip_prefix('y') {
        if let Ok(n) = n.parse::<usize>() {
            return (n <= MAX_LEN).then(|| vec![0x61u8; n]);
        }
    }
    unhex(s)
}

fn opt_bytes_tok(s: &str) -> Option<Option<Vec<u8>>> {
    if s == "N" { Some(None) } else { bytes_tok(s).map(Some) }
}

fn str_tok(s: &str) -> Option<String> {
    String::from_utf8(bytes_tok(s)?).ok()
}

fn repeated<T: Clone>(s: &str, sep: char, f: impl Fn(&str) -> Option<T>) -> Option<Vec<T>> {
    match s.split_once(sep) {
        None => Some(vec![f(s)?]),
        Some((x, k)) => {
            let k: usize = k.parse().ok()?;
            if k > MAX_LEN {
                return None;
            }
            Some(vec![f(x)?; k])
        }
    }
}

fn val_tok(s: &str) -> Option<Val> {
    match s {
        "N" => Some(Val::Null),
        "U" => Some(Val::Unset),
        _ => bytes_tok(s).map(Val::Bytes),
    }
}

fn values_tok(s: &str) -> Option<Vec<Val>> {
    if s == "_" {
        return Some(vec![]);
    }
    let mut out = Vec::new();
    for item in s.split(',') {
        out.extend(repeated(item, '*', val_tok)?);
    }
    Some(out)
}

const CONSISTENCIES: [(&str, Consistency, u16); 11] = [
    ("Any", Consistency::Any, 0x0000),
    ("One", Consistency::One, 0x0001),
    ("Two", Consistency::Two, 0x0002),
    ("Three", Consistency::Three, 0x0003),
    ("Quorum", Consistency::Quorum, 0x0004),
    ("All", Consistency::All, 0x0005),
    ("LocalQuorum", Consistency::LocalQuorum, 0x0006),
    ("EachQuorum", Consistency::EachQuorum, 0x0007),
    ("Serial", Consistency::Serial, 0x0008),
    ("LocalSerial", Consistency::LocalSerial, 0x0009),
    ("LocalOne", Consistency::LocalOne, 0x000A),
];

fn cons_tok(s: &str) -> Option<Consistency> {
    CONSISTENCIES.iter().find(|(n, _, _)| *n == s).map(|(_, c, _)| *c)
}

/// Protocol code of a consistency level, from the specification (NOT `c as u16`).
fn spec_cons_code(c: Consistency) -> u16 {
    CONSISTENCIES.iter().find(|(_, x, _)| *x == c).map(|(_, _, code)| *code).unwrap()
}

fn spec_serial_code(c: SerialConsistency) -> u16 {
    match c {
        SerialConsistency::Serial => 0x0008,
        SerialConsistency::LocalSerial => 0x0009,
    }
}

fn serial_tok(s: &str) -> Option<Option<SerialConsistency>> {
    match s {
        "N" => Some(None),
        "Serial" => Some(Some(SerialConsistency::Serial)),
        "LocalSerial" => Some(Some(SerialConsistency::LocalSerial)),
        _ => None,
    }
}

fn opt_num<T: std::str::FromStr>(s: &str) -> Option<Option<T>> {
    if s == "N" { Some(None) } else { s.parse().ok().map(Some) }
}

fn params_toks(w: &[&str]) -> Option<Params> {
    if w.len() != 7 {
        return None;
    }
    Some(Params {
        cons: cons_tok(w[0])?,
        serial: serial_tok(w[1])?,
        ts: opt_num(w[2])?,
        page_size: opt_num(w[3])?,
        paging: opt_bytes_tok(w[4])?,
        skip: match w[5] {
            "0" => false,
            "1" => true,
            _ => return None,
        },
        values: values_tok(w[6])?,
    })
}

fn stmt_tok(s: &str) -> Option<Stmt> {
    let (k, v) = s.split_once(':')?;
    match k {
        "q" => str_tok(v).map(Stmt::Query),
        "p" => bytes_tok(v).map(Stmt::Prepared),
        _ => None,
    }
}

const EVENTS: [(&str, &str); 4] = [
    ("TopologyChange", "TOPOLOGY_CHANGE"),
    ("StatusChange", "STATUS_CHANGE"),
    ("SchemaChange", "SCHEMA_CHANGE"),
    ("ClientRoutesChange", "CLIENT_ROUTES_CHANGE"),
];

fn asked_of(kind: &str, f: &[&str]) -> Option<Asked> {
    match kind {
        "options" if f.is_empty() => Some(Asked::Options),
        "prepare" if f.len() == 1 => str_tok(f[0]).map(Asked::Prepare),
        "auth" if f.len() == 1 => opt_bytes_tok(f[0]).map(Asked::Auth),
        "query" if f.len() == 8 => Some(Asked::Query(str_tok(f[0])?, params_toks(&f[1..])?)),
        "execute" if f.len() == 9 => Some(Asked::Execute(bytes_tok(f[0])?, opt_bytes_tok(f[1])?, params_toks(&f[2..])?)),
        "register" if f.len() == 2 => {
            let v2 = match f[0] {
                "v1" => false,
                "v2" => true,
                _ => return None,
            };
            let mut evs = Vec::new();
            if f[1] != "_" {
                for item in f[1].split(',') {
                    evs.extend(repeated(item, '*', |s| EVENTS.iter().find(|(n, _)| *n == s).map(|(n, _)| n.to_string()))?);
                }
            }
            if !v2 && evs.iter().any(|e| e == "ClientRoutesChange") {
                return None;
            }
            Some(Asked::Register(v2, evs))
        }
        "startup" => {
            let mut m = Vec::new();
            for p in f {
                let (k, v) = p.split_once('=')?;
                m.push((str_tok(k)?, str_tok(v)?));
            }
            Some(Asked::Startup(m))
        }
        "batch" | "abatch" if f.len() >= 6 || (kind == "batch" && f.len() >= 5) => {
            let (carrier, f) = if kind == "abatch" { (Some(f[0]), &f[1..]) } else { (None, f) };
            if let Some(c) = carrier {
                if !["vec", "iter", "tuple"].contains(&c) {
                    return None;
                }
            }
            let ty = match f[0] {
                "Logged" => BatchType::Logged,
                "Unlogged" => BatchType::Unlogged,
                "Counter" => BatchType::Counter,
                _ => return None,
            };
            let cons = cons_tok(f[1])?;
            let serial = serial_tok(f[2])?;
            let ts = opt_num(f[3])?;
            let rest = &f[4..];
            let slash = rest.iter().position(|w| *w == "/")?;
            let mut stmts = Vec::new();
            let mut cols = Vec::new();
            for t in &rest[..slash] {
                if carrier.is_some() {
                    // `q:<text>[#cols]` / `p:<id>[#cols]`, optionally `^k`
                    let sc = repeated(t, '^', |x| match x.split_once('#') {
                        None => stmt_tok(x).map(|s| (s, 0usize)),
                        Some((x, n)) => Some((stmt_tok(x)?, n.parse().ok()?)),
                    })?;
                    for (s, c) in sc {
                        stmts.push(s);
                        cols.push(c);
                    }
                } else {
                    stmts.extend(repeated(t, '^', stmt_tok)?);
                }
            }
            let mut values = Vec::new();
            for t in &rest[slash + 1..] {
                values.extend(repeated(t, '^', values_tok)?);
            }
            if carrier == Some("tuple") && !(1..=4).contains(&values.len()) {
                return None;
            }
            let adapter = carrier.map(|c| (c.to_string(), cols));
            Some(Asked::Batch { ty, cons, serial, ts, stmts, values, adapter })
        }
        _ => None,
    }
}

// ------------------------------------------------------------------------------------------------
// running the real implementation
// ------------------------------------------------------------------------------------------------

fn ser_err_kind(e: &SerializationError) -> String {
    if let Some(inner) = e.downcast_ref::<SerializationError>() {
        return ser_err_kind(inner);
    }
    use scylla_cql::serialize::row::{BuiltinSerializationError as RowErr, BuiltinSerializationErrorKind as RowKind};
    use scylla_cql::serialize::value::{BuiltinSerializationError as ValErr, BuiltinSerializationErrorKind as ValKind};
    if let Some(r) = e.downcast_ref::<RowErr>() {
        return match &r.kind {
            RowKind::TooManyValues => "Values.TooManyValues".into(),
            _ => "Values.Other".into(),
        };
    }
    if let Some(v) = e.downcast_ref::<ValErr>() {
        return match &v.kind {
            ValKind::SizeOverflow => "Values.ValueTooBig".into(),
            _ => "Values.Other".into(),
        };
    }
    "Values.Other".into()
}

/// `SerializedValues::new()` + `add_value` per element (blob-typed cells; null = `None`, unset = `MaybeUnset::Unset`).
fn mk_values(vs: &[Val]) -> Result<SerializedValues, String> {
    let blob = ColumnType::Native(NativeType::Blob);
    let mut sv = SerializedValues::new();
    for v in vs {
        let r = match v {
            Val::Null => sv.add_value(&None::<&[u8]>, &blob),
            Val::Unset => sv.add_value(&MaybeUnset::<&[u8]>::Unset, &blob),
            Val::Bytes(b) => sv.add_value(&b.as_slice(), &blob),
        };
        r.map_err(|e| ser_err_kind(&e))?;
    }
    Ok(sv)
}

fn params_err(tag: &str, e: &QueryParametersSerializationError) -> String {
    match e {
        QueryParametersSerializationError::BadPagingState(_) => format!("{tag}.BadPagingState"),
        _ => format!("{tag}.ParamsOther"),
    }
}

fn err_kind(e: &CqlRequestSerializationError) -> String {
    use CqlRequestSerializationError as E;
    match e {
        E::StartupSerialization(StartupSerializationError::OptionsSerialization(_)) => "Startup.Options".into(),
        E::RegisterSerialization(RegisterSerializationError::EventTypesSerialization(_)) => "Register.EventTypes".into(),
        E::AuthResponseSerialization(AuthResponseSerializationError::ResponseSerialization(_)) => "AuthResponse.Response".into(),
        E::PrepareSerialization(PrepareSerializationError::StatementStringSerialization(_)) => "Prepare.StatementString".into(),
        E::QuerySerialization(QuerySerializationError::StatementStringSerialization(_)) => "Query.StatementString".into(),
        E::QuerySerialization(QuerySerializationError::QueryParametersSerialization(p)) => params_err("Query", p),
        E::ExecuteSerialization(ExecuteSerializationError::StatementIdSerialization(_)) => "Execute.StatementId".into(),
        E::ExecuteSerialization(ExecuteSerializationError::ResultMetadataIdSerialization(_)) => "Execute.ResultMetadataId".into(),
        E::ExecuteSerialization(ExecuteSerializationError::QueryParametersSerialization(p)) => params_err("Execute", p),
        E::BatchSerialization(b) => match b {
            BatchSerializationError::TooManyStatements(_) => "Batch.TooManyStatements".into(),
            BatchSerializationError::ValuesAndStatementsLengthMismatch { n_value_lists, n_statements } => {
                format!("Batch.Mismatch {n_value_lists} {n_statements}")
            }
            BatchSerializationError::StatementSerialization { statement_idx, error } => {
                let k = match error {
                    BatchStatementSerializationError::StatementStringSerialization(_) => "StatementString",
                    BatchStatementSerializationError::StatementIdSerialization(_) => "StatementId",
                    BatchStatementSerializationError::TooManyValues(_) => "TooManyValues",
                    BatchStatementSerializationError::ValuesSerialiation(_) => "Values",
                    _ => "Other",
                };
                format!("Batch.Stmt {statement_idx} {k}")
            }
            BatchSerializationError::BadBatchConstructed { .. } => "Batch.BadBatchConstructed".into(),
            _ => "Batch.Other".into(),
        },
        E::SnapCompressError(_) => "SnapCompress".into(),
        _ => "Other".into(),
    }
}

fn make<R: SerializableRequest>(
    req: &R,
    comp: Option<Compression>,
    tr: bool,
    stream: Option<i16>,
) -> Result<(Vec<u8>, Vec<u8>), String> {
    let mut sr = SerializedRequest::make(req, comp, tr).map_err(|e| err_kind(&e))?;
    if let Some(s) = stream {
        sr.set_stream(s);
    }
    // the same request without compression: the reference for "decompresses to the uncompressed body"
    let plain = SerializedRequest::make(req, None, tr).map_err(|e| err_kind(&e))?;
    Ok((sr.get_data().to_vec(), plain.get_data()[9.min(plain.get_data().len())..].to_vec()))
}

type Cell = MaybeUnset<Option<Vec<u8>>>;

fn cell_of(v: &Val) -> Cell {
    match v {
        Val::Null => MaybeUnset::Set(None),
        Val::Unset => MaybeUnset::Unset,
        Val::Bytes(b) => MaybeUnset::Set(Some(b.clone())),
    }
}

fn mk_params<'a>(p: &Params, sv: &'a SerializedValues) -> QueryParameters<'a> {
    QueryParameters {
        consistency: p.cons,
        serial_consistency: p.serial,
        timestamp: p.ts,
        page_size: p.page_size,
        paging_state: match &p.paging {
            Some(b) => PagingState::new_from_raw_bytes(b.as_slice()),
            None => PagingState::start(),
        },
        skip_metadata: p.skip,
        values: Cow::Borrowed(sv),
    }
}

/// Builds the request through the public API and serializes it. Ok((frame, uncompressed body)).
fn run_impl(a: &Asked, comp: Option<Compression>, tr: bool, stream: Option<i16>, ctx: &mut Ctx) -> Result<(Vec<u8>, Vec<u8>), String> {
    match a {
        Asked::Options => make(&Options, comp, tr, stream),
        Asked::Prepare(q) => make(&Prepare { query: q }, comp, tr, stream),
        Asked::Auth(r) => make(&AuthResponse { response: r.clone() }, comp, tr, stream),
        Asked::Query(text, p) => {
            let sv = mk_values(&p.values)?;
            make(&Query { contents: Cow::Borrowed(text), parameters: mk_params(p, &sv) }, comp, tr, stream)
        }
        Asked::Execute(id, mid, p) => {
            let sv = mk_values(&p.values)?;
            let req = ExecuteV2 {
                id: id.as_slice().into(),
                result_metadata_id: mid.as_ref().map(|m| m.as_slice().into()),
                parameters: mk_params(p, &sv),
            };
            let r = make(&req, comp, tr, stream);
            if mid.is_none() {
                // the deprecated `Execute` must put the same bytes on the wire
                #[allow(deprecated)]
                let old = scylla_cql::frame::request::Execute { id: bytes::Bytes::copy_from_slice(id), parameters: mk_params(p, &sv) };
                let r2 = make(&old, comp, tr, stream);
                if r != r2 {
                    ctx.fail("deprecated Execute and ExecuteV2{result_metadata_id: None} serialize differently");
                }
            }
            r
        }
        Asked::Register(v2, evs) => {
            if *v2 {
                let l = evs
                    .iter()
                    .map(|e| match e.as_str() {
                        "TopologyChange" => EventTypeV2::TopologyChange,
                        "StatusChange" => EventTypeV2::StatusChange,
                        "SchemaChange" => EventTypeV2::SchemaChange,
                        _ => EventTypeV2::ClientRoutesChange,
                    })
                    .collect();
                make(&RegisterV2 { event_types_to_register_for: l }, comp, tr, stream)
            } else {
                let l = evs
                    .iter()
                    .map(|e| match e.as_str() {
                        "TopologyChange" => EventType::TopologyChange,
                        "StatusChange" => EventType::StatusChange,
                        _ => EventType::SchemaChange,
                    })
                    .collect();
                make(&Register { event_types_to_register_for: l }, comp, tr, stream)
            }
        }
        Asked::Startup(m) => {
            let options: HashMap<Cow<str>, Cow<str>> =
                m.iter().map(|(k, v)| (Cow::Borrowed(k.as_str()), Cow::Borrowed(v.as_str()))).collect();
            make(&Startup { options }, comp, tr, stream)
        }
        Asked::Batch { ty, cons, serial, ts, stmts, values, adapter } => {
            let statements: Vec<BatchStatement> = stmts
                .iter()
                .map(|s| match s {
                    Stmt::Query(t) => BatchStatement::Query { text: Cow::Borrowed(t.as_str()) },
                    Stmt::Prepared(i) => BatchStatement::Prepared { id: Cow::Borrowed(i.as_slice()) },
                })
                .collect();
            match adapter {
                None => {
                    let mut svs = Vec::with_capacity(values.len());
                    for v in values {
                        svs.push(mk_values(v)?);
                    }
                    let b = Batch {
                        statements: Cow::Owned(statements),
                        batch_type: *ty,
                        consistency: *cons,
                        serial_consistency: *serial,
                        timestamp: *ts,
                        values: svs,
                    };
                    make(&b, comp, tr, stream)
                }
                Some((carrier, cols)) => {
                    // typed rows + one RowSerializationContext per statement, as Connection::batch_with_consistency does
                    let rows: Vec<Vec<Cell>> = values.iter().map(|v| v.iter().map(cell_of).collect()).collect();
                    let specs: Vec<Vec<ColumnSpec<'static>>> = cols
                        .iter()
                        .map(|n| {
                            (0..*n)
                                .map(|_| ColumnSpec::borrowed("c", ColumnType::Native(NativeType::Blob), TableSpec::borrowed("ks", "t")))
                                .collect()
                        })
                        .collect();
                    let contexts = specs.iter().map(|s| RowSerializationContext::from_specs(s.as_slice()));
                    macro_rules! go {
                        ($bv:expr) => {{
                            let b = Batch {
                                statements: Cow::Owned(statements),
                                batch_type: *ty,
                                consistency: *cons,
                                serial_consistency: *serial,
                                timestamp: *ts,
                                values: RawBatchValuesAdapter::new($bv, contexts),
                            };
                            make(&b, comp, tr, stream)
                        }};
                    }
                    match (carrier.as_str(), rows.len()) {
                        ("vec", _) => go!(&rows),
                        ("iter", _) => go!(BatchValuesFromIterator::new(rows.iter())),
                        ("tuple", 1) => go!((&rows[0],)),
                        ("tuple", 2) => go!((&rows[0], &rows[1])),
                        ("tuple", 3) => go!((&rows[0], &rows[1], &rows[2])),
                        ("tuple", 4) => go!((&rows[0], &rows[1], &rows[2], &rows[3])),
                        _ => Err("bad-carrier".into()),
                    }
                }
            }
        }
    }
}

// ------------------------------------------------------------------------------------------------
// ORACLE: a reader of CQL v4 request frames written from the protocol specification
// ------------------------------------------------------------------------------------------------

struct Rd<'a> {
    b: &'a [u8],
    pos: usize,
}

type R<T> = Result<T, String>;

impl<'a> Rd<'a> {
    fn take(&mut self, n: usize) -> R<&'a [u8]> {
        if self.b.len() - self.pos < n {
            return Err(format!("body ends at offset {} where {} more bytes are announced", self.b.len(), n));
        }
        let s = &self.b[self.pos..self.pos + n];
        self.pos += n;
        Ok(s)
    }
    fn u8(&mut self) -> R<u8> {
        Ok(self.take(1)?[0])
    }
    fn short(&mut self) -> R<u16> {
        let s = self.take(2)?;
        Ok(((s[0] as u16) << 8) | s[1] as u16)
    }
    fn int(&mut self) -> R<i32> {
        let s = self.take(4)?;
        let u = ((s[0] as u32) << 24) | ((s[1] as u32) << 16) | ((s[2] as u32) << 8) | s[3] as u32;
        Ok(if u >= 0x8000_0000 { (u as i64 - (1i64 << 32)) as i32 } else { u as i32 })
    }
    fn long(&mut self) -> R<i64> {
        let s = self.take(8)?;
        let mut u: u128 = 0;
        for x in s {
            u = u * 256 + *x as u128;
        }
        Ok(if u >= 1u128 << 63 { (u as i128 - (1i128 << 64)) as i64 } else { u as i64 })
    }
    fn string(&mut self) -> R<&'a [u8]> {
        let n = self.short()? as usize;
        self.take(n)
    }
    fn long_string(&mut self) -> R<&'a [u8]> {
        let n = self.int()?;
        if n < 0 {
            return Err(format!("[long string] with negative length {n}"));
        }
        self.take(n as usize)
    }
    fn bytes(&mut self) -> R<Option<&'a [u8]>> {
        let n = self.int()?;
        if n < 0 { Ok(None) } else { Ok(Some(self.take(n as usize)?)) }
    }
    fn value(&mut self) -> R<Val> {
        let n = self.int()?;
        match n {
            -1 => Ok(Val::Null),
            -2 => Ok(Val::Unset),
            n if n < 0 => Err(format!("[value] with length {n}")),
            n => Ok(Val::Bytes(self.take(n as usize)?.to_vec())),
        }
    }
    fn values(&mut self) -> R<Vec<Val>> {
        let n = self.short()?;
        (0..n).map(|_| self.value()).collect()
    }
    fn end(&self) -> R<()> {
        if self.pos == self.b.len() { Ok(()) } else { Err(format!("{} trailing bytes after the message", self.b.len() - self.pos)) }
    }
}

fn expect<T: PartialEq + std::fmt::Debug>(what: &str, got: T, asked: T) -> R<()> {
    if got == asked {
        Ok(())
    } else {
        let mut g = format!("{got:?}");
        let mut a = format!("{asked:?}");
        g.truncate(80);
        a.truncate(80);
        Err(format!("{what}: frame says {g}, caller asked for {a}"))
    }
}

fn check_values(what: &str, got: &[Val], asked: &[Val]) -> R<()> {
    if got.len() != asked.len() {
        return Err(format!("{what}: frame carries {} values, caller bound {}", got.len(), asked.len()));
    }
    for (i, (g, a)) in got.iter().zip(asked).enumerate() {
        if g != a {
            return Err(format!("{what}: value {i} differs from the bound value"));
        }
    }
    Ok(())
}

/// §4.1.4 <query_parameters>
fn check_params(rd: &mut Rd, p: &Params) -> R<()> {
    expect("consistency", rd.short()?, spec_cons_code(p.cons))?;
    let flags = rd.u8()?;
    let want = (if !p.values.is_empty() { 0x01 } else { 0 })
        | (if p.skip { 0x02 } else { 0 })
        | (if p.page_size.is_some() { 0x04 } else { 0 })
        | (if p.paging.is_some() { 0x08 } else { 0 })
        | (if p.serial.is_some() { 0x10 } else { 0 })
        | (if p.ts.is_some() { 0x20 } else { 0 });
    // read by the flags the frame carries (as a server would), then compare
    let vals = if flags & 0x01 != 0 {
        if flags & 0x40 != 0 {
            return Err("names-for-values flag set".into());
        }
        rd.values()?
    } else {
        vec![]
    };
    let page_size = if flags & 0x04 != 0 { Some(rd.int()?) } else { None };
    let paging = if flags & 0x08 != 0 { Some(rd.bytes()?) } else { None };
    let serial = if flags & 0x10 != 0 { Some(rd.short()?) } else { None };
    let ts = if flags & 0x20 != 0 { Some(rd.long()?) } else { None };
    expect("query flags byte", flags, want)?;
    check_values("values", &vals, &p.values)?;
    expect("skip_metadata", flags & 0x02 != 0, p.skip)?;
    expect("page size", page_size, p.page_size)?;
    expect("paging state", paging.map(|x| x.map(|y| y.to_vec())), p.paging.clone().map(Some))?;
    expect("serial consistency", serial, p.serial.map(spec_serial_code))?;
    expect("timestamp", ts, p.ts)?;
    Ok(())
}

fn spec_opcode(a: &Asked) -> u8 {
    match a {
        Asked::Startup(_) => 0x01,
        Asked::Options => 0x05,
        Asked::Query(..) => 0x07,
        Asked::Prepare(_) => 0x09,
        Asked::Execute(..) => 0x0A,
        Asked::Register(..) => 0x0B,
        Asked::Batch { .. } => 0x0D,
        Asked::Auth(_) => 0x0F,
    }
}

fn check_body(a: &Asked, body: &[u8]) -> R<()> {
    let mut rd = Rd { b: body, pos: 0 };
    match a {
        Asked::Options => {}
        Asked::Prepare(q) => expect("statement text", rd.long_string()?, q.as_bytes())?,
        Asked::Auth(t) => expect("auth token", rd.bytes()?, t.as_deref())?,
        Asked::Query(text, p) => {
            expect("statement text", rd.long_string()?, text.as_bytes())?;
            check_params(&mut rd, p)?;
        }
        Asked::Execute(id, mid, p) => {
            expect("statement id", rd.string()?, id.as_slice())?;
            if let Some(m) = mid {
                expect("result metadata id", rd.string()?, m.as_slice())?;
            }
            check_params(&mut rd, p)?;
        }
        Asked::Register(_, evs) => {
            let n = rd.short()? as usize;
            expect("number of event types", n, evs.len())?;
            for e in evs {
                let name = EVENTS.iter().find(|(v, _)| v == e).unwrap().1;
                expect("event type", rd.string()?, name.as_bytes())?;
            }
        }
        Asked::Startup(m) => {
            let n = rd.short()? as usize;
            expect("number of options", n, m.len())?;
            let mut got = Vec::new();
            for _ in 0..n {
                let k = rd.string()?.to_vec();
                let v = rd.string()?.to_vec();
                got.push((k, v));
            }
            got.sort();
            let mut want: Vec<(Vec<u8>, Vec<u8>)> = m.iter().map(|(k, v)| (k.clone().into_bytes(), v.clone().into_bytes())).collect();
            want.sort();
            if got != want {
                return Err("STARTUP options differ from the requested map".into());
            }
        }
        Asked::Batch { ty, cons, serial, ts, stmts, values, .. } => {
            let want_ty = match ty {
                BatchType::Logged => 0u8,
                BatchType::Unlogged => 1,
                BatchType::Counter => 2,
            };
            expect("batch type", rd.u8()?, want_ty)?;
            let n = rd.short()? as usize;
            expect("number of statements", n, stmts.len())?;
            if values.len() != stmts.len() {
                return Err(format!("a frame was produced for {} statements with {} value lists", stmts.len(), values.len()));
            }
            for (i, (s, vs)) in stmts.iter().zip(values).enumerate() {
                let kind = rd.u8()?;
                match s {
                    Stmt::Query(t) => {
                        expect(&format!("statement {i} kind"), kind, 0)?;
                        expect(&format!("statement {i} text"), rd.long_string()?, t.as_bytes())?;
                    }
                    Stmt::Prepared(id) => {
                        expect(&format!("statement {i} kind"), kind, 1)?;
                        expect(&format!("statement {i} id"), rd.string()?, id.as_slice())?;
                    }
                }
                let got = rd.values()?;
                check_values(&format!("statement {i} values"), &got, vs)?;
            }
            expect("consistency", rd.short()?, spec_cons_code(*cons))?;
            let flags = rd.u8()?;
            let want = (if serial.is_some() { 0x10 } else { 0 }) | (if ts.is_some() { 0x20 } else { 0 });
            let got_serial = if flags & 0x10 != 0 { Some(rd.short()?) } else { None };
            let got_ts = if flags & 0x20 != 0 { Some(rd.long()?) } else { None };
            expect("batch flags byte", flags, want)?;
            expect("serial consistency", got_serial, serial.map(spec_serial_code))?;
            expect("timestamp", got_ts, *ts)?;
        }
    }
    rd.end()
}

/// Is the request representable in a v4 frame at all? (statement < 2^31 bytes, ids / strings < 2^16 bytes,
/// at most 65535 values / statements / list entries, one value list per statement)
fn representable(a: &Asked) -> Result<(), String> {
    let vals_ok = |vs: &[Val]| -> Result<(), String> {
        if vs.len() > 65535 {
            return Err(format!("{} values", vs.len()));
        }
        Ok(())
    };
    let short = |what: &str, n: usize| if n > 65535 { Err(format!("{what} of {n} bytes")) } else { Ok(()) };
    match a {
        Asked::Options | Asked::Prepare(_) | Asked::Auth(_) => Ok(()),
        Asked::Query(_, p) => vals_ok(&p.values),
        Asked::Execute(id, mid, p) => {
            short("statement id", id.len())?;
            if let Some(m) = mid {
                short("result metadata id", m.len())?;
            }
            vals_ok(&p.values)
        }
        Asked::Register(_, evs) => if evs.len() > 65535 { Err(format!("{} event types", evs.len())) } else { Ok(()) },
        Asked::Startup(m) => {
            if m.len() > 65535 {
                return Err(format!("{} options", m.len()));
            }
            for (k, v) in m {
                short("option key", k.len())?;
                short("option value", v.len())?;
            }
            Ok(())
        }
        Asked::Batch { stmts, values, .. } => {
            if stmts.len() > 65535 {
                return Err(format!("{} statements", stmts.len()));
            }
            if stmts.len() != values.len() {
                return Err(format!("{} statements but {} value lists", stmts.len(), values.len()));
            }
            for s in stmts {
                if let Stmt::Prepared(id) = s {
                    short("statement id", id.len())?;
                }
            }
            for v in values {
                vals_ok(v)?;
            }
            Ok(())
        }
    }
}

fn oracle(a: &Asked, comp: Option<Compression>, tr: bool, stream: Option<i16>, frame: &[u8], plain_body: &[u8]) -> R<Vec<u8>> {
    if let Err(why) = representable(a) {
        return Err(format!("a frame was emitted for an unrepresentable request ({why}): truncation instead of an error"));
    }
    if frame.len() < 9 {
        return Err(format!("frame of {} bytes is shorter than a header", frame.len()));
    }
    expect("version byte", frame[0], 0x04)?;
    let want_flags = (if comp.is_some() { 0x01 } else { 0 }) | (if tr { 0x02 } else { 0 });
    expect("frame flags byte", frame[1], want_flags)?;
    let st = (((frame[2] as u16) << 8) | frame[3] as u16) as i16;
    expect("stream id", st, stream.unwrap_or(0))?;
    expect("opcode", frame[4], spec_opcode(a))?;
    let len = ((frame[5] as usize) << 24) | ((frame[6] as usize) << 16) | ((frame[7] as usize) << 8) | frame[8] as usize;
    expect("length field vs body size", len, frame.len() - 9)?;
    let body: Vec<u8> = match comp {
        None => frame[9..].to_vec(),
        Some(Compression::Lz4) => {
            let c = &frame[9..];
            if c.len() < 4 {
                return Err("LZ4 body shorter than its length prefix".into());
            }
            let n = ((c[0] as usize) << 24) | ((c[1] as usize) << 16) | ((c[2] as usize) << 8) | c[3] as usize;
            let d = lz4_flex::decompress(&c[4..], n).map_err(|e| format!("LZ4 body does not decompress: {e}"))?;
            expect("LZ4 uncompressed-length prefix", n, d.len())?;
            d
        }
        Some(Compression::Snappy) => snap::raw::Decoder::new()
            .decompress_vec(&frame[9..])
            .map_err(|e| format!("Snappy body does not decompress: {e}"))?,
    };
    if let Some(c) = comp {
        // the driver's own `frame::decompress` (with its size guards) must accept the driver's own compressed body
        match scylla_cql::frame::decompress(&frame[9..], c) {
            Ok(d) => {
                if d != body {
                    return Err("frame::decompress of the emitted body differs from the reference decompressor".into());
                }
            }
            Err(e) => return Err(format!("the driver's own frame::decompress rejects the emitted body: {e}")),
        }
    }
    if comp.is_some() && body != plain_body {
        // (for STARTUP the two serializations may iterate the map differently only if the map changed - it did not)
        return Err("compressed body does not decompress to the uncompressed body".into());
    }
    check_body(a, &body)?;
    Ok(body)
}

fn comp_tok(s: &str) -> Option<Option<Compression>> {
    match s {
        "none" => Some(None),
        "lz4" => Some(Some(Compression::Lz4)),
        "snappy" => Some(Some(Compression::Snappy)),
        _ => None,
    }
}

fn big_len(what: &str, n: usize, ctx: &mut Ctx) -> String {
    // lazily mapped zero pages: the length guard must fire before anything is copied
    let zeros = vec![0u8; n];
    let res: Result<(), String> = match what {
        "query-statement" => {
            let s = String::from_utf8(zeros).unwrap();
            let q = Query { contents: Cow::Borrowed(&s), parameters: QueryParameters::default() };
            SerializedRequest::make(&q, None, false).map(|_| ()).map_err(|e| err_kind(&e))
        }
        "prepare-statement" => {
            let s = String::from_utf8(zeros).unwrap();
            SerializedRequest::make(&Prepare { query: &s }, None, false).map(|_| ()).map_err(|e| err_kind(&e))
        }
        "batch-statement" => {
            let s = String::from_utf8(zeros).unwrap();
            let b = Batch {
                statements: Cow::Owned(vec![BatchStatement::Query { text: Cow::Borrowed(s.as_str()) }]),
                batch_type: BatchType::Logged,
                consistency: Consistency::One,
                serial_consistency: None,
                timestamp: None,
                values: vec![SerializedValues::new()],
            };
            SerializedRequest::make(&b, None, false).map(|_| ()).map_err(|e| err_kind(&e))
        }
        "value" => {
            let mut sv = SerializedValues::new();
            sv.add_value(&zeros.as_slice(), &ColumnType::Native(NativeType::Blob)).map_err(|e| ser_err_kind(&e))
        }
        "paging-state" => {
            let p = QueryParameters { paging_state: PagingState::new_from_raw_bytes(zeros), ..Default::default() };
            let q = Query { contents: Cow::Borrowed("x"), parameters: p };
            SerializedRequest::make(&q, None, false).map(|_| ()).map_err(|e| err_kind(&e))
        }
        "execute-paging-state" => {
            let p = QueryParameters { paging_state: PagingState::new_from_raw_bytes(zeros), ..Default::default() };
            let e = ExecuteV2 { id: [1u8].as_slice().into(), result_metadata_id: None, parameters: p };
            SerializedRequest::make(&e, None, false).map(|_| ()).map_err(|e| err_kind(&e))
        }
        "adapter-value" => {
            // a typed row with one oversize cell through RawBatchValuesAdapter
            let rows: Vec<Vec<Cell>> = vec![vec![MaybeUnset::Set(Some(zeros))]];
            let specs = vec![ColumnSpec::borrowed("c", ColumnType::Native(NativeType::Blob), TableSpec::borrowed("ks", "t"))];
            let all = [specs];
            let contexts = all.iter().map(|s| RowSerializationContext::from_specs(s.as_slice()));
            let b = Batch {
                statements: Cow::Owned(vec![BatchStatement::Prepared { id: Cow::Borrowed(&[1u8][..]) }]),
                batch_type: BatchType::Logged,
                consistency: Consistency::One,
                serial_consistency: None,
                timestamp: None,
                values: RawBatchValuesAdapter::new(&rows, contexts),
            };
            SerializedRequest::make(&b, None, false).map(|_| ()).map_err(|e| err_kind(&e))
        }
        "auth-response" => SerializedRequest::make(&AuthResponse { response: Some(zeros) }, None, false)
            .map(|_| ())
            .map_err(|e| err_kind(&e)),
        _ => return "bad-case".into(),
    };
    match res {
        Ok(()) => {
            if n >= 1usize << 31 {
                ctx.fail(format!("{what} of {n} bytes was accepted although its length does not fit the protocol's [int]"));
            }
            "accepted".into()
        }
        Err(k) => format!("err {k}"),
    }
}

/// Largest declared size for which the harness itself calls the reference block decoders (they allocate it).
const REF_CAP: usize = 1 << 26;

/// `decomp <lz4|snappy> <body>`: any body (the driver's own output with a forged declared size, truncated, garbage)
/// through the driver's `frame::decompress`. Output: `<ok HEX | err prefix|guard|header|codec> ref=<ok:HEX|err|skip|none>
/// [len=<n|err>]`; `ref` / `len` are what the reference block decoders answer (the model's codec parameters).
fn run_decomp(c: Compression, body: &[u8], ctx: &mut Ctx) -> String {
    use scylla_cql::frame::frame_errors::{FrameBodyExtensionsParseError as E, LowLevelDeserializationError};
    // reference decoders (parameters of the model)
    let mut len_s = String::new();
    let reference: Option<Result<Vec<u8>, ()>> = match c {
        Compression::Lz4 => {
            if body.len() < 4 {
                None
            } else {
                let n = ((body[0] as usize) << 24) | ((body[1] as usize) << 16) | ((body[2] as usize) << 8) | body[3] as usize;
                if n > REF_CAP { None } else { Some(lz4_flex::decompress(&body[4..], n).map_err(|_| ())) }
            }
        }
        Compression::Snappy => match snap::raw::decompress_len(body) {
            Err(_) => {
                len_s = " len=err".into();
                None
            }
            Ok(n) => {
                len_s = format!(" len={n}");
                if n > REF_CAP { None } else { Some(snap::raw::Decoder::new().decompress_vec(body).map_err(|_| ())) }
            }
        },
    };
    let ref_s = match (&reference, c, body.len() < 4) {
        (None, Compression::Lz4, true) => "none".to_string(),
        (None, Compression::Snappy, _) if len_s == " len=err" => "none".to_string(),
        (None, _, _) => "skip".to_string(),
        (Some(Ok(d)), _, _) => format!("ok:{}", hex(d)),
        (Some(Err(())), _, _) => "err".to_string(),
    };
    fn is<T: std::error::Error + 'static>(e: &std::sync::Arc<dyn std::error::Error + Sync + Send>) -> bool {
        (&**e as &(dyn std::error::Error + 'static)).downcast_ref::<T>().is_some()
    }
    let outcome = match scylla_cql::frame::decompress(body, c) {
        Ok(d) => {
            // model-independent: what the driver returns is what the reference decoder returns
            match &reference {
                Some(Ok(r)) if *r == d => {}
                Some(_) => ctx.fail("frame::decompress returned bytes that differ from the reference block decoder's"),
                None => {}
            }
            format!("ok {}", hex(&d))
        }
        Err(E::Lz4DecompressError(e)) => {
            if is::<LowLevelDeserializationError>(&e) {
                "err prefix".into()
            } else if is::<std::io::Error>(&e) {
                "err guard".into()
            } else {
                "err codec".into()
            }
        }
        Err(E::SnapDecompressError(e)) => {
            if is::<std::io::Error>(&e) {
                "err guard".into()
            } else if len_s == " len=err" {
                "err header".into()
            } else {
                "err codec".into()
            }
        }
        Err(_) => "err other".into(),
    };
    format!("{outcome} ref={ref_s}{len_s}")
}

fn varint(mut n: u64) -> Vec<u8> {
    let mut v = Vec::new();
    loop {
        let b = (n & 0x7f) as u8;
        n >>= 7;
        if n == 0 {
            v.push(b);
            return v;
        }
        v.push(b | 0x80);
    }
}

fn gen_decomp(rng: &mut Rng, scale: u64, emit: &mut dyn FnMut(String)) {
    let datas = |rng: &mut Rng| -> Vec<u8> {
        match rng.below(6) {
            0 => vec![0u8; *rng.pick(&[0usize, 1, 63, 64, 65, 255, 256, 1000, 16384, 65536, 300000])],
            1 => { let n = rng.below(300) as usize; rng.bytes(n) },
            2 => (0..rng.below(3000) as usize).map(|i| (i % 7) as u8).collect(),
            3 => vec![0x61u8; rng.below(70000) as usize],
            _ => { let n = rng.below(40) as usize; rng.bytes(n) },
        }
    };
    for _ in 0..400 * scale {
        let data = datas(rng);
        // LZ4: <declared size u32><block>; declared sizes around the truth and around the guard len*255+64
        let block = lz4_flex::compress(&data);
        let guard = block.len() as u64 * 255 + 64;
        let declared: u64 = match rng.below(12) {
            0 | 1 | 2 => data.len() as u64,
            3 => (data.len() as u64).saturating_sub(1),
            4 => data.len() as u64 + 1,
            5 => guard.saturating_sub(1),
            6 => guard,
            7 => guard + 1,
            8 => guard + 2,
            9 => *rng.pick(&[0u64, 1 << 31, (1 << 32) - 1, 1 << 24, 65, 64]),
            _ => rng.below(guard + 3),
        }
        .min((1 << 32) - 1);
        let mut body = (declared as u32).to_be_bytes().to_vec();
        body.extend_from_slice(&block);
        emit(format!("decomp lz4 {}", hex(&body)));
        // Snappy: <varint declared size><elements>; re-encode the preamble
        let sb = snap::raw::Encoder::new().compress_vec(&data).unwrap();
        let pre = varint(data.len() as u64).len();
        let rest = &sb[pre..];
        let pick = rng.below(12);
        let mut body = sb.clone();
        if pick >= 3 {
            // find a declared size relative to the guard of the re-encoded body (its length depends on the varint)
            for vl in 1..=5usize {
                let guard = (vl + rest.len()) as u64 * 64 + 64;
                let declared: u64 = match pick {
                    3 => guard.saturating_sub(1),
                    4 => guard,
                    5 => guard + 1,
                    6 => guard + 2,
                    7 => (data.len() as u64).saturating_sub(1),
                    8 => data.len() as u64 + 1,
                    9 => *rng.pick(&[0u64, 1 << 31, (1 << 32) - 1, 1 << 24]),
                    _ => rng.below(guard + 3),
                };
                let v = varint(declared);
                if v.len() == vl || vl == 5 {
                    body = v;
                    body.extend_from_slice(rest);
                    break;
                }
            }
        }
        emit(format!("decomp snappy {}", hex(&body)));
    }
    // truncated prefixes, garbage, empty
    for n in 0..6usize {
        emit(format!("decomp lz4 {}", hex(&vec![0u8; n])));
        emit(format!("decomp lz4 {}", hex(&vec![0xffu8; n])));
        emit(format!("decomp snappy {}", hex(&vec![0xffu8; n])));
        emit(format!("decomp snappy {}", hex(&vec![0x00u8; n])));
    }
    for _ in 0..100 * scale {
        let n = rng.below(40) as usize;
        let g1 = rng.bytes(n);
        let g2 = rng.bytes(n);
        emit(format!("decomp lz4 {}", hex(&g1)));
        emit(format!("decomp snappy {}", hex(&g2)));
        // small declared size + garbage block
        let mut b = (rng.below(300) as u32).to_be_bytes().to_vec();
        b.extend({ let n = rng.below(20) as usize; rng.bytes(n) });
        emit(format!("decomp lz4 {}", hex(&b)));
    }
    // exact guard edges on tiny blocks: 0-byte block (guard 64), 1-byte block (guard 319), Snappy 1-byte body (guard 128)
    for d in [63u32, 64, 65, 318, 319, 320] {
        let mut b = d.to_be_bytes().to_vec();
        emit(format!("decomp lz4 {}", hex(&b)));
        b.push(0);
        emit(format!("decomp lz4 {}", hex(&b)));
    }
    for d in [127u64, 128, 129, 191, 192, 193] {
        emit(format!("decomp snappy {}", hex(&varint(d))));
    }
    // the real codecs close to the guards: long zero runs (LZ4 reaches ~254x of the allowed 255x; Snappy ~21x of 64x)
    for n in [1usize << 16, 1 << 20, 1 << 22] {
        let data = vec![0u8; n];
        let mut body = (n as u32).to_be_bytes().to_vec();
        body.extend_from_slice(&lz4_flex::compress(&data));
        emit(format!("decomp lz4 {}", hex(&body)));
        emit(format!("decomp snappy {}", hex(&snap::raw::Encoder::new().compress_vec(&data).unwrap())));
    }
}

pub fn run(case: &str, ctx: &mut Ctx) -> String {
    let w: Vec<&str> = case.split_whitespace().collect();
    if w.len() == 3 && w[0] == "biglen" {
        return match w[2].parse::<usize>() {
            Ok(n) if n <= (1usize << 31) + 16 => big_len(w[1], n, ctx),
            _ => "bad-case".into(),
        };
    }
    if !w.is_empty() && w[0] == "glue" {
        return sessglue::run(case, ctx);
    }
    if !w.is_empty() && w[0] == "glueb" {
        return sessglue::run_b(case, ctx);
    }
    if !w.is_empty() && w[0] == "sess" {
        return conn::run(case, ctx);
    }
    if w.len() == 3 && w[0] == "decomp" {
        return match (comp_tok(w[1]), bytes_tok(w[2])) {
            (Some(Some(c)), Some(body)) => run_decomp(c, &body, ctx),
            _ => "bad-case".into(),
        };
    }
    if w.len() < 4 {
        return "bad-case".into();
    }
    let (Some(comp), Some(tr), Some(stream), Some(asked)) = (
        comp_tok(w[1]),
        match w[2] {
            "0" => Some(false),
            "1" => Some(true),
            _ => None,
        },
        opt_num::<i16>(w[3]),
        asked_of(w[0], &w[4..]),
    ) else {
        return "bad-case".into();
    };
    match run_impl(&asked, comp, tr, stream, ctx) {
        Err(kind) => format!("err {kind}"),
        Ok((frame, plain_body)) => {
            match oracle(&asked, comp, tr, stream, &frame, &plain_body) {
                Ok(body) => {
                    if comp.is_some() {
                        return format!("ok {} {}", hex(&frame), hex(&body));
                    }
                }
                Err(msg) => {
                    ctx.fail(msg);
                    if comp.is_some() {
                        return format!("ok {} {}", hex(&frame), hex(&plain_body));
                    }
                }
            }
            format!("ok {}", hex(&frame))
        }
    }
}

// ------------------------------------------------------------------------------------------------
// generators
// ------------------------------------------------------------------------------------------------

const COMPS: [&str; 3] = ["none", "lz4", "snappy"];
const CONS_NAMES: [&str; 11] =
    ["Any", "One", "Two", "Three", "Quorum", "All", "LocalQuorum", "EachQuorum", "LocalOne", "Serial", "LocalSerial"];
const SERIALS: [&str; 2] = ["Serial", "LocalSerial"];
const LEN_POOL: [usize; 14] = [0, 1, 2, 15, 16, 17, 127, 128, 255, 256, 257, 1000, 65535, 65536];

fn gen_len(rng: &mut Rng, big: bool) -> usize {
    match rng.below(10) {
        0 | 1 => *rng.pick(&LEN_POOL[..if big { 14 } else { 12 }]),
        2 => rng.below(300) as usize,
        _ => rng.below(24) as usize,
    }
}

fn gen_bytes_tok(rng: &mut Rng, big: bool) -> String {
    let n = gen_len(rng, big);
    if n > 300 {
        return if rng.bool() { format!("z{n}") } else { format!("y{n}") };
    }
    hex(&rng.bytes(n))
}

fn gen_text_tok(rng: &mut Rng, big: bool) -> String {
    let n = gen_len(rng, big);
    if n > 300 {
        return format!("y{n}");
    }
    // valid UTF-8 with multi-byte characters now and then
    let mut s = String::new();
    while s.len() < n {
        let c = match rng.below(12) {
            0 => 'é',
            1 => '→',
            2 => '😀',
            3 => '\0',
            4 => '?',
            _ => (b'a' + rng.below(26) as u8) as char,
        };
        if s.len() + c.len_utf8() <= n {
            s.push(c);
        } else {
            s.push('x');
        }
    }
    hex(s.as_bytes())
}

fn gen_i64_tok(rng: &mut Rng) -> String {
    rng.i64_boundary().to_string()
}

fn gen_i32_tok(rng: &mut Rng) -> String {
    match rng.below(6) {
        0 => rng.pick(&[0i32, 1, -1, i32::MIN, i32::MAX, i32::MIN + 1, i32::MAX - 1, 5000, 256, 255, 65536]).to_string(),
        1 => (rng.next() as i32).to_string(),
        _ => rng.range(1, 10000).to_string(),
    }
}

fn gen_value_item(rng: &mut Rng) -> String {
    match rng.below(8) {
        0 => "N".into(),
        1 => "U".into(),
        2 => "-".into(),
        _ => gen_bytes_tok(rng, false),
    }
}

fn gen_values_tok(rng: &mut Rng, allow_huge: bool) -> String {
    let n = match rng.below(12) {
        0 | 1 | 2 => 0,
        3 | 4 => 1,
        5 => *rng.pick(&[2usize, 3, 16, 17, 255, 256, 257]),
        6 if allow_huge => *rng.pick(&[65534usize, 65535, 65536, 65537]),
        _ => rng.range(2, 9) as usize,
    };
    if n == 0 {
        return "_".into();
    }
    if n > 40 {
        // run-length encoded: a few distinct runs
        let first = gen_value_item(rng);
        let last = gen_value_item(rng);
        let mid = *rng.pick(&["N", "U", "-", "00", "0102030405060708"]);
        return format!("{first},{mid}*{},{last}", n - 2);
    }
    (0..n).map(|_| gen_value_item(rng)).collect::<Vec<_>>().join(",")
}

fn gen_params(rng: &mut Rng, subset: Option<u32>, allow_huge: bool) -> String {
    let bits = subset.unwrap_or_else(|| rng.below(64) as u32);
    let cons = *rng.pick(&CONS_NAMES);
    let serial = if bits & 16 != 0 { *rng.pick(&SERIALS) } else { "N" };
    let ts = if bits & 32 != 0 { gen_i64_tok(rng) } else { "N".into() };
    let ps = if bits & 4 != 0 { gen_i32_tok(rng) } else { "N".into() };
    let pg = if bits & 8 != 0 { gen_bytes_tok(rng, true) } else { "N".into() };
    let skip = if bits & 2 != 0 { "1" } else { "0" };
    let vals = if bits & 1 != 0 {
        let mut v = gen_values_tok(rng, allow_huge);
        if v == "_" {
            v = gen_value_item(rng);
        }
        v
    } else {
        "_".into()
    };
    format!("{cons} {serial} {ts} {ps} {pg} {skip} {vals}")
}

fn gen_head(rng: &mut Rng) -> String {
    let comp = if rng.chance(1, 2) { "none" } else { *rng.pick(&COMPS[1..]) };
    let stream = match rng.below(4) {
        0 => rng.pick(&[0i16, 1, -1, i16::MIN, i16::MAX, 255, 256]).to_string(),
        1 => (rng.next() as i16).to_string(),
        _ => "N".into(),
    };
    format!("{} {} {}", comp, rng.below(2), stream)
}

fn gen_stmt_tok(rng: &mut Rng) -> String {
    if rng.bool() { format!("q:{}", gen_text_tok(rng, true)) } else { format!("p:{}", gen_bytes_tok(rng, true)) }
}

pub fn generate(rng: &mut Rng, tier: Tier, emit: &mut dyn FnMut(String)) {
    let scale: u64 = if tier == Tier::Quick { 4 } else { 40 };

    // (1) every subset of the six optional QUERY/EXECUTE fields x kind x compression x tracing
    for bits in 0..64u32 {
        for kind in 0..3 {
            for comp in COMPS {
                for tr in 0..2 {
                    for rep in 0..(if tier == Tier::Quick { 1 } else { 4 }) {
                        let _ = rep;
                        let p = gen_params(rng, Some(bits), false);
                        let head = format!("{comp} {tr} {}", if rng.chance(1, 3) { (rng.next() as i16).to_string() } else { "N".into() });
                        match kind {
                            0 => emit(format!("query {head} {} {p}", gen_text_tok(rng, false))),
                            1 => emit(format!("execute {head} {} N {p}", gen_bytes_tok(rng, false))),
                            _ => emit(format!("execute {head} {} {} {p}", gen_bytes_tok(rng, false), gen_bytes_tok(rng, false))),
                        }
                    }
                }
            }
        }
    }
    // every consistency x serial consistency once, all fields present
    for c in CONS_NAMES {
        for s in ["N", "Serial", "LocalSerial"] {
            emit(format!("query none 0 N 73656c656374 {c} {s} 1 2 03 1 04"));
            emit(format!("batch none 0 N Logged {c} {s} N q:78 / _"));
        }
    }

    // (2) random QUERY / EXECUTE / PREPARE
    for _ in 0..6000 * scale {
        let head = gen_head(rng);
        let huge = rng.chance(1, 400);
        let p = gen_params(rng, None, huge);
        match rng.below(5) {
            0 | 1 => emit(format!("query {head} {} {p}", gen_text_tok(rng, true))),
            2 => emit(format!("execute {head} {} N {p}", gen_bytes_tok(rng, true))),
            3 => emit(format!("execute {head} {} {} {p}", gen_bytes_tok(rng, true), gen_bytes_tok(rng, true))),
            _ => emit(format!("prepare {head} {}", gen_text_tok(rng, true))),
        }
    }
    // (3) 16-bit boundaries, explicitly
    for comp in COMPS {
        for n in [65534usize, 65535, 65536, 65537] {
            emit(format!("execute {comp} 0 N y{n} N One N N N N 0 _"));
            emit(format!("execute {comp} 1 N 01 z{n} One N N N N 0 00"));
            emit(format!("execute {comp} 0 N y{n} y{n} Quorum Serial 5 6 y{n} 1 y{n}"));
            emit(format!("query {comp} 0 N y{n} Two N N N z{n} 0 z{n},N,U"));
            emit(format!("query {comp} 0 7 78 One N N N N 0 00*{n}"));
            emit(format!("query {comp} 1 N 78 One LocalSerial -1 -1 - 1 N*{n}"));
            emit(format!("execute {comp} 0 N 1234 N All N N N N 0 U,0102*{},-", n - 2));
            emit(format!("execute {comp} 1 N 01 N Two N N N N 1 00*{n}"));
            emit(format!("execute {comp} 0 N 01 0203 Two N N N N 0 N*{n}"));
            emit(format!("prepare {comp} 0 N y{n}"));
            emit(format!("auth {comp} 0 N z{n}"));
        }
    }

    // (4) BATCH: exhaustive small shapes (statement kinds x value-list counts incl. mismatches x flags x type)
    let tys = ["Logged", "Unlogged", "Counter"];
    for nst in 0..4usize {
        for nvl in 0..6usize {
            for kinds in 0..(1u32 << nst) {
                for fl in 0..4u32 {
                    let ty = tys[((nst + nvl + kinds as usize + fl as usize) % 3) as usize];
                    let cons = *rng.pick(&CONS_NAMES);
                    let serial = if fl & 1 != 0 { *rng.pick(&SERIALS) } else { "N" };
                    let ts = if fl & 2 != 0 { gen_i64_tok(rng) } else { "N".into() };
                    let stmts: Vec<String> = (0..nst)
                        .map(|i| if kinds >> i & 1 == 0 { format!("q:{}", gen_text_tok(rng, false)) } else { format!("p:{}", gen_bytes_tok(rng, false)) })
                        .collect();
                    let vals: Vec<String> = (0..nvl).map(|_| gen_values_tok(rng, false)).collect();
                    let comp = COMPS[(kinds as usize + nvl) % 3];
                    emit(format!("batch {comp} {} N {ty} {cons} {serial} {ts} {} / {}", fl & 1, stmts.join(" "), vals.join(" ")).replace("  ", " "));
                }
            }
        }
    }
    // random batches
    for _ in 0..2500 * scale {
        let head = gen_head(rng);
        let nst = match rng.below(8) {
            0 => 0,
            1 => 1,
            2 => rng.range(10, 40) as usize,
            _ => rng.range(2, 6) as usize,
        };
        let nvl = match rng.below(6) {
            0 => nst + 1,
            1 => nst.saturating_sub(1),
            2 => rng.below(nst as u64 + 3) as usize,
            _ => nst,
        };
        let ty = *rng.pick(&tys);
        let cons = *rng.pick(&CONS_NAMES);
        let serial = if rng.bool() { *rng.pick(&SERIALS) } else { "N" };
        let ts = if rng.bool() { gen_i64_tok(rng) } else { "N".into() };
        let stmts: Vec<String> = (0..nst).map(|_| gen_stmt_tok(rng)).collect();
        let huge = rng.chance(1, 300);
        let vals: Vec<String> = (0..nvl).map(|_| gen_values_tok(rng, huge)).collect();
        emit(format!("batch {head} {ty} {cons} {serial} {ts} {} / {}", stmts.join(" "), vals.join(" ")).replace("  ", " "));
    }
    // batch boundaries: statement counts, ids, mismatches by one at scale, error precedence
    for n in [65534usize, 65535, 65536, 65537] {
        emit(format!("batch none 0 N Logged One N N q:78^{n} / _^{n}"));
        emit(format!("batch none 0 N Unlogged One N N p:01^{n} / 00^{n}"));
        emit(format!("batch lz4 0 N Counter Two Serial 9 q:78 p:y{n} q:79 / 00 N U"));
        emit(format!("batch none 0 N Logged One N N q:y{n} p:02 / 00*{n} _"));
        emit(format!("batch none 0 N Logged One N N p:02 q:78 / 00*{n}"));
        emit(format!("batch none 0 N Logged One N N q:78^{n} / _^{}", n - 1));
        emit(format!("batch none 0 N Logged One N N q:78^{} / _^{n}", n - 1));
        emit(format!("batch snappy 1 N Logged One N N q:78 p:y{n} / _"));
        emit(format!("batch none 0 N Logged One N N p:y{n}^2 / _ _ _"));
    }

    // (4b) BATCH through RawBatchValuesAdapter (typed rows + per-statement contexts: the session's path).
    // Realistic shape: unprepared statements carry no values (context of 0 columns), prepared ones a context with as
    // many columns as the row has values; then count mismatches both ways and context mismatches.
    let carriers = ["vec", "iter", "tuple"];
    let adapter_case = |rng: &mut Rng, head: &str, carrier: &str, nst: usize, nvl: usize, kinds: u32, ctx_off: Option<usize>, fl: u32| -> String {
        let ty = tys[(nst + nvl + fl as usize) % 3];
        let cons = *rng.pick(&CONS_NAMES);
        let serial = if fl & 1 != 0 { *rng.pick(&SERIALS) } else { "N" };
        let ts = if fl & 2 != 0 { gen_i64_tok(rng) } else { "N".into() };
        let mut vals: Vec<String> = Vec::new();
        let mut stmts: Vec<String> = Vec::new();
        for i in 0..nst.max(nvl) {
            let prepared = kinds >> (i % 32) & 1 == 1;
            let v = if prepared || i >= nst { gen_values_tok(rng, false) } else { "_".to_string() };
            let n = values_tok(&v).map(|x| x.len()).unwrap_or(0);
            if i < nvl {
                vals.push(v);
            }
            if i < nst {
                let cols = if ctx_off == Some(i) { n + 1 } else { n };
                stmts.push(if prepared {
                    format!("p:{}#{cols}", gen_bytes_tok(rng, false))
                } else {
                    format!("q:{}#{cols}", gen_text_tok(rng, false))
                });
            }
        }
        let carrier = if carrier == "tuple" && !(1..=4).contains(&nvl) { "vec" } else { carrier };
        format!("abatch {head} {carrier} {ty} {cons} {serial} {ts} {} / {}", stmts.join(" "), vals.join(" ")).replace("  ", " ")
    };
    for nst in 0..4usize {
        for nvl in 0..6usize {
            for kinds in 0..(1u32 << nst) {
                for (ci, carrier) in carriers.iter().enumerate() {
                    let comp = COMPS[(kinds as usize + nvl + ci) % 3];
                    let head = format!("{comp} {} N", (nst + ci) % 2);
                    emit(adapter_case(rng, &head, carrier, nst, nvl, kinds, None, (kinds + nvl as u32) % 4));
                }
            }
        }
    }
    for _ in 0..1500 * scale {
        let head = gen_head(rng);
        let nst = match rng.below(8) {
            0 => 0,
            1 => 1,
            2 => rng.range(10, 40) as usize,
            _ => rng.range(2, 6) as usize,
        };
        let nvl = match rng.below(8) {
            0 => nst + 1,
            1 => nst + rng.range(2, 50) as usize,
            2 => nst.saturating_sub(1),
            3 => rng.below(nst as u64 + 1) as usize,
            _ => nst,
        };
        let kinds = rng.next() as u32;
        let ctx_off = if nst > 0 && rng.chance(1, 8) { Some(rng.below(nst as u64) as usize) } else { None };
        let carrier = *rng.pick(&carriers);
        let fl = rng.below(4) as u32;
        emit(adapter_case(rng, &head, carrier, nst, nvl, kinds, ctx_off, fl));
    }
    for carrier in ["vec", "iter"] {
        for n in [65534usize, 65535, 65536, 65537] {
            emit(format!("abatch none 0 N {carrier} Logged One N N p:01#{n} / 00*{n}"));
            emit(format!("abatch none 0 N {carrier} Logged One N N q:78 p:01#{n} / _ N*{n} _"));
            emit(format!("abatch none 0 N {carrier} Logged One N N q:78^{n} / _^{n}"));
            emit(format!("abatch none 0 N {carrier} Logged One N N q:78^{} / _^{n}", n - 1));
            emit(format!("abatch none 0 N {carrier} Logged One N N q:78^{n} / _^{}", n - 1));
            emit(format!("abatch lz4 0 N {carrier} Logged One N N q:78 p:y{n}#1 / _ 00"));
        }
        // many surplus value lists after the last statement
        emit(format!("abatch none 0 N {carrier} Counter Two N N p:01#1 / 00 00^1000"));
        emit(format!("abatch snappy 1 N {carrier} Counter Two Serial 3 q:78 p:01#2 / _ 00,N U"));
    }
    emit("abatch none 0 N tuple Logged One N N q:78 / _ _".to_string());
    emit("abatch none 0 N tuple Logged One N N q:78 q:79 q:7a / _ _ _ _".to_string());
    emit("abatch none 0 N tuple Logged One N N p:01#1 p:02#1 / 00".to_string());

    // (4c) set_stream: both bytes of the stream id, positive and negative ids, every kind of frame
    for st in [0i16, 1, 2, 127, 128, 255, 256, 257, 511, 512, 0x1234, 0x7f00, 0x00ff, 32766, 32767, -1, -2, -255, -256, -257, -32767, -32768] {
        for comp in COMPS {
            emit(format!("options {comp} 0 {st}"));
            emit(format!("query {comp} 1 {st} 78 One N N N N 0 _"));
        }
        emit(format!("execute none 0 {st} 0102 N One N N N N 0 00"));
        emit(format!("batch none 0 {st} Logged One N N q:78 / _"));
        emit(format!("abatch none 0 {st} vec Logged One N N p:01#1 / 00"));
        emit(format!("prepare none 0 {st} 78"));
        emit(format!("startup none 0 {st} 6b=76"));
        emit(format!("register none 0 {st} v1 StatusChange"));
        emit(format!("auth none 0 {st} 00"));
    }

    // (5) STARTUP / REGISTER / AUTH_RESPONSE / OPTIONS
    for _ in 0..1500 * scale {
        let head = gen_head(rng);
        match rng.below(4) {
            0 => {
                let n = match rng.below(6) {
                    0 => 0,
                    1 => rng.range(6, 40) as usize,
                    _ => rng.range(1, 5) as usize,
                };
                let mut keys: Vec<String> = Vec::new();
                let mut pairs = Vec::new();
                for i in 0..n {
                    let mut k = if rng.chance(1, 3) {
                        hex(rng.pick(&["CQL_VERSION", "COMPRESSION", "DRIVER_NAME", "DRIVER_VERSION", "SCYLLA_LWT_ADD_METADATA_MARK", "CLIENT_ID"]).as_bytes())
                    } else {
                        let big = rng.chance(1, 30);
                        gen_text_tok(rng, big)
                    };
                    if keys.contains(&k) {
                        k = hex(format!("key{i}").as_bytes());
                    }
                    keys.push(k.clone());
                    let big = rng.chance(1, 30);
                    pairs.push(format!("{k}={}", gen_text_tok(rng, big)));
                }
                emit(format!("startup {head} {}", pairs.join(" ")).trim_end().to_owned());
            }
            1 => {
                let v2 = rng.bool();
                let n = rng.below(5) as usize;
                let evs: Vec<&str> = (0..n).map(|_| EVENTS[rng.below(if v2 { 4 } else { 3 }) as usize].0).collect();
                emit(format!("register {head} {} {}", if v2 { "v2" } else { "v1" }, if evs.is_empty() { "_".into() } else { evs.join(",") }));
            }
            2 => emit(format!("auth {head} {}", if rng.chance(1, 5) { "N".into() } else { gen_bytes_tok(rng, true) })),
            _ => emit(format!("options {head}")),
        }
    }
    for n in [65534usize, 65535, 65536] {
        emit(format!("register none 0 N v1 StatusChange,TopologyChange*{},SchemaChange", n - 2));
        emit(format!("register lz4 1 N v2 ClientRoutesChange*{n}"));
        emit(format!("startup none 0 N y{n}=31"));
        emit(format!("startup none 0 N 6b=y{n} 6c=31"));
        emit(format!("startup snappy 0 N 6b=31 6c=z{n}"));
    }
    {
        // 65536 distinct options: refused (65535 accepted ones would make the model's permutation check quadratic)
        let pairs: Vec<String> = (0..65536).map(|i| format!("{}=-", hex(format!("{i:x}").as_bytes()))).collect();
        emit(format!("startup none 0 N {}", pairs.join(" ")));
        let pairs: Vec<String> = (0..300).map(|i| format!("{}=31", hex(format!("k{i}").as_bytes()))).collect();
        emit(format!("startup lz4 0 N {}", pairs.join(" ")));
    }

    // (5a) connection-level glue: statement configuration -> frames of a real Connection (see c09/conn.rs)
    conn::generate(rng, tier, emit);
    sessglue::generate(rng, tier, emit);
    // (5b) frame::decompress on arbitrary bodies (declared sizes around the guards, truncated prefixes, garbage)
    gen_decomp(rng, scale, emit);
    // highly compressible request bodies: the real codecs closest to the decompress guards
    for n in [4096usize, 65535, 262144, 1048576] {
        for comp in ["lz4", "snappy"] {
            emit(format!("prepare {comp} 0 N z{n}"));
            emit(format!("auth {comp} 1 N z{n}"));
            emit(format!("query {comp} 0 N 78 One N N N N 0 z{n}"));
        }
    }

    // (6) 31-bit boundary of the length guards (lazily mapped zero pages; nothing is copied when the guard works)
    for what in ["query-statement", "prepare-statement", "batch-statement", "value", "auth-response", "adapter-value"] {
        emit(format!("biglen {what} {}", 1u64 << 31));
        if tier == Tier::Thorough {
            emit(format!("biglen {what} {}", (1u64 << 31) + 1));
        }
    }
    // (these two copy 2 GiB into an Arc<[u8]> before the guard is reached: ~1.5 s each)
    emit(format!("biglen paging-state {}", 1u64 << 31));
    emit(format!("biglen execute-paging-state {}", 1u64 << 31));
}

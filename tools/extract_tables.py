#!/usr/bin/env python3
"""Translator: regenerates lean/ScyllaVerif/Generated/Constants.lean from /repo's working tree (DESIGN.md 5.4).

Every run re-reads the Rust sources and rewrites the Lean file (deterministically: same sources => same bytes).
The Lean models USE the generated definitions, `Props/*.lean` state the protocol's literal values as theorems, so a
changed constant in the Rust source breaks a proof obligation.  Fails closed: a pattern that is not found raises
`ExtractError` (the runner reports a broken tie).

Structure: `EXTRACTORS` is a list of independent functions `() -> Section`; add new tables (e.g. the response side
for C08) by appending a function.  A Section is (title, source file(s), [Def]); a Def is (lean_name, lean_type,
lean_value_text).
"""
import os
import re
import sys

REPO = os.environ.get("VERIF_REPO", "/repo")
VERIF = os.path.dirname(os.path.dirname(os.path.abspath(__file__)))
OUT = os.path.join(VERIF, "lean", "ScyllaVerif", "Generated", "Constants.lean")
OUT_TABLES = os.path.join(VERIF, "lean", "ScyllaVerif", "Generated", "Tables.lean")


class ExtractError(Exception):
    pass


# ------------------------------------------------------------------------------------------------
# helpers
# ------------------------------------------------------------------------------------------------

def read(rel):
    path = os.path.join(REPO, rel)
    try:
        with open(path, encoding="utf-8") as f:
            return f.read()
    except OSError as e:
        raise ExtractError("cannot read %s: %s" % (rel, e))


def strip_comments(src):
    """Removes // line comments and /* */ block comments (string literals containing `//` do not occur in the
    places we look at; doc comments are comments)."""
    src = re.sub(r"/\*.*?\*/", "", src, flags=re.S)
    return re.sub(r"//[^\n]*", "", src)


def parse_int(lit, where):
    t = lit.strip().replace("_", "")
    t = re.sub(r"(u8|u16|u32|u64|i8|i16|i32|i64|usize|isize)$", "", t)
    try:
        if t.lower().startswith("0x"):
            return int(t, 16)
        if t.lower().startswith("0b"):
            return int(t, 2)
        return int(t, 10)
    except ValueError:
        raise ExtractError("%s: `%s` is not an integer literal" % (where, lit))


def block_after(src, header_re, rel):
    """Text between the `{` that follows the first match of header_re and its matching `}`."""
    m = re.search(header_re, src)
    if not m:
        raise ExtractError("%s: pattern `%s` not found" % (rel, header_re))
    i = src.find("{", m.end() - 1)
    if i < 0:
        raise ExtractError("%s: no `{` after `%s`" % (rel, header_re))
    depth = 0
    for j in range(i, len(src)):
        if src[j] == "{":
            depth += 1
        elif src[j] == "}":
            depth -= 1
            if depth == 0:
                return src[i + 1:j]
    raise ExtractError("%s: unbalanced braces after `%s`" % (rel, header_re))


def enum_variants(rel, name, required):
    """`pub enum <name> { A = 0x01, ... }` -> [(variant, value)] in source order.  Every variant must carry an
    explicit discriminant; all `required` variants must be present (extra variants are emitted too)."""
    src = strip_comments(read(rel))
    body = block_after(src, r"\bpub\s+enum\s+%s\b[^{;]*\{" % re.escape(name), rel)
    body = re.sub(r"#\[[^\]]*\]", "", body)
    res = []
    for item in body.split(","):
        item = item.strip()
        if not item:
            continue
        m = re.fullmatch(r"([A-Za-z_][A-Za-z0-9_]*)\s*=\s*([0-9A-Za-z_x]+)", item)
        if not m:
            raise ExtractError("%s: enum %s: variant `%s` has no explicit integer discriminant" % (rel, name, item))
        res.append((m.group(1), parse_int(m.group(2), "%s enum %s::%s" % (rel, name, m.group(1)))))
    have = [v for v, _ in res]
    if len(set(have)) != len(have):
        raise ExtractError("%s: enum %s: duplicate variant" % (rel, name))
    for r in required:
        if r not in have:
            raise ExtractError("%s: enum %s: variant `%s` not found" % (rel, name, r))
    return res


def consts(rel, names, scope_re=None, typ=r"u8"):
    """`const NAME: u8 = 0x01;` for each of `names` (optionally inside the block introduced by scope_re)."""
    src = strip_comments(read(rel))
    if scope_re:
        src = block_after(src, scope_re, rel)
    res = []
    for n in names:
        ms = re.findall(r"\bconst\s+%s\s*:\s*%s\s*=\s*([0-9A-Za-z_x]+)\s*;" % (re.escape(n), typ), src)
        if len(ms) != 1:
            raise ExtractError("%s: expected exactly one `const %s: %s = <literal>;`, found %d" % (rel, n, typ, len(ms)))
        res.append((n, parse_int(ms[0], "%s const %s" % (rel, n))))
    return res


def one(rel, pattern, what, src=None):
    src = strip_comments(read(rel)) if src is None else src
    ms = re.findall(pattern, src, flags=re.S)
    if len(ms) != 1:
        raise ExtractError("%s: expected exactly one match for %s (`%s`), found %d" % (rel, what, pattern, len(ms)))
    return ms[0]


def nat(n):
    if n < 0:
        raise ExtractError("negative value %d where a Nat is expected" % n)
    return "0x%02X" % n if n < 256 else "0x%04X" % n


def nat_defs(prefix, pairs):
    return [("%s_%s" % (prefix, k), "Nat", nat(v)) for k, v in pairs]


def table_def(name, pairs):
    body = ", ".join('("%s", %s)' % (k, nat(v)) for k, v in pairs)
    return (name, "List (String × Nat)", "[" + body + "]")


# ------------------------------------------------------------------------------------------------
# extractors (independent; each returns (title, [source files], [defs]))
# ------------------------------------------------------------------------------------------------

def x_request_opcodes():
    rel = "scylla-cql/src/frame/request/mod.rs"
    vs = enum_variants(rel, "RequestOpcode",
                       ["Startup", "Options", "Query", "Prepare", "Execute", "Register", "Batch", "AuthResponse"])
    return ("request opcodes", [rel], nat_defs("requestOpcode", vs) + [table_def("requestOpcodes", vs)])


def x_response_opcodes():
    rel = "scylla-cql/src/frame/response/mod.rs"
    vs = enum_variants(rel, "ResponseOpcode",
                       ["Error", "Ready", "Authenticate", "Supported", "Result", "Event", "AuthChallenge", "AuthSuccess"])
    return ("response opcodes", [rel], nat_defs("responseOpcode", vs) + [table_def("responseOpcodes", vs)])


def x_frame_header():
    rel = "scylla-cql/src/frame/mod.rs"
    flags = consts(rel, ["COMPRESSION", "TRACING", "CUSTOM_PAYLOAD", "WARNING"], scope_re=r"\bpub\s+mod\s+flag\s*\{")
    hdr = consts(rel, ["HEADER_SIZE"], typ="usize")
    src = strip_comments(read(rel))
    make = block_after(src, r"\bpub\s+fn\s+make\s*<", rel)
    # block_after returns the first `{...}` after the header, which for `make<R: ..>(..) -> .. {` is the fn body
    ver = parse_int(one(rel, r"data\[0\]\s*=\s*([0-9A-Za-z_x]+)\s*;", "request version byte `data[0] = N;`", make), rel)
    for pat, what in [(r"data\[1\]\s*=\s*flags\s*;", "flags byte at offset 1"),
                      (r"data\[4\]\s*=\s*R::OPCODE\s+as\s+u8\s*;", "opcode byte at offset 4"),
                      (r"data\[5\.\.9\]\.copy_from_slice\(&req_size\.to_be_bytes\(\)\)", "length at offsets 5..9"),
                      (r"let\s+req_size\s*=\s*\(data\.len\(\)\s*-\s*HEADER_SIZE\)\s+as\s+u32\s*;", "`(len - HEADER_SIZE) as u32`")]:
        one(rel, pat, what, make)
    return ("frame header: flag bits, header size, request version byte (SerializedRequest::make)", [rel],
            nat_defs("frameFlag", flags) + nat_defs("frame", [("HEADER_SIZE", hdr[0][1]), ("REQUEST_VERSION", ver)]))


def x_query_flags():
    rel = "scylla-cql/src/frame/request/query.rs"
    vs = consts(rel, ["FLAG_VALUES", "FLAG_SKIP_METADATA", "FLAG_PAGE_SIZE", "FLAG_WITH_PAGING_STATE",
                      "FLAG_WITH_SERIAL_CONSISTENCY", "FLAG_WITH_DEFAULT_TIMESTAMP", "FLAG_WITH_NAMES_FOR_VALUES"])
    return ("QUERY / EXECUTE parameter flag bits", [rel], nat_defs("queryFlag", [(k[5:], v) for k, v in vs]))


def x_batch_flags():
    rel = "scylla-cql/src/frame/request/batch.rs"
    vs = consts(rel, ["FLAG_WITH_SERIAL_CONSISTENCY", "FLAG_WITH_DEFAULT_TIMESTAMP"])
    src = strip_comments(read(rel))
    body = block_after(src, r"\bfn\s+serialize_batch_statement\s*\(", rel)
    fn = body  # (the signature contains no braces, so this is the function body)
    q = parse_int(one(rel, r"BatchStatement::Query\s*\{\s*text\s*\}\s*=>\s*\{\s*buf\.put_u8\(([0-9A-Za-z_x]+)\)\s*;",
                      "kind byte of BatchStatement::Query", fn), rel)
    p = parse_int(one(rel, r"BatchStatement::Prepared\s*\{\s*id\s*\}\s*=>\s*\{\s*buf\.put_u8\(([0-9A-Za-z_x]+)\)\s*;",
                      "kind byte of BatchStatement::Prepared", fn), rel)
    return ("BATCH flag bits and statement kind bytes", [rel],
            nat_defs("batchFlag", [(k[5:], v) for k, v in vs]) + nat_defs("batchStmtKind", [("Query", q), ("Prepared", p)]))


def x_batch_types():
    rel = "scylla-cql-core/src/frame/request/batch.rs"
    vs = enum_variants(rel, "BatchType", ["Logged", "Unlogged", "Counter"])
    return ("batch type codes", [rel], nat_defs("batchType", vs) + [table_def("batchTypes", vs)])


def x_consistency():
    rel = "scylla-cql-core/src/frame/types.rs"
    cs = enum_variants(rel, "Consistency", ["Any", "One", "Two", "Three", "Quorum", "All", "LocalQuorum", "EachQuorum",
                                            "LocalOne", "Serial", "LocalSerial"])
    ss = enum_variants(rel, "SerialConsistency", ["Serial", "LocalSerial"])
    # `Consistency::is_serial` must be a `matches!` over variants; its domain is emitted with the variants' codes
    # (C06: "the default policy never retries at serial consistency").  Anything else (a range check, ...) fails closed.
    src = strip_comments(read(rel))
    body = block_after(src, r"\bpub\s+fn\s+is_serial\s*\(\s*&self\s*\)\s*->\s*bool\s*\{", rel)
    m = re.fullmatch(r"\s*matches!\(\s*self\s*,\s*((?:Consistency::\w+\s*\|\s*)*Consistency::\w+)\s*\)\s*", body)
    if not m:
        raise ExtractError("%s: Consistency::is_serial is not `matches!(self, Consistency::A | ...)`: `%s`" % (rel, body.strip()))
    code = dict(cs)
    names = [v.strip().split("::")[1] for v in m.group(1).split("|")]
    for v in names:
        if v not in code:
            raise ExtractError("%s: is_serial names unknown variant %s" % (rel, v))
    isv = [(v, code[v]) for v in names]
    return ("consistency / serial consistency codes", [rel],
            nat_defs("consistency", cs) + [table_def("consistencies", cs)] +
            nat_defs("serialConsistency", ss) + [table_def("serialConsistencies", ss)] +
            [table_def("isSerialVariants", isv)])


def x_value_markers():
    rel = "scylla-cql-core/src/serialize/writers.rs"
    src = strip_comments(read(rel))
    res = []
    for fn, name in [("set_null", "null"), ("set_unset", "unset")]:
        body = block_after(src, r"\bpub\s+fn\s+%s\s*\(\s*self\s*\)[^{]*\{" % fn, rel)
        v = one(rel, r"extend_from_slice\(&\((-?[0-9]+)i32\)\.to_be_bytes\(\)\)", "[value] length written by %s" % fn, body)
        res.append(("valueLen_%s" % name, "Int", "(%d)" % int(v)))
    return ("[value] length markers for null / unset (CellWriter)", [rel], res)


def x_event_types():
    rel = "scylla-cql/src/frame/server_event_type.rs"
    src = strip_comments(read(rel))
    res = []
    for enum, prefix, required in [("EventType", "eventType", ["TopologyChange", "StatusChange", "SchemaChange"]),
                                   ("EventTypeV2", "eventTypeV2", ["TopologyChange", "StatusChange", "SchemaChange"])]:
        body = block_after(src, r"impl\s+fmt::Display\s+for\s+%s\s*\{" % enum, rel)
        arms = re.findall(r"Self::([A-Za-z0-9_]+)\s*=>\s*\"([A-Za-z0-9_]*)\"", body)
        have = [a for a, _ in arms]
        for r in required:
            if r not in have:
                raise ExtractError("%s: Display for %s: variant %s not found" % (rel, enum, r))
        for a, s in arms:
            bs = ", ".join("0x%02X" % b for b in s.encode("ascii"))
            res.append(("%s_%s" % (prefix, a), "List UInt8", "[%s]  -- \"%s\"" % (bs, s)))
    return ("REGISTER event type names (Display impls)", [rel], res)


def x_decompress_guards():
    """The size guards of `frame::decompress`: `uncomp_len > comp_body.len().saturating_mul(M).saturating_add(A)`
    in the LZ4 arm and in the Snappy arm (in that order)."""
    rel = "scylla-cql/src/frame/mod.rs"
    src = strip_comments(read(rel))
    body = block_after(src, r"\bpub\s+fn\s+decompress\s*\(", rel)
    i_lz4 = body.find("Compression::Lz4")
    i_snap = body.find("Compression::Snappy")
    if i_lz4 < 0 or i_snap < 0 or i_snap < i_lz4:
        raise ExtractError("%s: decompress: expected a `Compression::Lz4` arm followed by a `Compression::Snappy` arm" % rel)
    pat = r"if\s+uncomp_len\s*>\s*comp_body\s*\.len\(\)\s*\.saturating_mul\(([0-9A-Za-z_x]+)\)\s*\.saturating_add\(([0-9A-Za-z_x]+)\)\s*\{"
    lm, la = one(rel, pat, "LZ4 size guard of decompress", body[i_lz4:i_snap])
    sm, sa = one(rel, pat, "Snappy size guard of decompress", body[i_snap:])
    vals = [("lz4_mul", parse_int(lm, rel)), ("lz4_add", parse_int(la, rel)),
            ("snappy_mul", parse_int(sm, rel)), ("snappy_add", parse_int(sa, rel))]
    return ("size guards of frame::decompress (declared size > len * mul + add is rejected before decoding)", [rel],
            nat_defs("decompressGuard", vals))


def x_startup_constants():
    """Values the driver advertises in STARTUP: protocol version string, default driver name (request/options.rs) and
    the driver version (`env!("CARGO_PKG_VERSION")` of the scylla-cql crate => its Cargo.toml), extension keys."""
    rel = "scylla-cql/src/frame/request/options.rs"
    src = strip_comments(read(rel))
    res = []

    def bytes_def(name, text):
        bs = ", ".join("0x%02X" % b for b in text.encode("ascii"))
        return (name, "List UInt8", "[%s]  -- \"%s\"" % (bs, text))

    for const, lean in [("DEFAULT_CQL_PROTOCOL_VERSION", "startup_CQL_VERSION_value"),
                        ("DEFAULT_DRIVER_NAME", "startup_DRIVER_NAME_value"),
                        ("CQL_VERSION", "startup_key_CQL_VERSION"), ("DRIVER_NAME", "startup_key_DRIVER_NAME"),
                        ("DRIVER_VERSION", "startup_key_DRIVER_VERSION"), ("COMPRESSION", "startup_key_COMPRESSION"),
                        ("APPLICATION_NAME", "startup_key_APPLICATION_NAME"),
                        ("APPLICATION_VERSION", "startup_key_APPLICATION_VERSION"), ("CLIENT_ID", "startup_key_CLIENT_ID")]:
        v = one(rel, r"pub\s+const\s+%s\s*:\s*&str\s*=\s*\"([ -~]*?)\"\s*;" % const, "const %s" % const, src)
        res.append(bytes_def(lean, v))
    one(rel, r"pub\s+const\s+DEFAULT_DRIVER_VERSION\s*:\s*&str\s*=\s*env!\(\"CARGO_PKG_VERSION\"\)\s*;",
        "DEFAULT_DRIVER_VERSION = env!(CARGO_PKG_VERSION)", src)
    cargo = "scylla-cql/Cargo.toml"
    pkg = read(cargo)
    m = re.search(r"^\[package\](.*?)(?=^\[)", pkg, flags=re.S | re.M)
    if not m:
        raise ExtractError("%s: no [package] section" % cargo)
    ver = re.findall(r"^version\s*=\s*\"([0-9A-Za-z.+-]+)\"\s*$", m.group(1), flags=re.M)
    if len(ver) != 1:
        raise ExtractError("%s: expected exactly one version in [package]" % cargo)
    res.append(bytes_def("startup_DRIVER_VERSION_value", ver[0]))
    rel2 = "scylla-cql-core/src/frame/protocol_features.rs"
    src2 = strip_comments(read(rel2))
    for const, lean in [("RATE_LIMIT_ERROR_EXTENSION", "startup_key_RATE_LIMIT_ERROR"),
                        ("SCYLLA_LWT_ADD_METADATA_MARK_EXTENSION", "startup_key_LWT_MARK"),
                        ("LWT_OPTIMIZATION_META_BIT_MASK_KEY", "startup_LWT_MASK_field"),
                        ("TABLETS_ROUTING_V1_KEY", "startup_key_TABLETS_ROUTING_V1"),
                        ("SCYLLA_USE_METADATA_ID_KEY", "startup_key_USE_METADATA_ID")]:
        v = one(rel2, r"const\s+%s\s*:\s*&str\s*=\s*\"([ -~]*?)\"\s*;" % const, "const %s" % const, src2)
        res.append(bytes_def(lean, v))
    return ("STARTUP: advertised values and option keys", [rel, cargo, rel2], res)


def x_connection_limits():
    """C02/C10: the bounded resources of one connection - capacity of the submit channel (production `Connection::new`
    AND the verification hook `RawConnection::spawn_inner`, which builds its own channel), the orphan thresholds, the
    capacity of the control connection's event channel."""
    rel = "scylla/src/network/connection.rs"
    src = strip_comments(read(rel))
    count = parse_int(one(rel, r"const\s+OLD_ORPHAN_COUNT_THRESHOLD\s*:\s*usize\s*=\s*([0-9_A-Za-z]+)\s*;", "OLD_ORPHAN_COUNT_THRESHOLD", src), rel)
    secs = parse_int(one(rel, r"const\s+OLD_AGE_ORPHAN_THRESHOLD\s*:\s*std::time::Duration\s*=\s*std::time::Duration::from_secs\(([0-9_]+)\)\s*;", "OLD_AGE_ORPHAN_THRESHOLD", src), rel)

    def submit_cap(r):
        s = strip_comments(read(r))
        m = re.findall(r"const\s+SUBMIT_CHANNEL_CAPACITY\s*:\s*usize\s*=\s*([0-9_A-Za-z]+)\s*;", s)
        if len(m) == 1:
            return parse_int(m[0], r)
        lit = one(r, r"let\s*\(\s*sender\s*,\s*receiver\s*\)\s*=\s*mpsc::channel\(([0-9_A-Za-z:]+)\)\s*;", "capacity of the submit channel", s)
        if "SUBMIT_CHANNEL_CAPACITY" in lit:
            return None  # uses the shared constant
        return parse_int(lit, r)
    prod = submit_cap(rel)
    rel_hook = "scylla/src/network/connection_verif.rs"
    hook = submit_cap(rel_hook)
    if prod is None:
        raise ExtractError("%s: the production submit channel refers to a constant that is not defined there" % rel)
    if hook is None:
        hook = prod
    # the event channel of the PRODUCTION control connection (`make_control_connection`; the `mpsc::channel(32)` of
    # cluster/control_connection.rs sits in that file's `#[cfg(test)]` module and is not it)
    rel_cc = "scylla/src/cluster/metadata/cc_establisher.rs"
    ev = parse_int(one(rel_cc, r"async fn make_control_connection\b[^{]*\{\s*let \(sender, receiver\) = tokio::sync::mpsc::channel\(([0-9_]+)\);",
                       "capacity of the control connection's event channel"), rel_cc)
    one(rel_cc, r"config\.event_sender = Some\(\(sender,", "the sender of that channel becomes the connection's event sender")
    return ("bounded resources of a connection", [rel, rel_hook, rel_cc],
            [("submitChannelCapacity", "Nat", str(prod)), ("hookSubmitChannelCapacity", "Nat", str(hook)),
             ("oldOrphanCountThreshold", "Nat", str(count)), ("oldAgeOrphanThresholdMs", "Nat", str(secs * 1000)),
             ("controlEventChannelCapacity", "Nat", str(ev))])


EXTRACTORS = [
    x_request_opcodes,
    x_response_opcodes,
    x_frame_header,
    x_query_flags,
    x_batch_flags,
    x_batch_types,
    x_consistency,
    x_value_markers,
    x_event_types,
    x_decompress_guards,
    x_startup_constants,
    x_connection_limits,
]



# ------------------------------------------------------------------------------------------------
# second generated file: response-side and routing-side tables (Generated/Tables.lean)
# ------------------------------------------------------------------------------------------------

def match_arms(rel, header_re, arm_re, what, src=None):
    """All `arm_re` matches inside the block that follows header_re (source order)."""
    src = strip_comments(read(rel)) if src is None else src
    body = block_after(src, header_re, rel)
    ms = re.findall(arm_re, body)
    if not ms:
        raise ExtractError("%s: no arms found for %s" % (rel, what))
    return ms


def nat_table(name, pairs):
    """List (Nat × String), keyed by code."""
    body = ", ".join('(%s, "%s")' % (nat(v), k) for k, v in pairs)
    return (name, "List (Nat × String)", "[" + body + "]")


def unique_codes(pairs, what):
    if len(set(v for _, v in pairs)) != len(pairs) or len(set(k for k, _ in pairs)) != len(pairs):
        raise ExtractError("%s: duplicate code or name" % what)
    return pairs


def x_db_error_codes():
    rel = "scylla-cql-core/src/frame/response/error.rs"
    arms = match_arms(rel, r"\bmatch\s+code\s*\{", r"(0x[0-9A-Fa-f_]+)\s*=>\s*DbError::([A-Za-z0-9_]+)", "ERROR codes")
    pairs = unique_codes([(n, parse_int(c, rel)) for c, n in arms], "ERROR codes")
    need = ["ServerError", "ProtocolError", "AuthenticationError", "Unavailable", "Overloaded", "IsBootstrapping",
            "TruncateError", "WriteTimeout", "ReadTimeout", "ReadFailure", "FunctionFailure", "WriteFailure",
            "SyntaxError", "Unauthorized", "Invalid", "ConfigError", "AlreadyExists", "Unprepared"]
    have = [k for k, _ in pairs]
    for n in need:
        if n not in have:
            raise ExtractError("%s: ERROR code arm for DbError::%s not found" % (rel, n))
    return ("ERROR message codes (Error::deserialize `match code`)", [rel], [nat_table("dbErrorCodes", pairs)])


def x_column_type_ids():
    rel = "scylla-cql/src/frame/response/result.rs"
    src = strip_comments(read(rel))
    fn = block_after(src, r"\bfn\s+deser_type_generic\b[^{]*\{", rel)
    body = block_after(fn, r"\bmatch\s+id\s*\{", rel)
    natives = unique_codes([(n, parse_int(c, rel)) for c, n in
                            re.findall(r"(0x[0-9A-Fa-f_]+)\s*=>\s*Native\(([A-Za-z0-9_]+)\)", body)], "native type ids")
    if len(natives) < 20:
        raise ExtractError("%s: expected at least 20 native type ids, found %d" % (rel, len(natives)))
    # structural arms: the code and the first constructor keyword found in the arm's text
    struct = []
    arms = list(re.finditer(r"(0x[0-9A-Fa-f_]+)\s*=>", body))
    for i, m in enumerate(arms):
        text = body[m.end(): arms[i + 1].start() if i + 1 < len(arms) else len(body)]
        if re.match(r"\s*Native\(", text):
            continue
        kinds = [("List", r"CollectionType::List\("), ("Map", r"CollectionType::Map\("), ("Set", r"CollectionType::Set\("),
                 ("UserDefinedType", r"\bUserDefinedType\s*\{"), ("Tuple", r"\bTuple\("), ("Custom", r"read_custom_type\(")]
        found = [k for k, pat in kinds if re.search(pat, text)]
        if len(found) != 1:
            raise ExtractError("%s: cannot classify type-id arm %s (%s)" % (rel, m.group(1), found))
        struct.append((found[0], parse_int(m.group(1), rel)))
    unique_codes(struct, "structural type ids")
    if sorted(k for k, _ in struct) != ["Custom", "List", "Map", "Set", "Tuple", "UserDefinedType"]:
        raise ExtractError("%s: structural type-id arms are %s" % (rel, struct))
    # the serializer side (`column_type_id`)
    ser = block_after(block_after(src, r"\bfn\s+column_type_id\b[^{]*\{", rel), r"\bmatch\s+typ\s*\{", rel)
    ser_n = [(n, parse_int(c, rel)) for n, c in re.findall(r"ColumnType::Native\(([A-Za-z0-9_]+)\)\s*=>\s*(0x[0-9A-Fa-f_]+)", ser)]
    ser_s = []
    for name, pat in [("List", r"CollectionType::List\(_\)\s*,\s*\.\.\s*\}\s*=>\s*(0x[0-9A-Fa-f_]+)"),
                      ("Map", r"CollectionType::Map\(_,\s*_\)\s*,\s*\.\.\s*\}\s*=>\s*(0x[0-9A-Fa-f_]+)"),
                      ("Set", r"CollectionType::Set\(_\)\s*,\s*\.\.\s*\}\s*=>\s*(0x[0-9A-Fa-f_]+)"),
                      ("UserDefinedType", r"ColumnType::UserDefinedType\s*\{\s*\.\.\s*\}\s*=>\s*(0x[0-9A-Fa-f_]+)"),
                      ("Tuple", r"ColumnType::Tuple\(_\)\s*=>\s*(0x[0-9A-Fa-f_]+)")]:
        ser_s.append((name, parse_int(one(rel, pat, "column_type_id " + name, ser), rel)))
    depth = one(rel, r"\bconst\s+MAX_TYPE_NESTING_DEPTH\s*:\s*usize\s*=\s*([0-9_]+)\s*;", "MAX_TYPE_NESTING_DEPTH", src)
    return ("column type ids: parser (deser_type_generic) and serializer (column_type_id); nesting limit", [rel],
            [nat_table("nativeTypeIds", natives), nat_table("structTypeIds", struct),
             nat_table("nativeTypeIdsSer", ser_n), nat_table("structTypeIdsSer", ser_s),
             ("maxTypeNestingDepth", "Nat", str(parse_int(depth, rel)))])


def x_result_kinds():
    rel = "scylla-cql/src/frame/response/result.rs"
    src = strip_comments(read(rel))
    fn = block_after(src, r"\bpub\s+fn\s+deserialize_with_features\b[^{]*\{", rel)
    arms = re.findall(r"(0x[0-9A-Fa-f_]+)\s*=>\s*([A-Za-z]+)", fn)
    pairs = unique_codes([(n, parse_int(c, rel)) for c, n in arms], "RESULT kinds")
    if [k for k, _ in pairs] != ["Void", "Rows", "SetKeyspace", "Prepared", "SchemaChange"]:
        raise ExtractError("%s: RESULT kinds are %s" % (rel, pairs))
    # result metadata flag bits: every `let <name> = ... flags & 0x000N != 0` must agree across the file
    flags = {}
    for name, lit in re.findall(r"\blet\s+(global_tables_spec|has_more_pages|no_metadata|metadata_changed)\s*=[^;]*?flags\s*&\s*(0x[0-9A-Fa-f_]+)\s*!=\s*0", src):
        v = parse_int(lit, rel)
        if flags.setdefault(name, v) != v:
            raise ExtractError("%s: metadata flag %s has two different bit values" % (rel, name))
    for n in ["global_tables_spec", "has_more_pages", "no_metadata", "metadata_changed"]:
        if n not in flags:
            raise ExtractError("%s: metadata flag %s not found" % (rel, n))
    return ("RESULT kinds and result-metadata flag bits", [rel],
            [nat_table("resultKinds", pairs)] +
            [("resultFlag_%s" % n, "Nat", nat(flags[n])) for n in ["global_tables_spec", "has_more_pages", "no_metadata", "metadata_changed"]])


def x_murmur3():
    rel = "scylla/src/routing/partitioner.rs"
    src = strip_comments(read(rel))
    imp = block_after(src, r"\bimpl\s+Murmur3PartitionerHasher\s*\{", rel)
    def big(pat, what, text=imp):
        return parse_int(one(rel, pat, what, text), rel)
    c1 = big(r"\bconst\s+C1\s*:\s*Wrapping<i64>\s*=\s*Wrapping\(\s*(0x[0-9A-Fa-f_]+)_u64\s+as\s+i64\s*\)", "C1")
    c2 = big(r"\bconst\s+C2\s*:\s*Wrapping<i64>\s*=\s*Wrapping\(\s*(0x[0-9A-Fa-f_]+)_u64\s+as\s+i64\s*\)", "C2")
    cap = big(r"\bconst\s+BUF_CAPACITY\s*:\s*usize\s*=\s*([0-9_]+)\s*;", "BUF_CAPACITY")
    h16 = block_after(imp, r"\bfn\s+hash_16_bytes\b[^{]*\{", rel)
    a1 = big(r"self\.h1\s*=\s*self\.h1\s*\*\s*Wrapping\(5\)\s*\+\s*Wrapping\(\s*(0x[0-9A-Fa-f_]+)\s*\)", "h1 addend", h16)
    a2 = big(r"self\.h2\s*=\s*self\.h2\s*\*\s*Wrapping\(5\)\s*\+\s*Wrapping\(\s*(0x[0-9A-Fa-f_]+)\s*\)", "h2 addend", h16)
    rots = [parse_int(x, rel) for x in re.findall(r"Self::rotl64\(\s*(?:k1|k2|self\.h1|self\.h2)\s*,\s*([0-9]+)\s*\)", h16)]
    if len(rots) != 4:
        raise ExtractError("%s: expected 4 rotations in hash_16_bytes, found %s" % (rel, rots))
    fm = block_after(imp, r"\bfn\s+fmix\b[^{]*\{", rel)
    fms = [parse_int(x, rel) for x in re.findall(r"k\s*\*=\s*Wrapping\(\s*(0x[0-9A-Fa-f_]+)_u64\s+as\s+i64\s*\)", fm)]
    shifts = [parse_int(x, rel) for x in re.findall(r">>\s*([0-9]+)", fm)]
    if len(fms) != 2 or len(shifts) != 3:
        raise ExtractError("%s: fmix has %d multipliers and %d shifts" % (rel, len(fms), len(shifts)))
    def u64(n):
        return "0x%016X" % n
    def nl(xs):
        return "[" + ", ".join(str(x) for x in xs) + "]"
    return ("Murmur3 (Cassandra variant) constants of Murmur3PartitionerHasher", [rel],
            [("murmur_C1", "Nat", u64(c1)), ("murmur_C2", "Nat", u64(c2)), ("murmur_BUF_CAPACITY", "Nat", str(cap)),
             ("murmur_h1_addend", "Nat", "0x%08X" % a1), ("murmur_h2_addend", "Nat", "0x%08X" % a2),
             ("murmur_block_rotations", "List Nat", nl(rots)),
             ("murmur_fmix_multipliers", "List Nat", "[" + ", ".join(u64(x) for x in fms) + "]"),
             ("murmur_fmix_shifts", "List Nat", nl(shifts))])


def x_frame_prealloc():
    """C08: the bound on the up-front allocation of a response body (`read_response_frame`)."""
    rel = "scylla-cql/src/frame/mod.rs"
    src = strip_comments(read(rel))
    fn = block_after(src, r"\bpub\s+async\s+fn\s+read_response_frame\b[^{]*\{", rel)
    lit = one(rel, r"\bconst\s+MAX_BODY_PREALLOCATION\s*:\s*usize\s*=\s*([^;]+);", "MAX_BODY_PREALLOCATION", fn)
    m = re.fullmatch(r"\s*([0-9_xXa-fA-F]+)\s*<<\s*([0-9_]+)\s*", lit)
    value = (parse_int(m.group(1), rel) << parse_int(m.group(2), rel)) if m else parse_int(lit, rel)
    # ... and it must be what caps the capacity request
    one(rel, r"Vec::with_capacity\(\s*length\.min\(\s*MAX_BODY_PREALLOCATION\s*\)\s*\)\s*\.limit\(\s*length\s*\)",
        "with_capacity(length.min(MAX_BODY_PREALLOCATION)).limit(length)", fn)
    return ("up-front allocation bound of a response body (read_response_frame)", [rel],
            [("maxBodyPreallocation", "Nat", "0x%X" % value)])


def x_schema_type_parser():
    """C08: the parser of the `type` strings of the schema tables (`map_string_to_cql_type`): nesting limit, how it is
    tested and passed on, and the table of native type names."""
    rel = "scylla/src/cluster/metadata/fetching.rs"
    src = strip_comments(read(rel))
    depth = one(rel, r"\bconst\s+MAX_CQL_TYPE_NESTING_DEPTH\s*:\s*usize\s*=\s*([0-9_]+)\s*;", "MAX_CQL_TYPE_NESTING_DEPTH", src)
    fn = block_after(src, r"\bfn\s+parse_cql_type_nested\b[^{]*\{", rel)
    # the limit is tested as `depth > MAX` on entry, every recursive call passes `depth + 1`, the entry point starts at 0
    one(rel, r"\bif\s+depth\s*>\s*MAX_CQL_TYPE_NESTING_DEPTH\s*\{", "`if depth > MAX_CQL_TYPE_NESTING_DEPTH`", fn)
    calls = re.findall(r"\bparse_cql_type_nested\(\s*p\s*,\s*([^)]*)\)", fn)
    if len(calls) < 7 or any(c.strip() != "depth + 1" for c in calls):
        raise ExtractError("%s: recursive calls of parse_cql_type_nested are %s (expected >= 7 times `depth + 1`)" % (rel, calls))
    entry = block_after(src, r"\bfn\s+parse_cql_type\b\s*\([^{]*\{", rel)
    one(rel, r"\bparse_cql_type_nested\(\s*p\s*,\s*0\s*\)", "parse_cql_type_nested(p, 0)", entry)
    # the keyword arms, in order
    kws = re.findall(r"p\.accept\(\s*\"([a-z]+<)\"\s*\)", fn)
    if kws != ["frozen<", "map<", "list<", "set<", "tuple<", "vector<"]:
        raise ExtractError("%s: keyword arms of parse_cql_type_nested are %s" % (rel, kws))
    nat = block_after(block_after(src, r"\bfn\s+parse_native_type\b[^{]*\{", rel), r"\bmatch\s+tok\s*\{", rel)
    names = re.findall(r"\"([a-z_0-9]+)\"\s*=>\s*NativeType::([A-Za-z0-9_]+)", nat)
    if len(names) < 20 or len(set(n for n, _ in names)) != len(names):
        raise ExtractError("%s: native type names of parse_native_type: %s" % (rel, names))
    table = "[" + ", ".join('("%s", "%s")' % (n, v) for n, v in names) + "]"
    return ("type strings of the schema tables (map_string_to_cql_type): nesting limit, native names", [rel],
            [("maxCqlTypeNestingDepth", "Nat", str(parse_int(depth, rel))),
             ("schemaNativeNames", "List (String × String)", table)])


EXTRACTORS_TABLES = [
    x_db_error_codes,
    x_column_type_ids,
    x_result_kinds,
    x_murmur3,
    x_frame_prealloc,
    x_schema_type_parser,
]

# ------------------------------------------------------------------------------------------------

def render(extractors, header):
    lines = [
        "/-",
        "GENERATED by tools/extract_tables.py from the Rust sources in /repo - DO NOT EDIT.",
    ] + header + [
        "-/",
        "namespace ScyllaVerif.Generated",
        "",
    ]
    seen = set()
    for x in extractors:
        title, rels, defs = x()
        lines.append("/-! ### %s  (%s) -/" % (title, ", ".join(rels)))
        for name, typ, val in defs:
            if name in seen:
                raise ExtractError("duplicate generated name %s" % name)
            seen.add(name)
            lines.append("def %s : %s := %s" % (name, typ, val))
        lines.append("")
    lines.append("end ScyllaVerif.Generated")
    return "\n".join(lines) + "\n"


def write_if_changed(path, text):
    os.makedirs(os.path.dirname(path), exist_ok=True)
    old = None
    if os.path.exists(path):
        with open(path, encoding="utf-8") as f:
            old = f.read()
    if old != text:  # keep the mtime (and lake's cache) when nothing changed
        tmp = path + ".tmp%d" % os.getpid()
        with open(tmp, "w", encoding="utf-8") as f:
            f.write(text)
        os.replace(tmp, path)


def main():
    write_if_changed(OUT, render(EXTRACTORS, [
        "Rewritten on every check run; the models use these definitions, the property theorems state the protocol's",
        "literal values, so a changed constant in the source breaks a proof obligation.",
    ]))
    write_if_changed(OUT_TABLES, render(EXTRACTORS_TABLES, [
        "Rewritten on every check run.  Response-side and routing-side tables of the driver; `Props/Tables.lean` proves",
        "that the hand-written models use exactly these values (and that they are the protocol's), so a changed",
        "constant in the Rust source breaks a proof obligation of every property whose model depends on it.",
    ]))
    return 0


if __name__ == "__main__":
    try:
        sys.exit(main())
    except ExtractError as e:
        print("extract_tables: " + str(e), file=sys.stderr)
        sys.exit(1)

#!/usr/bin/env python3
"""Developer tool: pull the final text report of a finished sub-agent out of its task transcript."""
import json, sys
last = None
for line in open(sys.argv[1]):
    try: o = json.loads(line)
    except Exception: continue
    m = o.get('message') or {}
    if m.get('role') == 'assistant':
        for c in m.get('content', []):
            if isinstance(c, dict) and c.get('type') == 'text' and len(c['text']) > 1500: last = c['text']
open(sys.argv[2], 'w').write(last or '')
print(len(last or ''))

#!/usr/bin/env python3
"""Developer tool: replace the per-property sections of DESIGN.md section 6 by the builders' "as built" texts
(work/design6_Cxx.md, kept under tools/briefs/design6/ once pasted)."""
import re, os, glob, shutil
p = "/verif/DESIGN.md"; s = open(p).read()
os.makedirs("/verif/tools/briefs/design6", exist_ok=True)
for f in sorted(glob.glob("/verif/work/design6_C*.md")):
    pid = re.search(r"design6_(C\d\d)", f).group(1)
    new = open(f).read().strip() + "\n\n"
    if not new.startswith("### " + pid):
        new = "### %s (as built)\n\n" % pid + new
    m = re.search(r"^### %s [^\n]*\n" % pid, s, re.M)
    if not m:
        print("no section for", pid); continue
    start = m.start()
    nxt = re.search(r"^(### C\d\d |## )", s[m.end():], re.M)
    end = m.end() + nxt.start()
    s = s[:start] + new + s[end:]
    shutil.copy(f, "/verif/tools/briefs/design6/")
    print("pasted", pid, len(new.splitlines()), "lines")
open(p, "w").write(s)

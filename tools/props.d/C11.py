"""Runner configuration of property C11 (loaded by tools/props.py; one file per property so that
concurrent edits never collide)."""
PROPS["C11"] = dict(
    level_text="Theorems (Props/C11.lean) prove for every shard count, msb_ignore<64 and i64 token that the u64 implementation equals ScyllaDB's stated algorithm and is < nr_shards; for every shard and port range that the drawable/iterable ports are exactly the ports of the range congruent to the shard (each once, any pivot/index), and that None/empty is produced iff no such port exists (drawPort_none_no_port); the whole SUPPORTED parse (ShardInfo::try_from) accepts exactly three present numeric entries with shard < nr_shards != 0 and tells a Cassandra node (no entry at all) from a malformed answer. The model is tied to sharding.rs by a differential run (exhaustive corner sweep + boundary/random cases) with a brute-force oracle. Which sharder a token-aware request is routed with after a node RESTARTS with new sharding parameters (same shard count / other ignore-msb included) is the pool's business: proved for the refiller model in Props/C12.lean (handleReady_adopts_reported_sharder) and tested end-to-end by the `rs=` histories of `e2e route` (C12).",
    level_note="Trusted: Lean kernel + {propext, Classical.choice, Quot.sound}; hand-written model Model/Sharding.lean (tie = differential harness through cfg(scylla_verif) pass-throughs); RNG choices are explicit model arguments (membership check). msb_ignore >= 64 (malformed SUPPORTED) is outside the property's domain.",
    lean_modules=["ScyllaVerif.Props.C11"],
    rule="case = (operation, shard count, msb/shard, token or port range); distinct case lines whose implementation output is not `none`/`-`/`0` count as non-trivial",
    trivial=lambda c, o: o in ("none", "-", "0"),
    trusted=[
        "the sharder handed to shard_of is the one the node currently reports: not part of this check - see C12 (connection_pool.rs maybe_reshard; `e2e route rs=` node-restart histories against harness/src/mockcluster.rs)",
        "Model/Sharding.lean transcribes sharding.rs:121-237 (shard_of, ports), 85-103 (ShardInfo::new), 286-320 (the whole ShardInfo::try_from: key presence, empty value lists, parse order = parseShardOptions; shardopts_ok / shardopts_no_info_iff / shardopts_numbers), 78-83 (Token FromStr, no normalisation: `shardraw` cases); u128 product modelled on Nat (product_fits_u128)",
        "rand::rng() index/pivot are explicit arguments of the model; correspondence for draw/iter is membership (model checks the observed output is producible by some random choice)",
    ],
    assumptions=[
        "msb_ignore < 64 for shardOfImpl_eq_spec (the value range ScyllaDB sends); shard < nr_shards and hi <= 65535 (u16) for the port theorems - both enforced by the Rust types/asserts",
    ],
    partial=["shard_of uses the release-build `<<` (shift amount mod 64): a debug build panics for msb_ignore >= 64, which ShardInfo::new accepts (64..=255) - outside the property's domain, no theorem links an accepted ShardInfo to msb_ignore < 64",
             "`draw` is generated in the random cells only, not in the exhaustive corner sweep (`lowest` covers the arithmetic there)"],
)

"""Runner configuration of property C09 (loaded by tools/props.py; one file per property so that
concurrent edits never collide)."""
PROPS["C09"] = dict(
    level_text="Theorems (Props/C09.lean) prove for the Lean model of the request encoder (QUERY, PREPARE, EXECUTE with/without result-metadata id, BATCH, STARTUP, REGISTER, OPTIONS, AUTH_RESPONSE; every subset of the optional fields; any value list with null/unset; any batch shape): frame_valid (version 4, flags = compression|tracing bits, spec opcode, u32 length = payload size), parse_encode (an independent parser written from the CQL v4 spec reads the emitted frame back to exactly the request: text/id, consistency, serial consistency, page size, paging state, timestamp, skip-metadata, values in order, batch statements in order with their values), compressed_body (payload decompresses to the uncompressed body, from the hypothesis decompress(compress b)=b), adapter_batch_refines / adapter_batch_parse / adapter_batch_mismatch_refused (a BATCH built through RawBatchValuesAdapter - typed rows + per-statement RowSerializationContext, the path of Connection::batch_with_consistency - is byte-identical to the plain BATCH, and more/fewer value lists than statements or a row not matching its context is refused), oversize_refused + representable_accepted (the encoder succeeds exactly on requests that fit a v4 frame: statements < 2^31 B, ids/strings < 2^16 B, <= 65535 values/statements, one value list per statement; otherwise an error, never truncation). Opcodes, flag bits, consistency/batch codes are re-extracted from the Rust source on every run (tools/extract_tables.py) and proved equal to the protocol literals. The model is tied to scylla-cql by a differential run through the public API with an independent Rust-side spec parser as oracle.",
    level_note="Trusted: Lean kernel + {propext, Classical.choice, Quot.sound}; hand-written model Model/Request.lean + Model/WirePrim.lean (tie = byte-exact differential run against SerializedRequest::make through the public API, plus a model-independent protocol parser in harness/src/c09.rs as oracle); the regex extractor tools/extract_tables.py (fails closed). LZ4/Snappy block codecs are parameters of the model (assumed to invert; checked on every compressed case by decompressing with the same crates). Bodies >= 4 GiB ((len-9) as u32 cast) are outside the theorems' hypothesis and cannot be built here. STARTUP map order is an explicit argument (checker mode: any permutation).",
    lean_modules=["ScyllaVerif.Props.C09"],
    tables=True,
    rule="case = (request kind, compression, tracing, stream id, fields...); distinct case lines whose implementation output is a frame (`ok ...`) or an error kind count as non-trivial",
    trivial=lambda c, o: o in ("bad-case",),
    out_kind=lambda o: " ".join(w for w in o.split(" ")[:4] if not (len(w) > 24 or w.lstrip("-").isdigit())) if o.startswith("err") else o.split(" ", 1)[0],
    trusted=[
        "Model/Request.lean transcribes frame/mod.rs:70-112, 273-323, request/query.rs:49-56, 120-176, execute.rs:74-90, batch.rs:63-159, 195-213, prepare.rs, startup.rs, register.rs, auth_response.rs, options.rs, serialize/row.rs:594-615 (add_value), writers.rs:104-131; Model/WirePrim.lean transcribes frame/types.rs write_* (checked u16 / i32 length conversions)",
        "Model/ReqParse.lean is the specification side: a parser of CQL v4 request frames written from native_protocol_v4.spec (+ ScyllaDB's result-metadata-id extension of EXECUTE) with literal constants; it imports nothing from the encoder model",
        "tools/extract_tables.py copies request/response opcodes, frame/QUERY/BATCH flag bits, consistency, batch type and kind codes, null/unset markers, event names and the header layout of SerializedRequest::make from the Rust text into Generated/Constants.lean on every run (regex-based, fails closed)",
        "LZ4 / Snappy block codecs (lz4_flex, snap) are parameters of the model; the driver instantiates them with the block the implementation produced (header, flags, length field, LZ4 length prefix and the decompressed body are still compared); HashMap iteration order of STARTUP is read off the implementation's frame and must be a permutation of the requested entries",
        "adapter-path BATCH (`abatch` cases): RawBatchValuesAdapter::new(rows, contexts) with rows = Vec<Vec<MaybeUnset<Option<Vec<u8>>>>> carried as Vec / BatchValuesFromIterator / tuple (1-4), contexts = RowSerializationContext::from_specs over blob ColumnSpecs (column count per statement is part of the case); Model/Request.lean batchLoopA/encodeBatchA transcribe raw_batch.rs:112-166 + row.rs:140-157 (WrongColumnCount) at the level of counts",
        "SerializedValues are built in the harness with add_value on blob-typed cells (null = None, unset = MaybeUnset::Unset); 2^31-byte inputs (`biglen` cases) are lazily mapped zero pages and only the model's length guard is run on them",
    ],
    assumptions=[
        "frame_valid / parse_encode / compressed_body: payload below 2^32 bytes (the `(len - 9) as u32` cast; frame_length_field_is_cast states the unconditional modulo form) and, for LZ4, uncompressed body below 2^32 bytes",
        "compressed_body: unlz4 (lz4 b) |b| = b and snappy b = c -> unsnappy c = b (explicit hypotheses, not axioms)",
        "page size is an i32, timestamps i64, stream id i16 (the Rust types)",
    ],
    partial=[
        "session-level capture of frames through the mock node (timestamps / page sizes chosen by the session layer) is not part of this check; the frame layer is driven directly through SerializedRequest::make",
        "accepted inputs just below 2^31 bytes are not executed (they would copy 2 GiB); only the refusal at 2^31 is",
    ],
    chunk=800,
)

"""Runner configuration of property C19 (loaded by tools/props.py; one file per property so that
concurrent edits never collide)."""
PROPS["C19"] = dict(
    level_text="Theorems (Props/C19.lean, invariant in Proofs/MergeChannel.lean) prove, for EVERY interleaving of the atomic steps of Sender::modify / Drop for Sender / Receiver::recv / cancellation of a suspended recv / Drop for Receiver (a transition system with one program counter per endpoint, so also for two OS threads under sequential consistency): received ++ in-flight ++ slot = merged (each merged update in exactly one received value, in order, none lost or duplicated; received values non-empty); a parked consumer with a pending value or a dropped sender has been notified AND its waker woken, or the producer's next step is that notify_one (no lost wake-up, cancel/restart included; a cancelled notified wait re-stores the permit; at quiescence the woken consumer's next poll returns exactly the pending value, resp. None); recv returns None only at a step where the sender is dropped, the slot is empty and everything merged was already returned; modify observing receiver_dropped returns SendError without applying f, and nothing is ever applied afterwards; every MetadataUpdate::merge_* keeps all refresh reply channels (list equality) and the newest topology wins. The models are tied to merge_channel.rs / update.rs by a differential run: the real channel polled manually with a counting waker over all legal poll-granularity interleavings to depth 10 (quick) / 13 (thorough) plus long random ones, UpdateSlot op sequences (exhaustive to depth 5 / 6 plus random), and 2-thread stress / end-of-stream race runs (parked tokio consumer and busy-polling consumer), with a model-independent oracle.",
    level_note="Trusted: Lean kernel + {propext, Classical.choice, Quot.sound}; hand-written models Model/MergeChannel.lean, Model/MetaUpdate.lean (tie = differential harness through the cfg(scylla_verif) pass-throughs verif_hooks::merge_channel); the tokio::sync::Notify contract N1-N5 written out in Model/MergeChannel.lean (validated at poll granularity by the differential run incl. wake counts, not verified); sequential consistency of the flag atomics / the slot mutex / Notify. The differential run cannot interleave INSIDE modify/recv; that is covered by the theorems only and sampled by the stress run.",
    lean_modules=["ScyllaVerif.Props.C19"],
    rule="case = (chan: sequence of producer/consumer operations at poll granularity | slot: sequence of merge_* / take operations | stress: n merges on a second OS thread | race: many rounds of a tiny stream whose drop follows the last merge at once); distinct case lines with at least one received value, pending poll, or non-empty take count as non-trivial",
    trivial=lambda c, o: not ("ready[" in o or "pending" in o or "full " in o or "partial " in o or o.startswith("received=") or o.startswith("rounds=")),
    out_kind=lambda o: ("stress" if o.startswith("received=") else "race" if o.startswith("rounds=") else "bad-case" if o == "bad-case" else
                        "chan:" + "+".join(k for k in ("ready", "pending", "none", "senderror", "cancelled", "rxdropped", "dropped")
                                           if k in {t.split(":")[0].split("[")[0] for t in o.split(";")})
                        if (":" in o.split(";")[0] and "=" not in o.split(";")[0]) else
                        "slot:" + "+".join(k for k in ("full", "partial", "none") if any(t.startswith(k + " ") for t in o.split(";")))),
    trusted=[
        "Model/MergeChannel.lean transcribes merge_channel.rs:45-54, 102-129, 149-182 (one atomic step per shared-memory access, in the code's order); Model/MetaUpdate.lean transcribes update.rs:74-85, 89-191, 258-265 and metadata/mod.rs:349-370 (Metadata/peer list abstracted to a topology tag, reply channel to the refresh id, HashMaps to association lists)",
        "tokio::sync::Notify (tokio 1.53.1 notify.rs) contract N1-N5: one stored permit; notify_one unlinks+marks the registered waiter (waking its waker if it stored one) else sets the permit; enable() consumes the permit or registers without waker; poll: Done/notified -> Ready, else store waker, Pending; dropping a Waiting future unlinks it and, if it was notified by notify_one but never polled, re-stores the permit; each of these is one atomic step",
        "sequential consistency: every access to slot (std Mutex), sender_dropped / receiver_dropped (Release/Acquire AtomicBool) and Notify is one indivisible step of an interleaving",
        "only a suspended recv() future can be dropped (never polled, or parked at line 173); Drop for Receiver needs no recv future alive (the &mut borrow)",
        "merge_client_routes_update / ClientRoutes::merge are modelled and covered by the theorems but have no pass-through, so they are not in the differential run",
    ],
    assumptions=[
        "single producer, single consumer (both endpoints are !Clone and their methods take &mut self): at most one Notified waiter",
        "the closure passed to modify does not panic and leaves the slot Some (true of the hook's push and of every MetadataUpdate::merge_*: merge_fills_slot); a closure leaving None is not modelled",
        "no_lost_wakeup is a safety statement (notified and woken, or the notify is the producer's next step); that the runtime polls a woken task and that threads keep being scheduled is assumed",
    ],
    partial=[
        "the differential run drives the channel at poll granularity only (it cannot preempt inside modify/recv); the finer interleavings are covered by the theorems under the Notify/SC assumptions and sampled by the 2-thread stress cases",
        "end-to-end Session::refresh_metadata against a mock cluster (DESIGN X, thorough) is not part of this check",
    ],
    shrink=dict(head_words=1, sep=";"),
)

"""Runner configuration of property C08 (loaded by tools/props.py; one file per property so that
concurrent edits never collide)."""
PROPS["C08"] = dict(
    level_text="Theorems (Props/C08.lean) about a total Lean model of the response decoders (primitive readers, frame header, body extensions, every response kind, result/prepared metadata, binary and custom-string column type parsers, raw rows): every decoder terminates with ok or err (no other outcome exists), requested allocation is proportional to the input, recursion depth is bounded, well-formed responses round-trip, truncated primitives are errors. The model is tied to the code by a differential run over well-formed frames of every kind, all their truncation points, field-aware mutations, deep nesting, custom type strings and random bytes, with a model-independent oracle (panic, hang watchdog, counting allocator, process death, well-formed frame decodes to what was encoded).",
    level_note="Trusted: Lean kernel + {propext, Classical.choice, Quot.sound}; hand-written model (tie = differential harness on the public API of scylla-cql). LZ4/Snappy are external crates: the decompressed body is a parameter of the model (handed over by the harness). Typed column VALUE decoding is C01's model: here it is only driven for the crash/hang/allocation oracle. Not claimed: read_response_frame reserving the header-announced length (frames announcing > 1 MiB more than is present are not handed to it); custom type strings with non-ASCII characters are not modelled (implementation still run under the oracle).",
    lean_modules=["ScyllaVerif.Props.C08"],
    rule="case = (features, cached-metadata flag, negotiated compression, frame bytes) or (primitive reader, bytes); distinct case lines whose implementation output is not a header-level error count as non-trivial",
    trivial=lambda c, o: o.startswith("err hdr."),
    out_kind=lambda o: (lambda w: ("err " + ".".join(w[w.index("err") + 1].split(".")[:2]) if "err" in w else next((x for x in w if x.isupper() or x in ("ok",)), w[0] if w else "")))(o.split(" ")[:12]) if o else "",
    chunk=2500,
    trusted=[
        "Model/ReadPrim.lean, TypeParser.lean, Response.lean, FrameHdr.lean transcribe scylla-cql(-core) frame/types.rs, frame/mod.rs, response/{mod,result,event,supported,authenticate,custom_type_parser}.rs, response/error.rs, deserialize/{result,row}.rs (raw cells only)",
        "UTF-8 validation: Lean's ByteArray.validateUTF8 stands for str::from_utf8 (validated differentially on boundary strings); Uuid::try_parse modelled from the uuid crate's parser",
        "LZ4/Snappy decompression is a parameter of the model (the harness hands the decompressed body over); only the size guard in front of LZ4 is modelled",
    ],
    assumptions=[
        "frames whose header announces more than 1 MiB beyond the bytes present are not handed to read_response_frame (its up-front reservation is the driver's own TODO, outside C08)",
        "rows of a result with zero columns are iterated up to 1000 (each costs no input byte; rows_count is only bounded by i32::MAX)",
    ],
    partial=[
        "wellformed_roundtrip (proved for every response kind: ERROR with every DbError variant, READY, AUTHENTICATE, SUPPORTED, EVENT topology/status/schema, AUTH_CHALLENGE/SUCCESS, RESULT Void/Rows header/SetKeyspace/Prepared/SchemaChange, plus wellformed_roundtrip_rows for result metadata, rows count and raw rows) excludes by its WfResponse hypothesis: EVENT CLIENT_ROUTES_CHANGE (host ids travel as UUID strings) and column types sent as custom type strings (vector / frozen types); the frame header + body extensions round trip is not proved - all three are checked per run by the harness oracle against an independent encoder",
        "truncation_is_error is proved for the primitives and, at response level, for READY, AUTHENTICATE, AUTH_CHALLENGE, AUTH_SUCCESS, RESULT/Void, RESULT/SetKeyspace (truncation_is_error_partial); kinds with loops are covered by the exhaustive truncation cases of the differential run; a Rows body cut inside the rows region legitimately decodes and yields a per-row error on iteration",
        "alloc ghost counts capacity REQUESTS (with_capacity / reserve) in element slots, not bytes copied while parsing (those are bounded by the bytes consumed)",
        "not modelled: the tablets routing payload decoder (RawTablet::from_custom_payload) and a steps ghost for the custom type parser (its linear cost after fix 3ffdc84 is covered by the hang watchdog on nested parameter-count mismatches up to depth 127)",
    ],
)

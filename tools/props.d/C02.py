"""Runner configuration of property C02 (loaded by tools/props.py; one file per property so that
concurrent edits never collide)."""
PROPS["C02"] = dict(
    level_text="Theorems (Props/C02.lean) prove, for EVERY event sequence of the connection model (inductive invariant `Inv` over `step`, lifted to all runs) and the full 32768-id space: the bitmap allocator returns the least free id and fails iff all ids are used, `free` clears exactly one bit (bit level refines the abstract set); two unanswered requests never share a stream id (including after cancellation before enqueue / before write / after write / after the response); the reader's lookup for an answer the server owes finds exactly the handler of the request it answers (or the orphan mark) and never `Missing`; a frame on a stream the server does not owe never reaches a handler; any caller that completes with a frame holds the frame produced for its own request; the Rust assert in `allocate` cannot fire; exhaustion gives UnableToAllocStreamId and leaves the map unchanged. The model is tied to connection.rs by a differential run at hook level (ResponseHandlerMap op sequences: exhaustive over 3 request ids / 3 streams up to length 5, random, full 32768-id exhaustion) and end to end (the real router/reader/writer/orphaner over an in-memory stream, requests through the real send_request, under a deterministic schedule that covers all four cancellation points, out-of-order answers, unsolicited frames, blocked writes, and - in both tiers - 300 to 1030 requests in flight before the first answer, so that the highest stream id on the wire crosses 255/256/257, 511/512/513 and 1023/1024/1025; the scripted server checks on every frame it reads that no two unanswered frames carry the same stream id), each with a model-independent oracle.",
    level_note="Trusted: Lean kernel + {propext, Classical.choice, Quot.sound}; hand-written models Model/StreamMap.lean, Model/Conn.lean (tie = differential harness through cfg(scylla_verif) hooks StreamMap / RawConnection). Each critical section of reader/writer/orphaner is one atomic model step (they run on one task and never hold the map lock across an await); tokio scheduling, socket buffering and memory-model effects are outside the model. The abstract server answers only stream ids it has received, at most once each.",
    lean_modules=["ScyllaVerif.Props.C02"],
    rule="case = one operation sequence (hook level `map`, or end-to-end schedule `conn`); distinct case lines whose implementation output contains at least one routed response (`H<req>` / `ok:`) count as non-trivial",
    trivial=lambda c, o: not ("H" in o or "ok:" in o),
    out_kind=lambda o: (("broken:" + o.rsplit("broken=", 1)[1]) if not o.endswith("broken=-") else ("conn-ok" if "ok:" in o else "conn-no-answer")) if "| srv=" in o else ("map-full" if "full" in o else ("map-routed" if "H" in o else "map-other")),
    trusted=[
        "Model/StreamMap.lean transcribes connection.rs:2309-2463 (HashMaps as association lists observed through get/erase/insert, orphan timestamps dropped); Model/Conn.lean transcribes connection.rs:136-223, 1541-1799 with each critical section of reader/writer/orphaner as one atomic step",
        "abstract server: answers only stream ids it has received, at most once each; tokio mpsc/oneshot: FIFO, close-on-drop; the bounded submit channel is modelled by the `submitFull`/`enqueue` events, the capacity-obtained-but-not-yet-pushed window of send() by `submitRace`/`push`",
        "end-to-end schedules are deterministic (current-thread runtime, futures polled by the test, settle = 16 yields); the driver Drive/C02.lean maps each schedule operation to model events",
    ],
    assumptions=[
        "the server does not answer a stream id before it has received the request frame carrying it (a frame on an id that is allocated but still in the writer's buffer is outside the property)",
    ],
    partial=[],
    shrink=dict(head_words=1, sep=";"),
    chunk=3000,
)

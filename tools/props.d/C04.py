"""Runner configuration of property C04 (loaded by tools/props.py; one file per property so that
concurrent edits never collide)."""
PROPS["C04"] = dict(
    level_text="Theorems (Props/C04.lean) prove for every token ring sorted by token (duplicate tokens allowed), every node placement (datacenter, rack, rack-less and datacenter-less nodes, vnodes), every token, every replication factor (0 .. above the node count) and every set S of precomputed keyspace strategies: the driver's SimpleStrategy walk is the first RF distinct nodes clockwise (simple_eq_spec); its NTS iterator (replicas_left / used_racks / acceptable_repeats) computes the stated per-datacenter rack rule (nts_eq_spec) and yields exactly min(RF, nodes) replicas (nts_len); the prefix properties behind the precomputed lists (simple_prefix, nts_prefix up to the rack count) and the snap of a token to its ring member (ringRange_snap); the locator's answer (compressed list / per-RF list / global max-RF list with prefix lookup / on-the-fly fallback) equals the on-the-fly walk for every strategy whether or not it was precomputed (precomputed_eq_onthefly*); restricting to a datacenter equals filtering the unrestricted answer (dc_restrict_eq_filter_*); and for every replica set len = |iter|, choose(i) = iter[i], the ring-ordered view is a permutation of iter and a subsequence of the distinct nodes clockwise from the token (views_agree). The model is tied to routing/locator/*.rs and cluster/state.rs by a differential run through ClusterState::new (hook cluster_from_topology) with a brute-force oracle of the two placement rules.",
    level_note="Trusted: Lean kernel + {propext, Classical.choice, Quot.sound}; hand-written models Model/Ring.lean, Model/Replicas.lean (tie = differential harness: exhaustive small universe + random topologies, every view of ReplicaSet, get_token_endpoints). Agreement with the servers' placement is by the rule in the property statement (specSimple / specNtsDc). Tablets are C15. Shards of the returned (node, shard) pairs are not compared (pool-less nodes: C11/C12).",
    lean_modules=["ScyllaVerif.Props.C04"],
    rule="case = (topology, precomputed keyspace strategies, queried strategy, datacenter restriction, token); distinct case lines whose replica set is non-empty count as non-trivial",
    trivial=lambda c, o: o.startswith("len=0 ") or o in ("bad-case", "PANIC"),
    out_kind=lambda o: "bad-case" if not o.startswith("len=") else (lambda f: ("len=%s" % (f[0][4:] if int(f[0][4:]) < 5 else "5+")) + (" ord!=iter" if f[1][5:] != f[3][4:] else ""))(o.split(" ")),
    trusted=[
        "Model/Ring.lean transcribes token_ring.rs:15-60 (partition_point on a sorted slice = index of the first token >= tok), itertools unique (first occurrence wins), Token::new; Model/Replicas.lean transcribes replication_info.rs:62-202, precomputed_replicas.rs:80-210, locator/mod.rs:62-271, 314-434, 436-589, 694-935 (ReplicaSetIterator::nth / size_hint are not modelled: nth is checked by the harness oracle against the iteration), cluster/state.rs:504-530",
        "HashMap<String, usize> of NTS = association list with distinct keys; HashMap/BTreeSet/HashSet iteration orders are irrelevant where the code uses them (sums, maxima, set membership) - datacenter and rack names are abstracted to numbers (only compared for equality)",
        "std: stable sort_by_key, slice::partition_point on a partitioned slice; rand 0.9 random_range(0..len) = (u32 * len) >> 32 (the harness scripts the RNG to sweep every index); node identity = host_id",
    ],
    assumptions=[
        "the ring is sorted by token (established by TokenRing::new: ring_sorted); NTS datacenter keys are distinct (a HashMap); no other hypothesis - in particular none about duplicate tokens since the repair ad6cb90",
    ],
    partial=[
        "ReplicaSetIterator::nth and size_hint, choose_filtered's fallback through IteratorRandom::choose, and the (node, shard) pairing are outside the model; the harness oracle checks nth(k) = k-th iterated replica and that choose_filtered respects its predicate",
    ],
    chunk=3000,
    shrink=dict(head_words=1, sep=";"),
)

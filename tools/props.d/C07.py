"""Runner configuration of property C07 (loaded by tools/props.py; one file per property so that
concurrent edits never collide)."""
def _c07_out_kind(o):
    if not o.startswith("rows="):
        return o.split(" ", 1)[0]
    w = o.split(" ")
    rows = 0 if w[0] == "rows=-" else w[0].count(",") + 1
    fin = w[1][4:]
    reqs = 0 if w[2] == "log=-" else w[2].count(",") + 1
    rb = "0" if rows == 0 else "1-6" if rows <= 6 else "7-50" if rows <= 50 else "51-200"
    qb = "1" if reqs == 1 else "2-4" if reqs <= 4 else "5-20" if reqs <= 20 else "21+"
    return "fin=%s rows=%s requests=%s" % (fin, rb, qb)


PROPS["C07"] = dict(
    level_text="Theorems (Props/C07.lean; invariants in Proofs/Pager.lean) about a transition system of the pager - producer loop with its program counter, capacity-1 channel, consumer with current page and row cursor, first page fetched on the caller's task - prove for EVERY server script (any page sizes incl. empty pages and an empty last page, any paging-state bytes), EVERY sequence of per-attempt outcomes (success, retried failure, final failure, ignored error) and EVERY interleaving of producer steps, polls and the drop of the pager: rows_exact_prefix / rows_exact (the rows handed out are always a prefix of the pages' rows in server order; if the stream ended with None without an error and no IgnoreWriteError decision was taken it handed out all of them - accounting invariant delivered ++ current page ++ channel ++ page held by send ++ pages not yet fetched ++ pages given up = all rows); paging_state_chain / paging_requests_in_order / state_keyed_server_sees_script (every request for page k, first attempt or retry, before or after a drop, carries the state returned with page k-1, none for k=0; requests are in page order; a server keyed by the presented state sees exactly the positional script); error_after_earlier_rows / first_page_error / error_at_most_once / nothing_after_end_or_error (a non-retried failure on page k surfaces once, after exactly the rows of pages < k, then the stream ends; a first-page failure is the constructor's error); terminates_poll / bounded_work / no_deadlock_reachable / terminates / eager_consumer_gets_everything (no pending page and producer done -> None; a measure strictly decreases on every effective step; no deadlock; under round-robin scheduling the stream ends within measure(init) rounds); prefetch_bound / early_drop_stops_producer (at most 2 pages prefetched; after a drop nothing is delivered or enqueued and only the page request in flight is finished); conn_rows_exact (the single-connection pager needs no side condition); ignore_truncates_silently (an IgnoreWriteError decision ends the stream without error - why rows_exact excludes it). The model is tied to pager.rs by a differential run of the REAL pagers against a scripted CQL server over loopback TCP: Connection::execute_iter (SingleConnectionPagingExecutor) and Session::execute_iter (PagingExecutor, default retry policy, one-node mock cluster), with an oracle computed from the script and the frames the server received.",
    level_note="Trusted: Lean kernel + {propext, Classical.choice, Quot.sound}; hand-written model Model/Pager.lean (tie = differential harness: real QueryPager/TypedRowStream over a real Connection / Session against harness/src/mocknode.rs on a current-thread tokio runtime); tokio mpsc(1) semantics (one buffered item, send waits, receiver drop fails send and discards the buffer, sender drop lets the receiver drain then see None) and task scheduling are represented by arbitrary interleaving of atomic steps - real wake-ups are exercised only by the differential run; the retry policy is represented by per-attempt outcomes (C06 owns its model); drop cases are checked as membership (request log between the laziest and the most eager producer). Only prepared statements are driven (Session::query_iter's unprepared pager shares PagingExecutor::query_remaining_pages but its page_query closure is not exercised); node switches need a multi-node mock cluster and are not in the differential run (the chain theorem covers them: the state does not depend on the target).",
    lean_modules=["ScyllaVerif.Props.C07"],
    rule="case = (pager kind pg|sess, skip-metadata flag, consumer eager|slow|drop after k rows, page script: rows per page, paging state returned, faults injected before the page is served); distinct case lines whose implementation output shows at least two page requests count as non-trivial",
    trivial=lambda c, o: "," not in o.split("log=")[-1],
    out_kind=_c07_out_kind,
    trusted=[
        "Model/Pager.lean transcribes pager.rs:199-253 (query_remaining_pages), 257-296 + 372-459 (first page), 461-496 (process_next_page), 550-684 (SingleConnectionPagingExecutor: fetch_one_page, page_from_outcome, fetch_remaining_pages), 718-791 (QueryPager::next, poll_fill_page, poll_next_page), 1089-1163 (new_for_connection_execute_iter), 872-915/1015-1083 (channel creation, worker spawn); one atomic step per producer await point (one fetch attempt, one send) and per consumer poll; the producer's return and the drop of its Sender are one step with its last send",
        "connAttempts / sessAttempts (Model/Pager.lean) map the harness's server faults to attempt outcomes: connection.rs:1046-1145 (one transparent re-execute after UNPREPARED), FallthroughRetryPolicy for the single-connection pager; DefaultRetryPolicy on a one-node plan for the session pager (digest-only ReadTimeout retried once per page on the same target, everything else final because RetryNextTarget exhausts the plan); a non-Rows first response of the session pager = empty stream (pager.rs:436-454)",
        "tokio::sync::mpsc::channel(1): FIFO of capacity 1, send suspends when full, Receiver drop closes the channel (pending and later sends fail, buffered items are discarded), Sender drop lets the receiver drain the buffer and then return None; tokio::spawn runs the producer concurrently with the consumer (any interleaving)",
        "harness/src/mocknode.rs: scripted CQL v4 server (independent frame codec); pages are served by position, the paging state presented with every EXECUTE is recorded; the session family answers the control connection's system.peers / system.local queries itself (schema fetch disabled)",
        "ghost fields of the model state (taken, lost, ignored) are written but never read by the transitions",
    ],
    assumptions=[
        "rows_exact: no attempt is answered with IgnoreWriteError (hypothesis `Attempt.ignore not in faults`; proved unnecessary for the single-connection pager: conn_rows_exact). For the session pagers an IgnoreWriteError decision on a page request ends the stream silently (pager.rs:220-226) - theorem ignore_truncates_silently; reachable only with a retry policy that ignores write errors and a server answering a read with a write error",
        "the server answers the k-th successful fetch with the k-th scripted page (a deterministic function of the request number; the chain theorem shows the presented state is the one of page k-1, so a server keyed by state sees the same thing when states are distinct)",
        "termination theorem: producer and consumer are scheduled in turn (round robin); for other fair schedules bounded_work + no_deadlock_reachable are the general statements",
        "rows are well-formed and of the prepared statement's column type (per-page type check / row deserialization errors of TypedRowStream are not modelled)",
    ],
    partial=[
        "unprepared session pager (Session::query_iter) and the control connection's own use of the pager are not driven separately (same PagingExecutor / SingleConnectionPagingExecutor code; the control connection's queries do run through the single-connection pager when the mock cluster session is built)",
        "node switch between pages / retry on the next node (coordinator stability, pager.rs:337-365) needs a multi-node mock cluster: not in the differential run; speculative execution inside a page fetch is C13",
        "client-side request timeout is exercised with real time on a few cases only (8+3 quick, 48+16 thorough)",
        "metadata-id change between pages (SCYLLA_USE_METADATA_ID) and per-page type-check failures are not scripted",
    ],
    shrink=dict(head_words=3, sep=" "),
    chunk=900,
)

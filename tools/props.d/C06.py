"""Runner configuration of property C06 (loaded by tools/props.py; one file per property so that
concurrent edits never collide)."""
def _c06_out_kind(o):
    if o.startswith("A="):
        w = o.split(" ")
        n = 0 if w[0] == "A=-" else len(w[0].split(","))
        r = w[2][2:]
        r = "err:last" if r.startswith("err:last") else r.split(":")[0] if r.startswith(("ok", "ignored")) else r
        return "fiber attempts=%d %s" % (n, r)
    if o.startswith("N="):
        w = o.split(" ")
        return "spec sessions=%s %s" % (w[1][2:], w[2])
    last = o.split(" ")[-1] if o else ""
    return "dec last=" + last.split(":")[0]


PROPS["C06"] = dict(
    level_text="Theorems (Props/C06.lean) prove, for every plan (targets whose get_connection() may succeed or fail at every single call), every history of per-attempt outcomes of any length (every RequestAttemptError / DbError variant with arbitrary field values), the idempotence flag, the initial consistency and each of the three built-in retry policies: a request not marked idempotent gets attempt k+1 only if attempt k failed with unavailable / bootstrapping / no free stream id / read timeout (never after a broken connection, overloaded / server / truncate error or write timeout); the default policy makes at most one attempt at serial consistency; attempts <= plan length + 2 / 1 / 0 same-node retries per fiber (so the loop terminates: the model's fuel is proved never exhausted), and with speculative execution (n fibers sharing one plan iterator, each with its own retry session, any interleaving) total attempts <= plan length + n x (2 / 1 / 0); the fiber sends exactly 1 + (number of retry decisions) attempts unless the plan ran out, on the target and at the consistency the decision named; fallthrough sends one attempt. The models are tied to retry/*.rs and execution.rs by a differential run (exhaustive decision tables over all reachable session states + the real run_request_no_side_effects over synthetic targets) with an oracle written from the property text.",
    level_note="Trusted: Lean kernel + {propext, Classical.choice, Quot.sound}; hand-written models Model/Retry.lean, Model/Exec.lean (tie = differential harness through the cfg(scylla_verif) pass-throughs request_info / run_request). The transparent re-prepare inside one attempt is C14, speculative fibers are C13.",
    lean_modules=["ScyllaVerif.Props.C06"],
    rule="case = (dec: policy, idempotence, history of (consistency, error) fed to one retry session) or (run: policy, idempotence, initial consistency, plan, scripted outcomes) or (runx: the same under a scripted test retry policy) or (spec: the same entry point with a speculative execution policy on a paused clock, checker mode); distinct case lines whose implementation output contains a retry/ignore decision or at least one attempt count as non-trivial",
    trivial=lambda c, o: o in ("-", "bad-case") or o.startswith("A=- ") or o.startswith("N=0 "),
    out_kind=_c06_out_kind,
    trusted=[
        "Model/Retry.lean transcribes default.rs:57-170, downgrading_consistency.rs:54-214, fallthrough.rs:30-32 (i32 fields as Int: only compared, never computed with); Model/Exec.lean transcribes execution.rs:525-650 (one fiber; labelled continue/break as recursion on (rest of plan, same target))",
        "a target of the plan is a connection oracle indexed by the get_connection() call on it (Model/Exec.lean `Target`), because execution.rs:546 asks for a connection again before EVERY attempt; the harness reaches the case through the hook run_request_calls (a synthetic target whose get_connection succeeds n times and then fails): after RetrySameTarget the next attempt goes to the same target, or to a later one when that call fails",
        "run_request_once is scripted: the k-th call returns the k-th scripted outcome; what an attempt does on the wire (incl. the re-prepare after UNPREPARED) is C14's subject",
    ],
    assumptions=[
        "the per-fiber theorems (everything about `run`/`runWith`) are about ONE fiber; with a speculative execution policy (idempotent requests only, execution.rs:433) the request is several such fibers sharing one plan iterator, each with its own retry session: the bound for that case is attempts_bounded_speculative (plan length + (1+m) x same-node retries, any interleaving); the multi-fiber step model (Exec.lean Fiber.step, same loop body as exec) is tied to the code only through the spec cases' interleaving-independent oracle (the speculative scheduler itself is C13's subject); no client-side request timeout (it only cuts a history short)",
        "the retry policy is one of DefaultRetryPolicy, DowngradingConsistencyRetryPolicy, FallthroughRetryPolicy",
    ],
    partial=[
        "DESIGN X(c) (thorough tier: the same histories injected end-to-end by the mock cluster, counting QUERY/EXECUTE/BATCH frames) is not built: the execution loop is tied at RequestExecutionParams::run_request_no_side_effects with a scripted run_request_once, so 'one run_request_once call = one request frame' is C14's/C09's subject, not re-checked here",
    ],
    explanation="dec cases: exhaustive decision tables (112 error classes with concrete boundary field values x idempotence x 11 consistencies x every session state reachable by flag-setting histories of length <= 3 (default) / <= 2 + sampled 3 (downgrading; all of length 3 in the thorough tier)) against the real RetrySession objects, plus random histories of length <= 7. run cases: the real run_request_no_side_effects over synthetic targets (plans of 0..5 targets incl. targets without a connection): exhaustive outcome sequences of length <= 2 (thorough 3) over a 14-letter alphabet on all plans of length <= 3, directed same-error-forever and flag-order histories, random histories of length <= plan + 3; the retry policy is wrapped in a recording policy, the oracle checks the property text on the attempt log (re-send of a non-idempotent request only after a proof error, default/serial <= 1 attempt, attempts <= plan + 2/1/0, attempts = 1 + retry decisions unless the plan ran out, target and consistency of every attempt as decided, session consulted with the right error/idempotence/consistency, one session). runx cases: the same loop under a scripted test RetryPolicy so that every decision arm is driven with every consistency (no built-in policy returns RetryNextTarget(Some)). Targets whose pool dries up between two same-target attempts (plan digits 2..9 = get_connection succeeds d-1 times) are driven through run_request_calls: all plans of length <= 3 over {never, always, once, twice} x orders of the same-node-retry errors, and a quarter of the random plans. spec cases: SimpleSpeculativeExecutionPolicy(max_retry_count m <= 3, 100 ms) on a paused tokio clock, every run_request_once call takes a scripted virtual delay so that 1..1+m fibers really interleave; printed and checked are only interleaving-independent facts (total attempts <= plan + fibers x same-node retries, <= 1 + k attempts per target, sessions <= fibers, non-idempotent = single fiber); the model runs as a checker (accepts the line iff it satisfies attempts_bounded_speculative). A scratch-copy mutation self-test (24 seeded changes to default.rs / downgrading_consistency.rs / execution.rs) was detected 24/24 (20 by the oracle with a replayable case, 4 behaviour changes that do not violate the property text by the model diff).",
    shrink=dict(head_words=3, sep=";"),
    chunk=6000,
)

"""Runner configuration of property C17 (loaded by tools/props.py; one file per property so that
concurrent edits never collide)."""
def _c17_out_kind(o):
    if o.startswith("ok "):
        return "ser ok"
    if o == "ok":
        return "tc ok"
    if o.startswith("err tc ") or o.startswith("err ser "):
        w = o.split(" ")
        return "ser err " + w[1] + " " + w[2].split("/")[-1] + (" nested" if "/" in w[2] else "")
    if o.startswith("err "):
        return "tc err " + o.split(" ")[1].split("/")[-1] + (" nested" if "/" in o else "")
    if " = cells=" in o:
        return "row" + (" rollback" if "err(" in o else "") + (" toomany" if "toomany" in o else "")
    return o[:16]


PROPS["C17"] = dict(
    level_text="Theorems (Props/C17.lean) prove, for the Lean model of every SerializeValue impl (leaves with their exact_type_check! lists, Option / Unset / MaybeUnset / MaybeEmpty, Vec / HashSet / BTreeSet -> serialize_sequence | serialize_vector, maps, Rust tuples, CqlValue incl. UDTs) with the output buffer threaded through and returned ALSO ON FAILURE: every serializer only appends to the buffer, whatever it returns (ser_appends), and a successful top-level call appends exactly one well-framed [value] (ser_writes_cell); hence add_value_atomic - after a failed add_value of ANY kind (type mismatch at the top, mismatch / wrong vector dimension / left-over UDT field deep inside a partially written collection, size overflow found by finish, too many values) the SerializedValues has the same bytes and count - and count_eq_cells - after ANY sequence of add_value calls, successes and failures interleaved, element_count() equals the number of cells iter() parses and is <= 65535 (induction over the call list); too_many_values (+ only then); ser_ok_fits / ser_rejects / ser_fits_ok_or_size / ser_ok_iff_partial - serialization succeeds iff the value-directed buffer-free condition `fits` holds and no size error occurs, at any nesting depth; accepted_pair_serializes / mismatched_pair_rejected / mismatched_pair_never_bound - the static relation accepts(carrier type, column type) implies success for every value (vector dimensions permitting) and its negation implies rejection of every fully populated value, which add_value then leaves unbound; deser_typecheck_iff / row_typecheck_iff - DeserializeValue::type_check and the row-level check succeed exactly on deserAccepts (recursing into element / key / value / field / column types). TESTS (decide +kernel, labelled): both relations equal the documentation's table on all 19 leaves x 20 natives, on 167 carriers x 200 types of one nesting level and 64 x 200 of two. The model is tied to scylla-cql-core by a differential run over ~100 concrete Rust carrier types x column types of nesting <= 2 (serialize with four representative values each, type_check, row-level type_check) and add_value sequences with failing values of every kind, with a model-independent oracle (clone-before/compare-after, element_count == iter().count(), documented pairs accepted, undocumented leaf pairs refused, round trip through the same Rust type; for every dynamic CqlValue case an independent `dyn_fits` written from the documentation - unknown UDT field at any depth and with fewer / as many / more fields than the type, over-long tuple, wrong vector length, element of another type must be refused, a fitting value must be accepted).",
    level_note="Trusted: Lean kernel + {propext, Classical.choice, Quot.sound}; hand-written models Model/Carrier.lean, Model/Row.lean (tie = byte-exact differential harness through the public API: SerializedValues::add_value, DeserializeValue::type_check, DeserializeRow::type_check). Leaf bodies are abstract byte strings (their encoding is C01). Generated/DocMatrix.lean is a hand transcription of docs/source/data-types/*.md. Known findings C01-F2 / C01-F9 (a None / Empty element directly inside a vector is accepted and written unframed) are value-level defects shared with C01; the model reproduces the implementation there.",
    lean_modules=["ScyllaVerif.Props.C17"],
    rule="case = (Rust carrier type, representative value, column type) for serialize / type_check, (row type, column types) for the row-level check, or one add_value sequence; distinct case lines count as non-trivial unless the output is bad-case",
    trivial=lambda c, o: o.startswith("bad-case"),
    out_kind=_c17_out_kind,
    trusted=[
        "Model/Carrier.lean transcribes serialize/value.rs:60-72, 93-612 (every impl), 623-706, 750-845, 847-900, 932-1150, writers.rs:103-218, deserialize/value.rs type_check of every impl (67-70, 253-279, 296-800, 962-990, 1065-1157, 1216-1234, 1428-1450, 1554-1583, 1610-1615, 1632-1652, 1791-1797, 1866-1950, 1994-2012), deserialize/row.rs:143-147, 198-203, 239-265; transparent wrappers (&T, Box, Arc, Cow, Secret) are identified with their content; a CqlValue is embedded as the tree of typed values serialize_cql_value delegates to",
        "Model/Row.lean transcribes serialize/row.rs:500-666 (add_value: u16::MAX guard, serialize into the tail, resize back on error, count after success; iter() over read_value) and the RowWriter / from_closure count conversion",
        "leaf carriers are one per exact_type_check! family; their content bytes are read off the implementation (serialize against the natural type) - value encodings are C01's subject",
        "HashSet / HashMap carriers of the harness use a fixed-seed hasher so that iteration order is the same at generation and at run time",
    ],
    assumptions=[
        "accepted_pair_serializes: the carrier type contains no CqlValue (noDyn) and every sequence meeting a vector<_, dim> column has dim elements (dimsOk); mismatched_pair_rejected: the value is fully populated (no None / Unset / Empty / empty collection), otherwise the mismatching part of the type is never visited - exactly as in the Rust code",
        "count_eq_cells starts from SerializedValues::new(); new_from_frame (bytes from a request frame) is not covered",
    ],
    partial=[
        "ser_ok_iff is proved as ser_ok_iff_partial: 'nested sizes fit' is expressed as 'the call does not end in SizeOverflow / TooManyElements' rather than by an independent byte-count predicate of the value; values of 2^31 bytes are exercised on the implementation only (`big` cases: the model echoes, the oracle checks rollback)",
        "'a top-level type-check error is raised before any byte is written' is checked differentially (buffer compared before / after) and covered by add_value_atomic, but not stated as its own theorem (NoSuchFieldInUdt is raised after the fields were written)",
        "external-crate carriers (chrono, time, num-bigint, bigdecimal, secrecy) are not instantiated by the harness (not dependencies of the harness crate); they are the same leaves after conversion",
        "the documentation matrix is compared by decide +kernel on finite universes (tests) and, on the implementation, by the harness oracle over the full differential matrix",
    ],
    shrink=dict(head_words=1, sep=" ; "),
    chunk=20000,
)

"""Runner configuration of property C14 (loaded by tools/props.py; one file per property so that
concurrent edits never collide)."""
def _c14_out_kind(o):
    if o in ("bad-case", "PANIC"):
        return o
    ks = []
    for k, name in (("<unprepared", "unprepared"), ("meta+", "metadata-changed"), ("<rows:nometa", "cached-decode"), ("RepreparedIdChanged", "id-changed"),
                    ("RepreparedIdMissingInBatch", "id-missing"), ("BATCH", "batch"), ("DbError:9472", "unprepared-visible"), ("r=ERR", "decode-error"), ("HANG", "HANG")):
        if k in o:
            ks.append(name)
    return "+".join(ks) if ks else "plain"




PROPS["C14"] = dict(
    level_text="Theorems (Props/C14.lean) over a small-step model of the driver's prepared-statement handling (any number of callers sharing statement objects, any number of nodes, any interleaving of request building / node answering / response handling / node events, of any length). Driver part, for EVERY state and response, no assumption on the server: unprepared_transparent (first answer UNPREPARED => PREPARE of the same text to the same node; when its PREPARED answer with the same id arrives, the same EXECUTE - id, values, consistency, timestamp, page size, paging state; only skip flag / presented metadata id recomputed - to the same node; its answer is what the caller sees), reprepare_id_mismatch_is_error (+ batch form; nothing sent, nothing changed), execute_carries_statement_id (any EXECUTE put on the wire by any step carries the immutable id of its operation's statement object), batch_unknown_id_is_error, batch_known_id_reprepares_and_resends (identical frame), decode_metadata_used (server metadata if sent, else the metadata cached for this request = current metadata at build time, else empty), next_execution_presents_latest_id (incl. the zero-column rule: empty id + metadata requested), nonempty_never_replaced_by_empty, reprepare_ok (exact update rule), frame lemmas other_steps_keep_caller / statement_identity_immutable lifting them to all interleavings. End to end, by an invariant proved for all histories (inv_exec) under the explicit server assumption: decode_metadata_faithful (whenever a node with the extension omits the metadata, the metadata cached for that request has exactly the columns the node encodes the rows under) and noext_current_is_announced_at_preparation (without the extension the current metadata stays the one announced by the creating PREPARED). The model is tied to connection.rs / prepared.rs / result.rs by a differential run of the real Connection::{prepare, execute_raw_with_consistency, batch_with_consistency} against scripted CQL nodes under a deterministic frame-level scheduler (exhaustive sequential histories, node events inside an operation, random concurrent multi-node histories) with a model-independent oracle.",
    level_note="Trusted: Lean kernel + {propext, Classical.choice, Quot.sound}; hand-written model Model/Prepared.lean (tie = differential harness through the cfg(scylla_verif) pass-through VerifConn). The ABSTRACT SERVER (Model/Prepared.lean `serve`/`applyEvent`, hypotheses NodeOK/EventOK: a node's result-metadata id determines its columns, ids are non-empty, metadata + new id sent iff the presented id differs, NO_METADATA iff skip requested) is an assumption about ScyllaDB, not proved; the driver theorems do not use it. Atomicity: one load of the shared metadata per request build, load+store per response handling are single steps (true on one thread; for concurrent stores the invariants only need that every stored value was announced). Not covered: timestamp generator draw (explicit statement timestamps are), tracing, tablets payload, the session-level caching layer, QueryPager (C07).",
    lean_modules=["ScyllaVerif.Props.C14"],
    rule="case = (nodes with/without the metadata-id extension, statements with their PREPARED announcement kind and initial columns, schedule of caller steps and node events); distinct case lines in which at least one request was answered by a node (a `<...` token in the output) count as non-trivial",
    trivial=lambda c, o: "<" not in o,
    out_kind=_c14_out_kind,
    trusted=[
        "Model/Prepared.lean transcribes connection.rs:645-743 (prepare_raw/prepare/reprepare), 938-972 (handle_result_metadata_new_id), 974-1044 (calculate_cached_metadata_params), 1046-1148 (execute_raw_with_consistency), 1177-1246 (batch_with_consistency loop), prepared.rs:211-280, 567-579 (shared immutable id/text, ArcSwap current metadata), result.rs:758-805, 810-852, 901-958, 1015-1053 (which metadata decodes the rows; METADATA_CHANGED honoured only with the extension; NO_METADATA+METADATA_CHANGED is a parse error)",
        "harness/src/c14.rs: own scripted CQL v4 nodes (frame codec of harness/src/mocknode.rs, written from the spec), each caller on its own connections, every request held until the schedule lets the node consume it and every response held until the schedule delivers it; the server logic there (NodeState::answer) is written independently of the Lean `serve` and both are diffed",
        "typed decoding of cells is modelled only as far as needed to make a wrong column set observable (int = 4 bytes, text = UTF-8; the node never sends 4-byte text cells); the value codec itself is C01",
        "verif_hooks::connection::VerifConn (pass-through to the crate-private Connection methods; errors mapped to labels)",
    ],
    assumptions=[
        "server assumption (see level_note) for decode_metadata_faithful / inv_exec; a node without the extension never sets METADATA_CHANGED and never sends a metadata id in PREPARED (wire well-formedness)",
        "without the extension and with use_cached_result_metadata the driver decodes with the columns announced at the creating preparation even after a schema change / re-preparation (documented CQL v4 limitation, prepared.rs:167-198): the oracle there demands only that the columns used were announced by a server for that statement",
        "a second UNPREPARED in a row (eviction between the re-preparation and the re-sent EXECUTE) is returned to the caller as DbError Unprepared: the EXECUTE path re-sends once (unprepared_transparent: the caller sees the second response); the BATCH path loops without bound",
    ],
    partial=[
        "next_execution_presents_latest_id is a statement about the state right after the response was handled; with concurrent callers an OLDER response decoded with cached metadata and handled later re-installs the older metadata (handle_result_metadata_new_id compares the id of the metadata it decoded with, which may be the stale cached one) - decoding stays faithful (decode_metadata_faithful), the next EXECUTE presents the older id once more and is corrected by the server",
        "the generator-drawn timestamp (no explicit statement timestamp) is not exercised: connections are opened without a timestamp generator",
        "execute_iter / QueryPager is not driven here (paged execution = one EXECUTE per page with explicit paging state); the pager is C07",
    ],
    shrink=dict(head_words=3, sep=";"),
    chunk=2500,
)

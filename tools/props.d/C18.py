"""Runner configuration of property C18 (loaded by tools/props.py; one file per property so that
concurrent edits never collide)."""
PROPS["C18"] = dict(
    lean_modules=["ScyllaVerif.Props.C18"],
    level_text="Theorems (Props/C18.lean) prove, for every interleaving of any number of threads running the load / compute_next / compare_exchange loop and for every clock behaviour (stalled, repeated, backwards, pre-epoch - the clock is an arbitrary input of each compute step), that the values installed by successful CASes are strictly increasing (hence pairwise distinct, and strictly increasing along each thread's own calls), and that an explicit statement timestamp is chosen in preference to the generator. Tied to timestamp_generator.rs by single-thread runs under a scripted clock compared value by value, and multi-thread runs validated as model traces (membership) plus a distinct/increasing oracle.",
    level_note="Trusted: Lean kernel + standard axioms; hand-written model Model/Timestamp.lean; sequential consistency of the SeqCst AtomicI64 operations; values stay below 2^63 (last + 1 does not overflow; ~year 294000); the scripted clock hook (one shadowing line in compute_next, cfg(scylla_verif)). The statement-timestamp preference (connection.rs) is proved on the model and is tied to the code only by the mock-node run of C07/C14 when present.",
    rule="case = (single-thread script, calls) or (threads x scripts, calls); distinct case lines count as non-trivial when the clock script makes at least one reading not exceed the previous timestamp (stall / backwards / pre-epoch), i.e. the output contains two consecutive values differing by exactly 1",
    trivial=lambda c, o: not any(b - a == 1 for part in o.split("|") for a, b in zip([int(x) for x in part.split(",") if x.lstrip("-").isdigit()], [int(x) for x in part.split(",") if x.lstrip("-").isdigit()][1:])),
    trusted=[
        "Model/Timestamp.lean transcribes timestamp_generator.rs:96-157 (compute_next, next_timestamp CAS loop) and the `statement.get_timestamp().or_else(generator)` choice of connection.rs",
        "sequential consistency of AtomicI64 SeqCst load / compare_exchange (each is one atomic step of the model)",
        "verif_hooks::clock scripted clock (thread-local), which replaces only the SystemTime::now() reading",
    ],
    assumptions=["timestamps stay below i64::MAX (no overflow of last + 1)", "multi-thread correspondence is membership: the observed per-thread value lists must be producible by some interleaving of the model"],
    partial=["explicit_timestamp_wins is proved on the model; its tie to connection.rs is by the mock-node end-to-end run (C07/C14 harness), not by the hook-level check"],
    chunk=400,
)

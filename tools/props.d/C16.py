"""Runner configuration of property C16 (loaded by tools/props.py; one file per property so that
concurrent edits never collide)."""
PROPS["C16"] = dict(
    level_text="Theorems (Props/C16.lean) about a generic interpreter of the code the derive macros generate, for EVERY struct descriptor (any number of fields, any attribute combination passing the macro's name-collision check), every database field list and every value assignment: by-name UDT serialization writes each bound field's value at its column's database position, nulls (or nothing, at the end) elsewhere (serValueByName_position / _unmatched_null); it succeeds exactly when every listed column is acceptable (value fits the type; excess column iff not forbid_excess_udt_fields) and every field without allow_missing/skip has a column (serValueByName_accepts_iff, _excess), a missing required field is always an error wherever it is declared - the F7 shape included (serValueByName_missing_required); acceptance and the cell at each column's position do not depend on the database order (serValueByName_perm_accepts / _perm_cells, tcValueByName_perm); the by-name UDT type check accepts exactly: acceptable columns, no bound field listed twice, required fields listed (tcValueByName_accepts_iff); by-name UDT deserialization fills each field from the like-named column (skip / missing allow_missing -> default, null with default_when_null -> default) (deserValueByName_spec); value -> cells -> value is the identity in any database order (byname_roundtrip); by-name row serialization is characterised exactly, cells position by position (serRowByName_iff); the ordered UDT flavor accepts only subsequences of the declared names in declared order containing every required field, excess only at the end and only without forbid (svOrdered_sound, dvTcOrd_sound, dvTcOrd_declared). The interpreter is tied to scylla-macros by a differential run of 50 structs compiled with the real derive macros (descriptor and struct generated from ONE table) over all permutations of up to 6 columns, every subset missing, excess / duplicated / retyped columns at every position, null patterns, truncated cell lists, with a model-independent oracle (value at its column's position, round trip, documented accept/reject rule, missing required field never dropped, declared order for the ordered flavor).",
    level_note="Trusted: Lean kernel + {propext, Classical.choice, Quot.sound}; hand-written interpreter Model/Derive.lean (tie = differential harness on the fixed family; macro expansion itself is not modelled). Field values are abstract payloads (typed encoding is C01). Proved for the UDT derives and by-name SerializeRow; DeserializeRow, ordered rows, skip_name_checks and flatten are tied and oracle-checked differentially only (see partial).",
    lean_modules=["ScyllaVerif.Props.C16"],
    rule="case = (trait, struct descriptor, database column list, values or cells); distinct case lines count as non-trivial unless the output is bad-case",
    trivial=lambda c, o: o.startswith("bad-case"),
    out_kind=lambda o: " ".join(o.split(" ")[:3]) if o.startswith("err") else o.split(" ", 1)[0],
    trusted=[
        "Model/Derive.lean transcribes serialize/value.rs:261-553, serialize/row.rs:203-472, _macro_internal.rs:141-310, deserialize/value.rs:226-898, deserialize/row.rs:175-670 as an interpreter over a struct descriptor; loops are structural recursions returning the cells written from the current column on; `saved_cql_field` + iterator are one list",
        "value level kept abstract: i32 = 4-byte payload, String = ASCII bytes (UTF-8 validation not modelled), Option None = null (typed encodings: C01)",
        "the derive macros' compile-time validation (name collisions, skip_name_checks restrictions) is represented by the hypothesis ValidNames; the family table and descriptor strings come from the same macro_rules tokens (harness/src/c16_structs.rs)",
    ],
    assumptions=[
        "ValidNames: non-skipped fields have pairwise distinct database names (enforced by the macros at compile time)",
        "byname_roundtrip: database names distinct, column types equal the like-named fields' types, values well-typed (None only for Option, i32 payload 4 bytes)",
    ],
    partial=[
        "DeserializeRow (by name and ordered), ordered SerializeRow, skip_name_checks and #[scylla(flatten)] are modelled (Model/Derive.lean: tcRow*/deRow*/srOrdered/serRowByNameN/serRowOrderedN) and checked differentially + by the harness oracle, but have no theorem yet",
        "ordered flavor: soundness (only declared-order subsequences are accepted) and acceptance of the declared order are proved; the full iff with the greedy allow_missing rule and the ordered deserialize walk are differential only",
        "error KIND exactness is proved for the missing-required-field case; for other rejections the theorems state acceptance iff (the differential run compares kinds)",
    ],
    chunk=4000,
)

"""Runner configuration of property C12 (loaded by tools/props.py; one file per property so that
concurrent edits never collide)."""
def _c12_out_kind(o):
    if o.startswith("R="):
        w = o.split(" ")
        reps = 0 if w[0] in ("R=-", "R=x") else w[0].count(",") + 1
        pf = w[-1][3:] if w[-1].startswith("pf=") else ""
        first = "none" if pf in ("", "-") else ("replica(shard)" if ".s" in pf else "node(no shard)")
        return "plan replicas=%s%s first=%s" % ("x" if w[0] == "R=x" else min(reps, 4), "" if w[1] in ("D=x",) else " dc", first)
    if o.startswith("nr="):
        w = o.split(" ")
        have = w[1][5:].split(",")
        nr = int(w[0][3:]) if w[0][3:].isdigit() else 0
        full = len(set(have)) == nr
        return "pool nr=%s %s" % (nr, "every-shard-pooled" if full else "some-shard-missing")
    return o.split(" ", 1)[0]


PROPS["C12"] = dict(
    level_text="Theorems (Props/C12.lean) compose C03/C04/C05/C11/C15: for every cluster (ring, placement, keyspace strategies, per-node enabled/connected, per-node sharder, tablet maps built by any history of inserts), every policy configuration, every request with a token and ALL random choices of the policy, of the shard fill-in and of the pool: first_attempt_is_replica (ring tables: if a live permitted replica of the token exists the head of the plan is a live replica carrying the shard computed under its own node's sharder, one of the preferred datacenter when that datacenter has a live replica - corollary of C05 plan_order / plan_complete / classOf_eq and C04 views_agree), first_attempt_is_tablet_replica + tablet_overrides_ring (a table with a tablet map never consults the ring: the head is a live replica of the tablet covering the token - by C15 lookup_refines the latest learnt, never a stale one - with THAT tablet's shard; the per-datacenter list is the filter of the full list by C15 dc_restrict), first_attempt_shard (the shard sent with a ring replica is ScyllaDB's shardOfSpec under the TARGET node's nr_shards/msb_ignore and < nr_shards, by C11), connection_for_shard_own_bucket / connection_shard / connection_for_shard_total (the connection is taken from the bucket of that shard whenever it is non-empty, else from some non-empty bucket; the Rust panics are unreachable on a published pool), pool_filing_invariant (after any sequence of ready/broken connection events every connection in bucket s was reported by the server to be on shard s; the published pool is non-empty) and the composed statement route_first_attempt. The models are tied to default.rs / locator / plan.rs / connection_pool.rs by a differential run: Plan::new on hook-built clusters with tablets fed through update_tablets (first target checked by membership), and a REAL NodeConnectionPool + refiller against a scripted server that emulates ScyllaDB's shard-aware port, with a model-independent oracle.",
    level_note="Trusted: Lean kernel + {propext, Classical.choice, Quot.sound}; hand-written model Model/Routing.lean on top of the C03/C04/C05/C11/C15 models (tie = differential harness through the hooks cluster_from_topology_with_tablets / verif_update_tablets / VerifPool and the public API). PARTIAL by nature: the Session-level glue (keyspace/table spec taken from the prepared statement, partitioner choice, tablet feedback timing) is not driven by this check - no Session against a mock cluster here (the oracle-only `e2e route` cases of harness/src/e2e.rs, when present, cover it as tests). Hook-built nodes have no pool, so the node->shard->connection step is observed on a separate real pool, not through the cluster.",
    lean_modules=["ScyllaVerif.Props.C12"],
    rule="case = (plan: topology, keyspace strategies, tablet history, policy config, request, table) | (pool: shard count, msb, pool size, port mode, requested shards) | (route: the same with tokens); distinct case lines whose implementation output names a first target / a carried query count as non-trivial",
    trivial=lambda c, o: o in ("bad-case", "unstable-pool") or o.endswith("plan=- pf=-"),
    out_kind=_c12_out_kind,
    trusted=[
        "Model/Routing.lean transcribes locator/mod.rs:104-124, 274-280 (tablet branch of replicas_for_token, with_computed_shard), default.rs:145-541, 664-838 on a PlainSharded replica set (the token-unaware steps are the C05 model's), plan.rs:94-108, execution.rs:207-224, connection_pool.rs:320-410, 455-472 (connection_for_shard, its fallback loop with Vec::swap_remove), 577-621, 665-679, 912-1035, 1098-1153, 1218-1280, 1366-1379 (refiller: ready connection, maybe_reshard, update_shared_conns, remove_connection)",
        "random choices are explicit arguments; correspondence for the first target and for the fallback connection is membership (the model checks that the observation is producible by some random choice)",
        "harness/src/mocknode.rs ShardMode::ByPort: server-side shard of a connection = source port % nr_shards (what ScyllaDB's shard-aware port does); the pooled shards are the mock's own record when every accepted connection is pooled",
        "connection opening (source port choice, back-off, the advanced-shard-awareness block, keyspace setup before filing) decides which connections arrive and is an input (event list) of the refiller model",
    ],
    assumptions=[
        "WF cl (C05): the locator is what ReplicaLocator::new builds, NTS maps have distinct keys, host ids identify nodes; tablet histories are valid (first <= last, what from_custom_payload guarantees)",
        "a connection's shard info passed ShardInfo::new (shard < nr_shards; C11 shardinfo_valid) - otherwise handle_ready_connection would index out of bounds (handleReady_no_panic states the guarded form)",
        "msb_ignore < 64 for the equality with ScyllaDB's formula (C11)",
    ],
    partial=[
        "Session-level glue (RoutingInfo built by Session::execute from the prepared statement, partitioner choice, tablet feedback timing) is not driven: the composition starts at RoutingInfo{token, table}; token_is_servers_token re-exports C03 for the step before it",
        "latency awareness is off (as in C05)",
        "the pool hook nodes and the cluster hook nodes are different objects: Node::sharder() of a cluster node is an input of the model (pool-less hook nodes have none)",
    ],
    shrink=dict(head_words=1, sep=";"),
    chunk=1200,
)

"""Runner configuration of property C03 (loaded by tools/props.py; one file per property so that
concurrent edits never collide)."""
PROPS["C03"] = dict(
    level_text="Theorems (Props/C03.lean) prove, for every list of chunks (empty and 1-byte chunks included), that the driver's buffered three-phase Murmur3 `write`/`finish` returns exactly the one-shot Cassandra MurmurHash3_x64_128 (signed tail bytes) token of the concatenation, normalised MIN->MAX (never i64::MIN); that for every permutation of bind markers the partition key is extracted in partition-key order (`(extract (pkIndexesOfWire wire) values)[seq] = values[wire[seq]]`, non-key markers skipped); that the token is murmur3Spec of the single component / of the composite encoding be16 len ++ bytes ++ 0 (and equals the CDC token under the CDC partitioner); that a composite component of >= 65536 bytes is rejected; and chunking independence of the CDC hasher. The models are tied to partitioner.rs / prepared.rs / result.rs by a differential run with model-independent oracles (chunked = one-shot, != i64::MIN, independent Cassandra reference, real-cluster vectors).",
    level_note="Trusted: Lean kernel + {propext, Classical.choice, Quot.sound}; hand-written models Model/Murmur3.lean, Model/PartitionKey.lean (tie = differential harness: public hashers, forged PREPARED frames through deser_prepared_metadata, PreparedStatement::calculate_token/compute_partition_key via the cfg(scylla_verif) pass-through statement_from_prepared). Fidelity of murmur3Spec to Cassandra's Java is by transliteration + the four server-derived vectors (no server in the sandbox).",
    lean_modules=["ScyllaVerif.Props.C03"],
    rule="case = (operation, bytes, chunking) or (partitioner, pk wire order, bound values); distinct case lines whose implementation output carries a token or an error kind count as non-trivial",
    trivial=lambda c, o: o in ("-", "bad-case"),
    out_kind=lambda o: ("token-err" if " tok=err" in o else "token-panic" if "tok=panic" in o else "token-none" if "tok=none" in o else "token-ok") if o.startswith("pk=") else (o.split(" ", 1)[0] if o and not (o[0].isdigit() or o[0] == "-") else "value"),
    trusted=[
        "Model/Murmur3.lean transcribes partitioner.rs:145-313 (Wrapping<i64> on UInt64: same bit patterns, right shifts are on `as u64`), 316-381 (CDC), routing/mod.rs:38-43 (Token::new)",
        "Model/PartitionKey.lean transcribes prepared.rs:782-860, 348-360, result.rs:976-984 (sort_unstable_by_key modelled by a stable sort; equal marker indexes are checked up to the order of equal keys), partitioner.rs:396-423",
        "murmur3Spec = Cassandra's MurmurHash.hash3_x64_128 one-shot form by transliteration, validated by the four (string, token) vectors obtained from a real cluster (partitioner.rs tests) - `example ... := by decide +kernel` in Props/C03.lean and `vector` cases in every run",
        "u16 arithmetic in PartitionKey::new is modelled with overflow checks on (as the harness is built): repeated marker indexes (never sent by a server) panic there, wrap in a release build",
    ],
    assumptions=[
        "extract_in_pk_order / token_formula: the marker indexes of the PREPARED frame are distinct and below the number of bound values (<= 65535), every key component is bound to a value (null/unset key components are skipped by the code; the server rejects such requests)",
        "bound_values.element_count() = col_specs.len() (enforced by serialize_values)",
    ],
    partial=[],
    chunk=3000,
)

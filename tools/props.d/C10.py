"""Runner configuration of property C10 (loaded by tools/props.py; one file per property so that
concurrent edits never collide)."""
PROPS["C10"] = dict(
    level_text="Theorems (Props/C10.lean) prove for every reachable state of the connection model (every event history and in-flight set): once the router ends (reader I/O or header error, `Missing` lookup, writer error, orphan threshold, keep-alive timeout = the abstract event `break_`) no caller is left waiting - a registered one holds the connection error, a queued or parked one ChannelError; a request submitted afterwards fails immediately; nobody is handed a response after the break; a frame on a stream nobody waits on breaks the connection; and `cut_never_partial`: reading any prefix of any encoded response-frame sequence yields exactly the first n frames and then a cut-in-header / cut-in-body error unless the cut is on the boundary - never a truncated, foreign or bad-header result. Tied to the code by a differential run: `read_response_frame` over in-memory readers cut at every offset (plus garbage headers, bad versions, unknown opcodes), and the REAL router over an in-memory stream with N requests in flight and the faults FIN / garbage header / bad version / cut response stream at every offset / unsolicited stream id / silent stall with keep-alive on (tokio paused clock), with the oracle: every request completes, none hangs, no foreign or partial body, a later submit fails at once.",
    level_note="Trusted: Lean kernel + {propext, Classical.choice, Quot.sound}; models Model/Conn.lean, Model/FrameStream.lean tied by the differential harness (hooks RawConnection). PARTIAL by nature: the theorems show the state machine leaves no waiter once the break event occurs; that the event occurs promptly in real time (tokio timers, OS socket errors such as RST, pool refill, retries elsewhere) is outside the model - the keep-alive timer is the abstract `break_ keepaliveTimeout` event, observed by the end-to-end run only under tokio's virtual clock (a test). Pool membership / retry policy are not modelled.",
    lean_modules=["ScyllaVerif.Props.C10"],
    rule="case = one cut byte stream (`frames`) or one fault schedule (`conn`, `ka`); distinct case lines whose implementation output is not the empty clean stream count as non-trivial",
    trivial=lambda c, o: o == "- | clean",
    out_kind=lambda o: ("broken:" + o.rsplit("broken=", 1)[1]) if "broken=" in o else ("frames:" + o.rsplit("| ", 1)[1].split(":")[0] if "| " in o else o[:12]),
    trusted=[
        "Model/FrameStream.lean transcribes scylla-cql/src/frame/mod.rs:142-190 (whole header first, then version / opcode validation, then exactly `length` body bytes)",
        "Drive/C02.lean keepaliver mini-model (interval with MissedTickBehavior::Delay, tokio::time::timeout around send_request) - validated differentially under tokio's paused clock",
        "RST and other OS-level socket errors are represented by the same reader/writer error path as FIN (`break_ frameHeaderParseError` / `writeError`)",
    ],
    assumptions=[],
    partial=[
        "promptness in real time, OS socket faults (RST), pool removal/refill and retry-elsewhere are observed only by the virtual-time end-to-end run or not at all; the theorem covers the state machine after the abstract break event",
    ],
    shrink=dict(head_words=2, sep=";"),
    chunk=2000,
)

"""Runner configuration of property C13 (loaded by tools/props.py; one file per property so that
concurrent edits never collide)."""
def _c13_out_kind(o):
    if o in ("true", "false", "HANG", "PANIC", "bad-case"):
        return o
    w = o.split(" ")
    if o.startswith("starts="):
        n = w[0].count(",") + 1
        res = w[2].split(":")[0].replace("res=", "")
        return "spec started=%d %s" % (n, res)
    if o.startswith("att="):
        n = 0 if w[0] == "att=-" else w[0].count(",") + 1
        res = w[1].split(":")[0].replace("res=", "")
        return "gate attempts=%s %s %s" % (n if n < 4 else "4+", res, w[3])
    return w[0]


PROPS["C13"] = dict(
    level_text="Theorems (Props/C13.lean) prove for EVERY schedule (any list of events timerFires / pop i / send i / attemptDone i / complete i outcome / deadline; impossible events are no-ops, ties between the timer and a completion are both orders) of the select!-loop state machine of speculative_execution::execute behind the idempotence gate and under the optional client-side timeout of run_request_no_side_effects, for every policy, plan and timeout: a non-idempotent request (or one without a policy) has exactly one execution and at most one running fiber at every point (nonidempotent_single_execution, unconditional) and therefore - given the named hypothesis Sequential (no fiber sends while its previous attempt is outstanding; not enforced by the machine, proved for every trace of the C06 retry loop Exec.exec under any interleaving: sequential_of_exec_fibers) - at most one attempt on the wire (nonidempotent_single_fiber, one_attempt_per_fiber); at most 1+max executions are started, never one after a fiber reported the plan exhausted (started_le, no_start_after_exhaustion); the shared plan hands every target out at most once, in plan order, so the attempts on the wire are on pairwise distinct targets (handed_is_plan_prefix, distinct_targets, outstanding_attempts_distinct); the user-visible call returns exactly one of: the first consumed result that is a success or definitive error | the last error (EmptyPlan if none) after every started execution finished and none may be started | RequestTimeout when the deadline takes effect before any real answer was consumed (result_spec, result_characterisation, first_real_answer_wins, otherwise_last_error, timeout_at_deadline, no_timeout_without_deadline, returns_when_exhausted); a not-yet-returned call always has a running fiber or an armed timer that will start one (never_waits_on_nothing - the all-branches-disabled state in which select! would panic and the useless-timer-only state are unreachable), every fair infinite schedule returns after at most 4+3*max select! branches (always_returns, branches_bounded) and with a timeout the call has returned once the deadline passed, without any fairness (deadline_forces_return); can_be_ignored is stated outright over the whole error universe (canBeIgnored_err_iff). The model is tied to the code by a differential run in virtual time (tokio paused clock): the real execute over scripted fibers (exhaustive delay x outcome grids incl. ties, 1-5 fibers, max 0..4) and the real run_request_no_side_effects (gate + request_timeout + SharedPlan + real fibers, scripted retry policy) over synthetic targets, with a model-independent oracle.",
    level_note="Trusted: Lean kernel + {propext, Classical.choice, Quot.sound}; hand-written model Model/Speculative.lean (tie = differential harness through the cfg(scylla_verif) pass-throughs speculative::execute / can_be_ignored / exec::run_request). Partial: futures::select!'s pseudo-random choice among ready branches (and the order timeout-vs-runner at the deadline instant) is the model's tie nondeterminism (the model driver explores every order of simultaneous wake-ups and acts as a checker there); tokio's timer and FuturesUnordered are trusted to deliver wake-ups in virtual-time order; the retry logic inside a fiber is C06 - C13 uses of it only that its attempts form a sequence (hypothesis Sequential, discharged against Model/Exec.lean); Session-level glue (how is_idempotent, the policy and the timeout reach RequestExecutionParams) and real sockets are not exercised (no mock-node end-to-end run).",
    lean_modules=["ScyllaVerif.Props.C13"],
    rule="case = one classification query (ign), one scripted schedule of synthetic executions through speculative_execution::execute (spec), or one scripted plan, optionally with a client-side request timeout, through run_request_no_side_effects (gate); every distinct case line counts (each returns a value, an error kind or HANG)",
    trivial=lambda c, o: o in ("bad-case",),
    out_kind=_c13_out_kind,
    trusted=[
        "Model/Speculative.lean transcribes speculative_execution.rs:108-155 (can_be_ignored), 165-218 (execute: retries_remaining, FuturesUnordered as the list `running`, the fused sleep as `sleepArmed`, last_error, the None branch, the return test), error.rs:451-488 (can_speculative_retry), execution.rs:71-86 (SharedPlan = one popped list), 486-501 (tokio::time::timeout around the runner = Event.deadline: runner dropped, RequestTimeout), 417-484 (the gate; the single-fiber arm `.await.unwrap_or(Err(EmptyPlan))` is the same machine with retries 0 and no timer), 519-644 (a fiber seen from outside)",
        "futures::select! polls the ready branches in pseudo-random order: at one virtual instant every order of the pending wake-ups (timer, fibers) is explored by Drive/C13.lean and the implementation's line must be one of the results (echo) - on tie-free schedules the comparison is exact (start time of every execution, consumption order, result, return time; for gate: every attempt (time, target), result, return time, max attempts in flight)",
        "tokio::time (paused clock, ms granularity) and FuturesUnordered deliver wake-ups in deadline order; Fuse<Sleep> reports terminated after firing until re-set; FuturesUnordered::is_terminated is reset by push (the empty-async_tasks-while-retries-remain path is exercised by the corpus and the grids)",
        "the harness's oracle uses its own hand-written ignorable/definitive table (from the property statement), independent of the Lean table; harness/src/c13.rs also carries a developer self-test (`mut<k>` cases, never generated) that runs a local copy of the loop with seeded bugs through the same oracle",
    ],
    assumptions=[
        "always_returns: fairness = while the call has not returned, some enabled select! branch is eventually taken (each started fiber eventually completes, the armed timer eventually fires); some_branch_enabled shows such a branch exists in every reachable state; retry_interval is finite (with a request_timeout no fairness is needed: deadline_forces_return)",
        "nonidempotent_single_fiber / in_flight_le / outstanding_attempts_distinct (the parts that count attempts on the wire): Sequential schedule = each fiber awaits its attempt before sending the next; proved for the C06 loop (exec_fiber_sequential, sequential_of_exec_fibers) and observed by the gate cases (max attempts in flight)",
        "distinct_targets / outstanding_attempts_distinct: the plan itself has no duplicates (C05)",
    ],
    partial=[
        "tie resolution of futures::select! is nondeterministic: checked by membership, not equality, on schedules with simultaneous events",
        "end-to-end (Session, pools, sockets, mock-node delays) not built: the gate is exercised through verif_hooks::exec::run_request (the real run_request_no_side_effects with synthetic targets)",
    ],
    shrink=dict(head_words=3, sep=" "),
    chunk=6000,
)

"""Runner configuration of property C01 (loaded by tools/props.py; one file per property so that
concurrent edits never collide)."""
PROPS["C01"] = dict(
    level_text="Theorems (Props/C01.lean) prove, for every CQL type (natives, list/set/map, tuple, UDT, fixed- and variable-width vector, arbitrarily nested), every value and every output buffer, that the placeholder/back-patch serializer (encImpl) appends exactly the bytes of the CQL v4 definition length++content (encSpec) and fails with the same error kind; that null/unset/empty cells are ff ff ff ff / ff ff ff fe / 00 00 00 00; that content above i32::MAX bytes is SizeOverflow; that zig-zag + vint round-trip for every i64 and every continuation; the round trip decVal(encSpec v) = pad v on the decidable domain wfVal, encode totality on that domain (only SizeOverflow/TooManyElements can fail), and carrier_factor: every typed carrier's own serializer (scalars, Option, MaybeUnset, MaybeEmpty, Vec, sets, maps, tuples, CqlValue, nested) equals the dynamic serializer of its embedding. The model is tied to serialize/value.rs, writers.rs, deserialize/value.rs, frame_slice.rs, frame/types.rs by a differential run (dynamic CqlValue over all types, ~80 typed Rust carriers incl. chrono/time/num-bigint/bigdecimal/secrecy, malformed decoder input) with an oracle that is independent of the model (own protocol encoder + decode(encode v) == pad v).",
    level_note="Trusted: Lean kernel + {propext, Classical.choice, Quot.sound}; hand-written models Model/Vint.lean, Model/Cql.lean, Model/Codec.lean (tie = differential harness on the public API of scylla-cql-core, no hook). UTF-8 validity is a parameter `u` of the decoder model (the driver uses Lean's ByteArray.validateUTF8). Three shapes on which the current tree violates the round trip are known findings C01-F1, C01-F2, C01-F9 (counterexample theorems + corpus witnesses); C01-F8 was repaired in /repo (808d80c) and is a regression case.",
    lean_modules=["ScyllaVerif.Props.C01"],
    rule="case = (kind dyn|carrier|carrierset|dec, CQL type, value or cell bytes); distinct case lines whose implementation output is not an error line count as non-trivial",
    trivial=lambda c, o: o.startswith("err ") or o == "bad-case",
    out_kind=lambda o: ("err-" + o.split(" ")[1]) if o.startswith("err ") else ("decode-" + o.split(" -> err ")[1] if " -> err " in o else ("roundtrip-ok" if " -> " in o else ("cell" if o[:1] in "0123456789abcdef" else o.split(" ")[0]))),
    chunk=2500,
    trusted=[
        "Model/Codec.lean transcribes serialize/value.rs:93-706,750-1150, serialize/writers.rs:103-218, deserialize/value.rs:67-248,296-800,923-1593,1748-2092, deserialize/frame_slice.rs:151-195, frame/types.rs:174-218; Model/Vint.lean transcribes frame/types.rs:255-305",
        "u64::leading_zeros modelled as 64 - bit length (Nat.log2); u8::leading_ones as a comparison chain proved equal to the bitwise count (leadingOnes8_spec)",
        "error values are compared as kinds (innermost kind of the Rust error chain)",
        "typed Rust carriers: Model/TypedCarrier.lean transcribes the typed SerializeValue impls (value.rs:93-621, 847-930) and carrier_factor reduces them to encImpl of the embedding; the harness rebuilds each Rust value from its embedding (harness/src/c01/carrier.rs) and compares bytes with the model and the typed decode with the original value",
        "chrono/time/num-bigint/bigdecimal/secrecy carriers are differential-only (harness/src/c01/external.rs): their conversions to the core carriers are not modelled; value ranges are restricted to what the external types can represent",
    ],
    assumptions=[
        "round trip domain wfVal: value has the shape of the type; text is UTF-8, ascii is ASCII; time in 0..=86399999999999; varint has at least one byte; tuple/UDT types have at least one field, vector dimension > 0 (no such CQL types exist otherwise); UDT type field names distinct and every value field named in the type",
        "cells above i32::MAX bytes are covered by theorems only (not by the differential run)",
    ],
    partial=[
        "roundtrip_partial / roundtrip_cell_partial: the full round-trip statement (every value with the shape of the type) is false of the current tree on three shapes, each with a proved counterexample theorem and a corpus witness replayed on the real code: C01-F1 zero-field tuple value for a non-empty tuple type (roundtrip_counterexample), C01-F2 null/unset element directly inside a vector (carrier_counterexample), C01-F9 `empty` element of a fixed-width vector (vector_empty_element_counterexample); wfVal excludes exactly these (and non-CQL degenerate types)",
        "carrier_factor covers serialization; the typed DeserializeValue impls are not modelled in Lean (typed decode == original value is checked by the harness oracle on every carrier case)",
        "cells above i32::MAX bytes: error branch proved (size_overflow_*, encode_total), not exercised by the differential run",
    ],
)

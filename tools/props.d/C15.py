"""Runner configuration of property C15 (loaded by tools/props.py; one file per property so that
concurrent edits never collide)."""
def _c15_out_kind(o):
    if o.startswith("ok "):
        return "payload ok" + (" (no replicas)" if o.endswith(":-") else "")
    if o.startswith(("err ", "absent")):
        return "payload " + o
    if o.startswith("P"):
        first = o.split(";", 1)[0]
        if "~" in first:
            return "cs/csa/csm: ClusterState::new with a failed keyspace fetch"
        if "~E" in o:
            return "cs/csa/csm: refresh with a failed keyspace fetch, no older version (dropped)"
        if "~e" in o:
            return "cs/csa/csm: refresh with a failed keyspace fetch, older version reused"
        return "cs/csa/csm: refresh history, every fetch ok"
    if o.startswith("learnrf "):
        ev = dict(w.split("=", 1) for w in o.split(" ")[1:] if "=" in w).get("events", "")
        names = dict(n="plain", d="dc-change", r="host-replaced", a="host-joined", v="view-dropped", V="view-re-created")
        return "e2e learnrf (refresh events: %s)" % "+".join(sorted(set(names.get(c, c) for c in ev)))
    if o.startswith("e2e-skip"):
        return o
    if o.startswith("learn "):
        f = dict(w.split("=", 1) for w in o.split(" ")[1:] if "=" in w)
        return "e2e learn (malformed payloads: %s; taught by the response after a re-prepare: %s)" % (
            "yes" if f.get("malformed", "0") != "0" else "no", "yes" if f.get("taught-after-reprepare", "0") != "0" else "no")
    if o and o[0].isdigit():
        return "exh digest"
    if "panic" in o:
        return "tab with panic (ill-formed insert)"
    return "tab" if ";" in o or o in ("n", "a") else o.split(" ", 1)[0]


PROPS["C15"] = dict(
    level_text="Theorems (Props/C15.lean), for every history of any length over unbounded tokens. TABLE level: the tablet list stays sorted with prev.last < next.first and first <= last (the standard library's binary search - modelled loop by loop - is therefore applied to a partitioned list: its precondition is a lemma); tablet_for_token answers exactly the latest insert covering the token, as later maintenance left it (replicas included), unless a later insert overlapped it or maintenance discarded it - then nothing (lookup_refines, lookup_answer_is_latest, lookupSpec_eq_survive); an insert removes exactly the overlapping tablets; per-datacenter replicas are the order-preserving filter of the full list; an accepted payload (a, b] becomes [a+1, b] with a < b, rejected iff b <= a, down to the bytes. TABLETSINFO level: every table of the map is the table-level run of its own valid sub-history (info_projection: the gate on removed / recreated / has_unknown_replicas, dropped tables, empty entries; FlagsHonest), so every table-level theorem holds for every table; tables AND materialized views of tablet keyspaces are kept (maintenanceKs_entry_iff). CLUSTERSTATE level (KState/KOp/krun: batches, refreshes with the raw per-keyspace fetch result, topology-only refreshes, the state's keyspaces threaded by the model): every replica any lookup serves after any refresh is a host of the new known_nodes and the Node object registered there (stateOk_refresh, refresh_lookups_current; hosts removed, added, replaced in one refresh, Node objects re-created, all four arms of calculate_new_topology); what a refresh does to one table is exactly the per-tablet maintenance of its old tablets (refresh_table_tablets); a keyspace whose fetch FAILED keeps its old version and its tablets, over all reachable states (krun_failed_fetch_keeps_tablets, krun_kss_nodup), without an old version it is dropped with its tablets (refresh_fetch_failed_no_old), a successful fetch keeps exactly the tables and views that still exist in a tablet keyspace (refresh_ok_fetch_keeps_exactly / _drops_others); one update_tablets call is its single learns in order (brun_eq_crun, batch_lookup_refines); datacenter restriction through the locator's tablet branch (locator_dc_restrict); what one response can teach and under which table (tabletFromResponse_some / _malformed / _nothing). The models are tied to tablets.rs, cluster/state.rs, locator/mod.rs and network/connection.rs by a differential run - exhaustive histories over a 6-token universe, long random histories over full i64, maintenance, TabletsInfo with views, payload bytes, refresh histories on the real ClusterState in three host-filter modes (cs / csa / csm) with two keyspaces, failed fetches, batches and the public reader get_token_endpoints compared with the locator on every scan (get_endpoints there only at the one token of the empty key, and not at all for views: compute_token reads `tables` only) - and by two end-to-end families on a real Session, each judged by a brute-force history shadow: e2e learn (three tables, malformed payloads, re-prepared statements; static topology) and e2e learnrf (two tables and a materialized view; tablets learnt, then Session::refresh_metadata() after a node changed datacenter / was replaced under a new host id / joined / the view was dropped or re-created, with more tablets learnt WHILE the refresh is in flight, replicas on not-yet-known and never-known hosts; after every refresh every probe token of every table, Node object identity against the published state, and get_endpoints of six keys against a reference Murmur3 token).",
    level_note="Trusted: Lean kernel + {propext, Classical.choice, Quot.sound}; hand-written models Model/Tablets.lean, Model/TabletsRefresh.lean (tie = differential harness through the cfg(scylla_verif) pass-throughs VerifTablets / raw_tablet_from_payload / cluster_state_general / cluster_state_filtered / cluster_refresh_topology[_accepting|_filtered] / ClusterState::verif_update_tablets / verif_tablet_tables; the connection's learning glue and the worker's tablets / metadata arms by two end-to-end families on a real Session (e2e learn, e2e learnrf)); Arc<Node> identity modelled by a generation counter; HashMaps as association lists (only looked up by key, dumps sorted).",
    lean_modules=["ScyllaVerif.Props.C15"],
    rule="case = one history (tab), one refresh history on a ClusterState (cs: rejecting host filter, csa: accepting, csm: per-peer verdicts), one end-to-end learning history on a real Session (e2e learn; e2e learnrf: with metadata refreshes), one payload cell (payload) or one exhaustive subtree (exh); distinct case lines whose implementation output contains at least one answered lookup / non-empty dump / accepted-or-rejected payload / visited history count as non-trivial",
    trivial=lambda c, o: o in ("-", "bad-case", "absent") or (c.startswith(("tab ", "cs ", "csa ", "csm ")) and ":" not in o and "." not in o),
    out_kind=_c15_out_kind,
    trusted=[
        "Model/Tablets.lean transcribes tablets.rs:66-122 (payload), 135-169, 252-334, 379-479, 533-548, 608-672 and core::slice::binary_search_by/partition_point of the toolchain's std (1.95: fixed-iteration base/size loop)",
        "Model/TabletsRefresh.lean transcribes cluster/state.rs:275-341 (calculate_new_topology: which Node objects are kept / re-created), 375-406 (perform_tablets_maintenance: removed and re-created hosts from old vs new known_nodes), 172-201 (new), 204-240 (new_updated), 242-270 (new_with_updated_topology), 647-675 (update_tablets: the loop over ONE batch in order, translator over known_nodes built once)",
        "calculate_new_topology (state.rs:291-331) is driven in all four arms: `cs` (filter rejects every peer, nodes not enabled), `csa` (filter accepts every peer, nodes enabled), `csm` (per-peer verdicts that change between refreshes: an enabled old node meets a rejecting filter - :304 - and a disabled one an accepting filter - :324); in C15's output a node made by inherit_with_ip_changed is indistinguishable from one made by Node::new (both are new objects: the tablets must point to them)",
        "Connection::update_tablets_from_response (network/connection.rs:1973-1996, callers 1092-1098 / 1136-1140) = Model/TabletsRefresh.lean tabletFromResponse (tabletFromResponse_some / _malformed / _nothing); tied by the `e2e learn` / `e2e learnrf` families only (a real Session on the mock cluster; learn: three tables, well-formed / malformed / absent payloads, an unprepared query; learnrf: two tables and a view, refreshes with topology and schema events) through a shadow oracle - e2e lines are echoed by the model driver",
        "resolve_metadata_keyspaces (state.rs:345-373) = Model/TabletsRefresh.lean resolveKeyspaces / refreshFetched (a failed fetch reuses the previous state's keyspace or drops it; refresh_fetch_ok / refresh_fetch_failed_old / refresh_fetch_failed_no_old), driven by the `!e` schema of the `P` ops through cluster_state_general",
        "materialized views: tablets.rs 627-628 (`tables.contains_key || views.contains_key`) and 639-641 (`.chain(ks.views.keys())`) are modelled as membership in / iteration over `tables ++ views` (KsMeta.entry, Info.maintenanceKs; maintenanceKs_entry_iff) and driven with tables and views apart at TabletsInfo level (info_maintenance_with_views) and through the real ClusterState (cluster_refresh_with_views)",
        "new_with_updated_topology (state.rs:242-270) = refresh with the keyspaces of the previous state (refreshTopology), driven by the `N` op through cluster_refresh_topology; the tablet branch of ReplicaLocator::replicas_for_token (locator/mod.rs:111-124) is Model/TabletsRefresh.lean locatorTabletReplicas (the vnode fallback for tables outside the tablet map is not this property: printed as `notable`)",
        "learnBatch keeps folding after a panicking add_tablet while the Rust loop is unwound: unreachable for non-empty ranges (learnBatch_no_panic, infoInv_brun); learn_batch_eq_foldl is an unfolding of the model's definition - that the Rust loop processes every item in order without skipping repeated keys is checked by the `B` cases of the differential run only",
        "Vec::drain(left..right) with left > right panics before mutating (only reachable with an ill-formed tablet first > last, which from_custom_payload never produces); the model's add returns `none` there and the driver prints `panic`",
    ],
    assumptions=[
        "every inserted tablet has first <= last (proved for everything from_custom_payload accepts: payload_bytes_valid); tokens are unbounded integers in the theorems (the code compares i64 only, the +1 overflow is excluded by payload_range)",
    ],
    partial=[
        "in the `csa` / `csm` histories a node is `enabled` because the hook imposes it (Node::verif_override_state, set to the filter's verdict), not because a connection pool is up: how is_enabled() follows the pool's life cycle is outside C15 (C10/C12)",
        "schema inputs are taken as given: which keyspaces a fetch returns (SchemaMetadataFetchMode, keyspaces_to_fetch), how `tablet_based` is derived from system_schema.scylla_keyspaces.initial_tablets and where a per-keyspace Err comes from (metadata/fetching.rs) are not modelled; consequence recorded as refresh_without_schema_drops_all: with schema fetching disabled every refresh empties the tablet map",
        "the cluster worker's two arms (cluster/worker.rs:295-322 tablets: recv_many / clone / update / publish; 392-475 metadata: load_full, new_updated, wait for pools, publish) have NO Lean model: that tablets learnt before and during a refresh survive it is checked by the `e2e learnrf` family only (a run, not a theorem; the window between load_full and publish is a few milliseconds of pool set-up on the mock cluster, so a change that loses tablets only inside that window is caught with a probability, not with certainty); a full tablet channel (capacity 8192; send().await vs try_send) is not driven",
        "table identity is the NAME: tablets.rs:617-629 keeps an entry when a table or view of that name exists in the new schema, so a table dropped and re-created (DROP + CREATE, or a keyspace dropped and re-created - the code's own note at 605-607) between two refreshes keeps the tablets of its predecessor until they are overwritten; refresh_ok_fetch_keeps_exactly says `still exists` BY NAME (KsMeta has no table id), which is weaker than the property text's `nothing rather than stale data` for this history",
        "fetch_schema_metadata(false) on a real Session and a per-keyspace fetch error on a real Session are not driven end to end (the ClusterState level drives both through cluster_state_general)",
        "get_table_spec (prepared.rs:412-417) takes the table of the FIRST bind marker: a prepared statement without bind markers never learns tablets (not driven)",
        "ReplicaSet::PlainSharded beyond iteration (len / choose_filtered / get / nth / size_hint / ReplicasOrdered, locator/mod.rs:345, 390 - what DefaultPolicy::pick uses, default.rs:805) is not exercised here: C15 reads the tablet branch through `into_iter` only; len / choose are declared and driven by C05's `tplan` cases",
    ],
    shrink=dict(head_words=1, sep=";"),
    chunk=1500,
)

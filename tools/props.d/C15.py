"""Runner configuration of property C15 (loaded by tools/props.py; one file per property so that
concurrent edits never collide)."""
def _c15_out_kind(o):
    if o.startswith("ok "):
        return "payload ok" + (" (no replicas)" if o.endswith(":-") else "")
    if o.startswith(("err ", "absent")):
        return "payload " + o
    if o.startswith("P"):
        return "cs / csa (refresh history)"
    if o and o[0].isdigit():
        return "exh digest"
    if "panic" in o:
        return "tab with panic (ill-formed insert)"
    return "tab" if ";" in o or o in ("n", "a") else o.split(" ", 1)[0]


PROPS["C15"] = dict(
    level_text="Theorems (Props/C15.lean) prove, for every history of inserts and maintenance steps of any length over unbounded tokens: the tablet list stays sorted with prev.last < next.first and first <= last (so the standard library's binary search - modelled loop by loop - is applied to a partitioned list: its precondition is a lemma, not an assumption); tablet_for_token answers exactly the latest insert covering the token unless a later insert overlapped it or maintenance discarded it (refinement to a history-based spec; never a stale answer); an insert removes exactly the overlapping tablets; per-datacenter replicas are the order-preserving filter of the full replica list; an accepted payload (a, b] becomes [a+1, b] with a < b and is rejected iff b <= a. The table-level theorems are lifted to the TabletsInfo level (every table of the map is the run of its own valid sub-history: gate on removed/recreated/has_unknown_replicas, dropped tables, empty entries) and to the ClusterState level: for every history of learnt tablets and metadata refreshes (old peers -> new peers with arbitrary overlap, hosts replaced in one refresh, Node objects re-created) every replica answered by any lookup is a host of the new known_nodes and the Node object registered there, and tablets untouched by the refresh are preserved; one update_tablets call with a whole batch is the sequence of its single learns in order (learn_batch_eq_foldl, brun_eq_crun: latest wins inside a batch). The models are tied to tablets.rs and cluster/state.rs by a differential run (exhaustive histories over a 6-token universe, long random histories over full i64, maintenance, TabletsInfo, refresh histories on the real ClusterState, payload bytes) with a brute-force history shadow as oracle.",
    level_note="Trusted: Lean kernel + {propext, Classical.choice, Quot.sound}; hand-written models Model/Tablets.lean, Model/TabletsRefresh.lean (tie = differential harness through the cfg(scylla_verif) pass-throughs VerifTablets / raw_tablet_from_payload / cluster_from_topology_with_tablets / cluster_refresh / ClusterState::verif_update_tablets); Arc<Node> identity modelled by a generation counter; HashMaps as association lists (only looked up by key, dumps sorted).",
    lean_modules=["ScyllaVerif.Props.C15"],
    rule="case = one history (tab), one refresh history on a ClusterState (cs: rejecting host filter, csa: accepting), one payload cell (payload) or one exhaustive subtree (exh); distinct case lines whose implementation output contains at least one answered lookup / non-empty dump / accepted-or-rejected payload / visited history count as non-trivial",
    trivial=lambda c, o: o in ("-", "bad-case", "absent") or (c.startswith(("tab ", "cs ", "csa ")) and ":" not in o and "." not in o),
    out_kind=_c15_out_kind,
    trusted=[
        "Model/Tablets.lean transcribes tablets.rs:66-122 (payload), 135-169, 252-324, 369-469, 523-538, 598-662 and core::slice::binary_search_by/partition_point of the toolchain's std (1.95: fixed-iteration base/size loop)",
        "Model/TabletsRefresh.lean transcribes cluster/state.rs:273-341 (calculate_new_topology: which Node objects are kept / re-created), 375-406 (perform_tablets_maintenance: removed and re-created hosts from old vs new known_nodes), 205-270 (new / new_updated / new_with_updated_topology), 647-675 (update_tablets: the loop over ONE batch in order, translator over known_nodes built once)",
        "calculate_new_topology is driven on both sides of its match: `cs` histories with a host filter rejecting every peer (pool-less nodes that read as not enabled: the `(false, _)` arms), `csa` histories with a filter accepting every peer and nodes enabled by the hook's state override (reuse / inherit_with_ip_changed / Node::new arms; the new pools never connect, nothing listens); a node's address is its position in the peer list",
        "resolve_metadata_keyspaces (state.rs:345-373) = Model/TabletsRefresh.lean resolveKeyspaces / refreshFetched (a failed fetch reuses the previous state's keyspace or drops it; refresh_fetch_ok / refresh_fetch_failed_old / refresh_fetch_failed_no_old), driven by the `!e` schema of the `P` ops through cluster_state_general",
        "materialized views: tablets.rs 609-613 (`tables.contains_key || views.contains_key`) and 623 (`.chain(ks.views.keys())`) are modelled as membership in / iteration over `tables ++ views` (KsMeta.entry, Info.maintenanceKs; maintenanceKs_entry_iff) and driven with tables and views apart at TabletsInfo level (info_maintenance_with_views) and through the real ClusterState (cluster_refresh_with_views)",
        "new_with_updated_topology (state.rs:242-270) = refresh with the keyspaces of the previous state (refreshTopology), driven by the `N` op through cluster_refresh_topology; the tablet branch of ReplicaLocator::replicas_for_token (locator/mod.rs:111-124) is Model/TabletsRefresh.lean locatorTabletReplicas (the vnode fallback for tables outside the tablet map is not this property: printed as `notable`)",
        "learnBatch keeps folding after a panicking add_tablet while the Rust loop is unwound: unreachable for non-empty ranges (learnBatch_no_panic, infoInv_brun); learn_batch_eq_foldl is an unfolding of the model's definition - that the Rust loop processes every item in order without skipping repeated keys is checked by the `B` cases of the differential run only",
        "Vec::drain(left..right) with left > right panics before mutating (only reachable with an ill-formed tablet first > last, which from_custom_payload never produces); the model's add returns `none` there and the driver prints `panic`",
    ],
    assumptions=[
        "every inserted tablet has first <= last (proved for everything from_custom_payload accepts: payload_bytes_valid); tokens are unbounded integers in the theorems (the code compares i64 only, the +1 overflow is excluded by payload_range)",
    ],
    partial=[
        "in the `csa` histories a node is `enabled` because the hook imposes it (Node::verif_override_state), not because a connection pool is up: how is_enabled() follows the pool's life cycle is outside C15 (C10/C12)",
    ],
    shrink=dict(head_words=1, sep=";"),
    chunk=1500,
)

#!/usr/bin/env python3
"""Developer tool: fold the builders' round-9 texts (work/design9_Cxx.md, kept under tools/briefs/design9/ once pasted)
into DESIGN.md section 6: a file that starts with `### Cxx` replaces the subsection, any other file is appended to the
subsection as a "Round 9 addendum"."""
import re, os, glob, shutil
p = "/verif/DESIGN.md"; s = open(p).read()
os.makedirs("/verif/tools/briefs/design9", exist_ok=True)
for f in sorted(glob.glob("/verif/work/design9_C*.md")):
    pid = re.search(r"design9_(C\d\d)", f).group(1)
    new = open(f).read().strip() + "\n\n"
    m = re.search(r"^### %s [^\n]*\n" % pid, s, re.M)
    if not m:
        print("no section for", pid); continue
    nxt = re.search(r"^(### C\d\d |## |-{20,})", s[m.end():], re.M)
    end = m.end() + nxt.start()
    if new.startswith("### " + pid):
        s = s[:m.start()] + new + s[end:]
        kind = "replaced"
    else:
        if "Round 9 addendum (%s)" % pid in s:
            a = s.index("**Round 9 addendum (%s)" % pid)
            s = s[:a] + s[end:]
            m = re.search(r"^### %s [^\n]*\n" % pid, s, re.M)
            nxt = re.search(r"^(### C\d\d |## |-{20,})", s[m.end():], re.M)
            end = m.end() + nxt.start()
        s = s[:end].rstrip("\n") + "\n\n**Round 9 addendum (%s).**\n\n" % pid + new + s[end:]
        kind = "appended"
    shutil.copy(f, "/verif/tools/briefs/design9/")
    print(kind, pid, len(new.splitlines()), "lines")
open(p, "w").write(s)

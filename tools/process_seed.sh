#!/bin/bash
# Developer tool: confirm a seeded change and run the named checks against it; prints a short summary.
# usage: tools/process_seed.sh <seed id> "<crates to unit-test>" <Cxx> [<Cyy> ...]
id=$1; crates=$2; shift 2
mkdir -p /tmp/seedlog
{
echo "##### $id confirm"
/verif/tools/confirm_seed.sh /tmp/mutout/$id $crates 2>&1 | grep -E "\[demo|^test result|PATCH|DEMO DIFF" | tail -6
echo "##### $id checks: $*"
/verif/tools/mutcheck.sh /tmp/mutout/$id/patch.diff "$@" 2>&1 | grep -E "^===|VIOLATION|theorems|oracle failures|PATCH" | cut -c1-300
} > /tmp/seedlog/$id.txt 2>&1
cat /tmp/seedlog/$id.txt

#!/bin/bash
# Developer tool (not a registered check): run checks against a MUTATED copy of /repo without touching
# /repo or /verif.  A git worktree of /repo's HEAD gets the patch; a copy of /verif (with its build
# caches) is made; both are bind-mounted over /repo and /verif inside a private mount namespace, so
# every absolute path the machinery uses resolves to the scratch copies.
#
#   tools/mutcheck.sh <patch.diff> <Cxx> [<Cyy> ...]      (env TIER=quick|thorough, KEEP=1 keeps scratch)
set -u
PATCH=$(readlink -f "$1"); shift
S=$(mktemp -d /tmp/mut.XXXXXX)
git -C /repo worktree add -q --detach "$S/repo" HEAD || exit 2
if ! git -C "$S/repo" apply "$PATCH"; then echo "PATCH DOES NOT APPLY"; git -C /repo worktree remove --force "$S/repo"; rm -rf "$S"; exit 2; fi
mkdir -p "$S/verif"
mkdir -p /verif/work
# VERIF_SRC (default: /tmp/verif_snap if it exists, else /verif): a quiescent snapshot of /verif to check against, so
# that builders may keep editing /verif while seeds are being checked
SRC=${VERIF_SRC:-$([ -d /tmp/verif_snap ] && echo /tmp/verif_snap || echo /verif)}
if [ "$SRC" = /verif ]; then
  flock /verif/work/cargo.lock flock /verif/work/lake.lock rsync -a --exclude .git --exclude work --exclude replays --exclude incremental /verif/ "$S/verif/"
else
  rsync -a --exclude .git --exclude work --exclude replays --exclude incremental "$SRC/" "$S/verif/"
fi
TIER=${TIER:-quick}
rc=0
for P in "$@"; do
  unshare -m bash -c "mount --bind $S/repo /repo && mount --bind $S/verif /verif && cd /verif && ./check $P --tier $TIER" > "$S/out_$P.txt" 2>&1
  r=$?
  echo "=== $P exit=$r"; grep -E "VIOLATION|KNOWN-FINDING|BROKEN|oracle failures|disagreement|theorems" "$S/out_$P.txt" | cut -c1-400
  for f in "$S"/verif/replays/$P-*.case; do [ -f "$f" ] && { echo "--- replay $(basename $f)"; head -c 1200 "$f"; echo; }; done
  [ $r -ne 0 ] && rc=1
done
if [ -z "${KEEP:-}" ]; then git -C /repo worktree remove --force "$S/repo"; rm -rf "$S"; else echo "scratch kept at $S"; fi
exit $rc

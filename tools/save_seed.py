#!/usr/bin/env python3
"""Developer tool: file a confirmed seeded change under /verif/seeded/<id>/ (patch.diff, demo, meta.json)."""
import json, os, shutil, sys
src, sid, prop, caught, note = sys.argv[1:6]
dst = os.path.join("/verif/seeded", sid)
os.makedirs(dst, exist_ok=True)
for f in ("patch.diff", "demo.diff"):
    if os.path.exists(os.path.join(src, f)):
        shutil.copy(os.path.join(src, f), dst)
if os.path.isdir(os.path.join(src, "demo")):
    shutil.copytree(os.path.join(src, "demo"), os.path.join(dst, "demo"), dirs_exist_ok=True)
m = json.load(open(os.path.join(src, "meta.json")))
meta = {
    "id": sid,
    "property": prop,
    "breaks": m.get("what_it_breaks"),
    "needs_to_manifest": m.get("needs_to_manifest"),
    "files_changed": m.get("files_changed"),
    "demonstration": {"cmd": m.get("demo_cmd"), "with_change": m.get("with_change"), "without_change": m.get("without_change")},
    "author": "independent sub-agent given only the property text and a scratch worktree of /repo",
    "confirmed_by_me": "tools/confirm_seed.sh in a fresh scratch worktree: demo passes at HEAD, fails with patch.diff; unit tests of the touched crates unchanged with the patch (the 16 cluster-dependent scylla lib tests fail identically at HEAD)",
    "what_i_ran": "tools/mutcheck.sh seeded/%s/patch.diff %s  (checks run against a mutated copy of /repo in a private mount namespace; /repo untouched)" % (sid, prop),
    "detection": caught,
    "note": note,
}
json.dump(meta, open(os.path.join(dst, "meta.json"), "w"), indent=1)
print("saved", dst)

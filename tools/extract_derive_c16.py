#!/usr/bin/env python3
"""Translator for C16: regenerates lean/ScyllaVerif/Generated/DeriveC16.lean from the derive-macro SOURCES in /repo.

A SURFACE extraction (regex + brace matching, no Rust parser), re-run on every `./check C16`, from
scylla-macros/src/{serialize,deserialize}/{value,row}.rs and scylla-cql-core/src/_macro_internal.rs:
  * the attribute names each derive accepts (darling structs: struct-level and field-level),
  * `Field::is_required` of each derive, translated token by token into a Lean Bool function,
  * per code generator: the error variants / panicking macros it plants (`*Emits`); the same emissions each with the
    enclosing conditions that mention an attribute flag (`*Guarded`); all such conditions of the block (`*Guards`) -
    all three in source order.
What `Props/C16.lean` proves against it:
  * set-level: every error an interpreter can return is a variant of its generator's `*Emits` and vice versa, the
    attribute matrix, `Field.required` = the translated `is_required` function (`errors_in_source`,
    `source_emissions_modelled`, `source_attr*`, `source_required_rules`);
  * PINS: `source_shape_pinned` states the `*Guarded` / `*Guards` lists literally (order and multiplicity included):
    adding, dropping, renaming, REORDERING an emission, or changing a flag condition WRITTEN AS `if` / `.then(` FOLLOWED
    BY `{`, breaks it.  `source_lines_pinned` (Props/C16Pin.lean) states the `*Lines` lists literally: every source line
    that mentions an attribute flag (also let-bound locals, match-arm guards, closure filters, quote! interpolations),
    a counter of the generated code or the derivation of a column name; any edit of such a line breaks it.  Both pins
    are blunt: they force the interpreter to be re-read against the source, they prove nothing about behaviour;
  * `source_names_unraw` / `source_default_flavor`: all four derives `unraw()` the identifier, `#[default]` is by name;
  * for 6 flag-guarded emissions and the `default_when_null` conditions, the model-side counterpart
    (`guards_govern_model`): string membership in the pinned list plus a theorem for all inputs.
What it does NOT see: conditions that mention no attribute flag, the data flow between the emissions, anything inside
`<T as SerializeValue>` etc.  That the interpreter computes what the generated code computes is established by the
differential run, not by this file.  Fails closed (ExtractError) when a pattern is not found.
"""

import os
import re
import sys

sys.path.insert(0, os.path.dirname(os.path.abspath(__file__)))
from extract_tables import ExtractError, block_after, read, strip_comments, write_if_changed  # noqa: E402

VERIF = os.path.dirname(os.path.dirname(os.path.abspath(__file__)))
OUT = os.path.join(VERIF, "lean", "ScyllaVerif", "Generated", "DeriveC16.lean")

SV = "scylla-macros/src/serialize/value.rs"
SR = "scylla-macros/src/serialize/row.rs"
DV = "scylla-macros/src/deserialize/value.rs"
DR = "scylla-macros/src/deserialize/row.rs"
MI = "scylla-cql-core/src/_macro_internal.rs"
LIB = "scylla-macros/src/lib.rs"

KIND_ENUMS = [
    "UdtTypeCheckErrorKind", "UdtSerializationErrorKind",
    "BuiltinRowTypeCheckErrorKind", "BuiltinRowSerializationErrorKind",
    "DeserUdtTypeCheckErrorKind", "UdtDeserializationErrorKind",
    "DeserBuiltinRowTypeCheckErrorKind", "BuiltinRowDeserializationErrorKind",
    # names used inside _macro_internal.rs (module-local imports of the same enums)
    "BuiltinTypeCheckErrorKind", "BuiltinSerializationErrorKind",
]
PANIC_RE = r"(?:panic!|unreachable!|assert!|\.expect\()"


def darling_attrs(rel, struct_name):
    """Attribute names of a `#[darling(attributes(scylla))] struct <name> { … }` (rename applied; the FromField magic
    fields `ident` / `ty` are not attributes)."""
    src = strip_comments(read(rel))
    body = block_after(src, r"#\[darling\(attributes\(scylla\)\)\]\s*struct\s+%s\b" % re.escape(struct_name), rel)
    names = []
    # split into fields at top-level commas
    depth, cur, fields = 0, "", []
    for ch in body:
        if ch in "([{<":
            depth += 1
        elif ch in ")]}>":
            depth -= 1
        if ch == "," and depth == 0:
            fields.append(cur)
            cur = ""
        else:
            cur += ch
    if cur.strip():
        fields.append(cur)
    for f in fields:
        m = re.search(r"(\w+)\s*:\s*[^:]", re.sub(r"#\[[^\]]*\]", "", f))
        if not m:
            raise ExtractError("%s: cannot parse field `%s` of %s" % (rel, f.strip()[:60], struct_name))
        ident = m.group(1)
        if ident in ("ident", "ty"):
            continue
        r = re.search(r'#\[darling\(rename\s*=\s*"([^"]+)"\)\]', f)
        names.append(r.group(1) if r else ident)
    if not names:
        raise ExtractError("%s: no attributes found in %s" % (rel, struct_name))
    return names


def emissions(rel, header_re):
    """Error variants (`…ErrorKind::Variant`) and panicking macros (`PANIC`) inside the block, in source order."""
    src = strip_comments(read(rel))
    body = block_after(src, header_re, rel)
    pat = re.compile(r"\b(%s)::(\w+)|(%s)" % ("|".join(KIND_ENUMS), PANIC_RE))
    out = []
    for m in pat.finditer(body):
        out.append("PANIC" if m.group(3) else m.group(2))
    return out


FLAG_WORDS = [
    "forbid_excess_udt_fields", "skip_name_checks", "default_when_null", "default_when_missing", "ignore_missing",
    "field_can_be_ignored", "is_required", "flatten", "ENFORCE_NAME", "enforce_name", ".skip", "is_empty",
]


def _norm(t):
    return re.sub(r"\s+", " ", t).strip()


def guarded(rel, header_re):
    """(emissions, guards): every error variant / panicking macro of the block in source order, each with the stack
    of the enclosing conditions that mention an attribute flag (`if:<cond>`, `else-of:<cond>`, `then:<expr>`,
    `arm:<pattern guard>`), and the list of all such conditions of the block in source order.  Conditions are the
    macro's generation-time `if`s (which flag selects which generated code) and the flag-dependent run-time `if`s
    inside `quote!`; conditions that mention no attribute flag are dropped."""
    src = strip_comments(read(rel))
    body = block_after(src, header_re, rel)
    pat = re.compile(r"\b(%s)::(\w+)|(%s)" % ("|".join(KIND_ENUMS), PANIC_RE))
    ems = {m.start(): ("PANIC" if m.group(3) else m.group(2)) for m in pat.finditer(body)}
    stack = []        # guards (or None) of the open `{`
    last_closed = {}  # depth -> guard text of the block closed last at that depth
    seg_start = 0     # start of the text that may be the header of the next `{`
    out_em, out_guards = [], []

    def flagged(t):
        return any(w in t for w in FLAG_WORDS)

    i = 0
    n = len(body)
    while i < n:
        ch = body[i]
        if i in ems:
            gs = [g for g in stack if g]
            out_em.append("|".join([ems[i]] + gs))
        if ch == "{":
            h = _norm(body[seg_start:i])
            depth = len(stack)
            g = None
            m = re.search(r"(?:^|[^\w])(else\s+)?if\s+(.*)$", h)
            if re.fullmatch(r"else", h) or h.endswith(" else") and not m:
                prev = last_closed.get(depth)
                g = ("else-of:" + prev.split(":", 1)[1]) if prev else None
            elif m and flagged(m.group(2)):
                g = "if:" + m.group(2).strip()
            elif ".then(" in h and flagged(h):
                g = "then:" + _norm(h[:h.rindex(".then(")].split("=")[-1])
            elif "=>" in h and flagged(h.split("=>")[0]):
                g = "arm:" + _norm(h.split("=>")[0])
            if g:
                out_guards.append(g)
            stack.append(g)
            seg_start = i + 1
        elif ch == "}":
            if stack:
                g = stack.pop()
                last_closed[len(stack)] = g
            seg_start = i + 1
        elif ch == ";":
            seg_start = i + 1
        i += 1
    return out_em, out_guards


REQ_TOKENS = {
    "self.attrs.skip": "skip", "self.skip": "skip",
    "self.attrs.ignore_missing": "allowMissing", "self.default_when_missing": "allowMissing",
}


def required_expr(rel):
    """`fn is_required(&self) -> bool { <expr> }` translated token by token into a Lean Bool expression over
    `skip` and `allowMissing` (only `!`, `&&`, `||`, parentheses and the attribute flags are accepted)."""
    src = strip_comments(read(rel))
    body = re.sub(r"\s+", "", block_after(src, r"fn\s+is_required\s*\(\s*&self\s*\)\s*->\s*bool", rel))
    out, i = [], 0
    while i < len(body):
        for tok, lean in sorted(REQ_TOKENS.items(), key=lambda kv: -len(kv[0])):
            if body.startswith(tok, i):
                out.append(lean)
                i += len(tok)
                break
        else:
            for op in ("&&", "||", "!", "(", ")"):
                if body.startswith(op, i):
                    out.append(op)
                    i += len(op)
                    break
            else:
                raise ExtractError("%s: cannot translate is_required expression `%s`" % (rel, body))
    return " ".join(out).replace("! ", "!")


# every source line that mentions one of these words is pinned literally (`*Lines`): attribute flags wherever they
# flow (let-bound locals, match-arm guards, closure filters, quote! interpolations) and everything that decides a
# column name
WATCH_WORDS = FLAG_WORDS + [
    "allow_missing", "cql_name_literal", "column_name", "field_name", "udt_field_name", "unraw", "rename", "flavor",
    "Flavor", "remaining_count", "remaining_required", "skipped_fields", "saved_cql_field",
]


def watched_lines(rel):
    src = strip_comments(read(rel))
    out = []
    for line in src.split("\n"):
        t = _norm(line)
        if t and any(w in t for w in WATCH_WORDS):
            out.append(t.replace("\\", "\\\\").replace('"', '\\"'))
    if not out:
        raise ExtractError("%s: no watched line found" % rel)
    return out


def name_expr(rel, fn_name):
    """Body of the function that derives the database name of a field from `rename` / the Rust identifier."""
    src = strip_comments(read(rel))
    body = _norm(block_after(src, r"fn\s+%s\s*\(\s*&self\s*\)\s*->\s*String" % fn_name, rel))
    if "rename" not in body:
        raise ExtractError("%s: `%s` does not look at `rename`" % (rel, fn_name))
    return body


def default_flavor():
    src = strip_comments(read(LIB))
    body = block_after(src, r"enum\s+Flavor\b", LIB)
    m = re.search(r"#\[default\]\s*(\w+)", body)
    if not m:
        raise ExtractError("%s: no #[default] variant in enum Flavor" % LIB)
    names = re.findall(r'"(\w+)"\s*=>\s*Ok\(Self::(\w+)\)', src)
    if not names:
        raise ExtractError("%s: flavor names not found" % LIB)
    return m.group(1), names


def flavor_defaulted(rel, struct_name):
    src = strip_comments(read(rel))
    body = block_after(src, r"#\[darling\(attributes\(scylla\)\)\]\s*struct\s+%s\b" % re.escape(struct_name), rel)
    return re.search(r"#\[darling\(default\)\]\s*flavor\s*:\s*Flavor", body) is not None


def strs(xs):
    return "[" + ", ".join('"%s"' % x for x in xs) + "]"


def render():
    defs = []

    def d(name, typ, val, comment):
        defs.append("/-- %s -/\ndef %s : %s := %s\n" % (comment, name, typ, val))

    # attributes
    d("svStructAttrs", "List String", strs(darling_attrs(SV, "Attributes")), "`#[derive(SerializeValue)]` struct attributes (%s)" % SV)
    d("svFieldAttrs", "List String", strs(darling_attrs(SV, "FieldAttributes")), "`#[derive(SerializeValue)]` field attributes")
    d("srStructAttrs", "List String", strs(darling_attrs(SR, "Attributes")), "`#[derive(SerializeRow)]` struct attributes (%s)" % SR)
    d("srFieldAttrs", "List String", strs(darling_attrs(SR, "FieldAttributes")), "`#[derive(SerializeRow)]` field attributes")
    d("dvStructAttrs", "List String", strs(darling_attrs(DV, "StructAttrs")), "`#[derive(DeserializeValue)]` struct attributes (%s)" % DV)
    d("dvFieldAttrs", "List String", strs(darling_attrs(DV, "Field")), "`#[derive(DeserializeValue)]` field attributes")
    d("drStructAttrs", "List String", strs(darling_attrs(DR, "StructAttrs")), "`#[derive(DeserializeRow)]` struct attributes (%s)" % DR)
    d("drFieldAttrs", "List String", strs(darling_attrs(DR, "Field")), "`#[derive(DeserializeRow)]` field attributes")
    # emissions per generator
    gens = [
        ("svByNameEmits", SV, r"impl\s+Generator\s+for\s+FieldSortingGenerator\b", "FieldSortingGenerator"),
        ("svOrderedEmits", SV, r"impl\s+Generator\s+for\s+FieldOrderedGenerator\b", "FieldOrderedGenerator"),
        ("srByNameEmits", SR, r"impl\s+Generator\s+for\s+ColumnSortingGenerator\b", "ColumnSortingGenerator"),
        ("srOrderedEmits", SR, r"impl\s+Generator\s+for\s+ColumnOrderedGenerator\b", "ColumnOrderedGenerator"),
        ("srByNameRuntimeEmits", MI, r"impl<T:\s*SerializeRowByName>\s*ByName\b", "ByName::serialize"),
        ("srSerializeColumnEmits", MI, r"pub\s+fn\s+serialize_column\b", "serialize_column"),
        ("srOrderedRuntimeEmits", MI, r"impl\s+NextColumnSerializer\b", "NextColumnSerializer"),
        ("dvExtractFieldsEmits", DV, r"fn\s+generate_extract_fields_from_type\b", "generate_extract_fields_from_type"),
        ("dvTcOrderedEmits", DV, r"impl\s+TypeCheckAssumeOrderGenerator\b", "TypeCheckAssumeOrderGenerator"),
        ("dvDeOrderedEmits", DV, r"impl\s+DeserializeAssumeOrderGenerator\b", "DeserializeAssumeOrderGenerator"),
        ("dvTcByNameEmits", DV, r"impl\s+TypeCheckUnorderedGenerator\b", "TypeCheckUnorderedGenerator"),
        ("dvDeByNameEmits", DV, r"impl\s+DeserializeUnorderedGenerator\b", "DeserializeUnorderedGenerator"),
        ("drTcOrderedEmits", DR, r"impl\s+TypeCheckAssumeOrderGenerator\b", "TypeCheckAssumeOrderGenerator"),
        ("drDeOrderedEmits", DR, r"impl\s+DeserializeAssumeOrderGenerator\b", "DeserializeAssumeOrderGenerator"),
        ("drTcByNameEmits", DR, r"impl\s+TypeCheckUnorderedGenerator\b", "TypeCheckUnorderedGenerator"),
        ("drDeByNameEmits", DR, r"impl\s+DeserializeUnorderedGenerator\b", "DeserializeUnorderedGenerator"),
    ]
    for name, rel, hdr, what in gens:
        d(name, "List String", strs(emissions(rel, hdr)),
          "error variants / panicking macros planted by `%s` (%s), in source order" % (what, rel))
    for name, rel, hdr, what in gens:
        ems, guards = guarded(rel, hdr)
        d(name.replace("Emits", "Guarded"), "List String", strs(ems),
          "the same emissions, each with the enclosing conditions that mention an attribute flag")
        d(name.replace("Emits", "Guards"), "List String", strs(guards),
          "all conditions of `%s` that mention an attribute flag, in source order" % what)
    for nm, rel in (("svRequired", SV), ("dvRequired", DV), ("drRequired", DR)):
        defs.append("/-- `Field::is_required` of %s, translated token by token -/\ndef %s (skip allowMissing : Bool) : Bool := %s\n"
                    % (rel, nm, required_expr(rel)))
    # how a field is named (raw identifiers) and the default flavor
    for nm, rel, fn in (("svNameExpr", SV, "field_name"), ("srNameExpr", SR, "column_name"),
                        ("dvNameExpr", DV, "udt_field_name"), ("drNameExpr", DR, "column_name")):
        e = name_expr(rel, fn)
        d(nm, "String", '"%s"' % e.replace('"', '\\"'), "`fn %s` of %s: database name of a field" % (fn, rel))
        d(nm.replace("Expr", "Unraw"), "Bool", "true" if ".unraw()" in e else "false",
          "the Rust identifier is `unraw()`ed there (`r#type` names the column `type`)")
    dflt, names = default_flavor()
    d("defaultFlavor", "String", '"%s"' % dflt, "`#[default]` variant of `enum Flavor` (%s)" % LIB)
    d("flavorNames", "List (String × String)", "[" + ", ".join('("%s", "%s")' % p for p in names) + "]",
      "`flavor = \"…\"` strings and the variants they select")
    d("flavorAttrDefaulted", "List Bool", "[" + ", ".join("true" if flavor_defaulted(r, n) else "false" for r, n in
      ((SV, "Attributes"), (SR, "Attributes"), (DV, "StructAttrs"), (DR, "StructAttrs"))) + "]",
      "`#[darling(default)] flavor: Flavor` in the four struct-attribute structs (sv, sr, dv, dr)")
    for nm, rel in (("svLines", SV), ("srLines", SR), ("dvLines", DV), ("drLines", DR), ("miLines", MI)):
        d(nm, "List String", "[\n  " + ",\n  ".join('"%s"' % x for x in watched_lines(rel)) + "]",
          "every line of %s that mentions an attribute flag, a counter of the generated code or the derivation of a column name" % rel)
    head = [
        "/-",
        "GENERATED by tools/extract_derive_c16.py from the derive-macro sources in /repo - DO NOT EDIT.",
        "A surface extraction (attribute names, is_required, error emissions and the attribute-flag conditions around them,",
        "in source order; name functions, default flavor, every line mentioning a flag / counter / name derivation), rewritten",
        "on every `./check C16`.  `Props/C16.lean` proves set-level facts against `*Emits`, pins `*Guarded` / `*Guards`",
        "(brace-headed `if` / `.then(` conditions only) and - in Props/C16Pin.lean - the `*Lines` literally, and proves the",
        "model-side counterpart of 6 flag-guarded emissions.  The pins demand a re-read of the interpreter when a pinned line",
        "changes; they see no data flow and prove nothing about behaviour - the behavioural tie is the differential run.",
        "-/",
        "namespace ScyllaVerif.Generated.DeriveC16",
        "",
    ]
    return "\n".join(head) + "\n".join(defs) + "\nend ScyllaVerif.Generated.DeriveC16\n"


def main():
    write_if_changed(OUT, render())
    return 0


if __name__ == "__main__":
    try:
        sys.exit(main())
    except ExtractError as e:
        print("extract_derive_c16: " + str(e), file=sys.stderr)
        sys.exit(1)

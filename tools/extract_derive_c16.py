#!/usr/bin/env python3
"""Translator for C16: regenerates lean/ScyllaVerif/Generated/DeriveC16.lean from the derive-macro SOURCES in /repo.

Extracted, on every check run, from scylla-macros/src/{serialize,deserialize}/{value,row}.rs and
scylla-cql-core/src/_macro_internal.rs:
  * the attribute names each derive accepts (darling structs: struct-level and field-level),
  * the `is_required` rule of each derive, mapped to a small enum (unknown expression => extraction error),
  * per code generator, the error variants it can emit and the panicking macros it plants, IN SOURCE ORDER
    (the fingerprint of the shape the interpreter Model/Derive.lean was transcribed from).
`Props/C16.lean` proves the interpreter against these definitions (which attributes exist for which derive, which
error kinds each interpreter can return, which generators may panic), so an edit of the macros that adds, drops or
reorders an error emission / attribute breaks a proof obligation.  Regex-based, fails closed (ExtractError).
"""
import os
import re
import sys

sys.path.insert(0, os.path.dirname(os.path.abspath(__file__)))
from extract_tables import ExtractError, block_after, read, strip_comments, write_if_changed  # noqa: E402

VERIF = os.path.dirname(os.path.dirname(os.path.abspath(__file__)))
OUT = os.path.join(VERIF, "lean", "ScyllaVerif", "Generated", "DeriveC16.lean")

SV = "scylla-macros/src/serialize/value.rs"
SR = "scylla-macros/src/serialize/row.rs"
DV = "scylla-macros/src/deserialize/value.rs"
DR = "scylla-macros/src/deserialize/row.rs"
MI = "scylla-cql-core/src/_macro_internal.rs"

KIND_ENUMS = [
    "UdtTypeCheckErrorKind", "UdtSerializationErrorKind",
    "BuiltinRowTypeCheckErrorKind", "BuiltinRowSerializationErrorKind",
    "DeserUdtTypeCheckErrorKind", "UdtDeserializationErrorKind",
    "DeserBuiltinRowTypeCheckErrorKind", "BuiltinRowDeserializationErrorKind",
    # names used inside _macro_internal.rs (module-local imports of the same enums)
    "BuiltinTypeCheckErrorKind", "BuiltinSerializationErrorKind",
]
PANIC_RE = r"(?:panic!|unreachable!|assert!|\.expect\()"


def darling_attrs(rel, struct_name):
    """Attribute names of a `#[darling(attributes(scylla))] struct <name> { … }` (rename applied; the FromField magic
    fields `ident` / `ty` are not attributes)."""
    src = strip_comments(read(rel))
    body = block_after(src, r"#\[darling\(attributes\(scylla\)\)\]\s*struct\s+%s\b" % re.escape(struct_name), rel)
    names = []
    # split into fields at top-level commas
    depth, cur, fields = 0, "", []
    for ch in body:
        if ch in "([{<":
            depth += 1
        elif ch in ")]}>":
            depth -= 1
        if ch == "," and depth == 0:
            fields.append(cur)
            cur = ""
        else:
            cur += ch
    if cur.strip():
        fields.append(cur)
    for f in fields:
        m = re.search(r"(\w+)\s*:\s*[^:]", re.sub(r"#\[[^\]]*\]", "", f))
        if not m:
            raise ExtractError("%s: cannot parse field `%s` of %s" % (rel, f.strip()[:60], struct_name))
        ident = m.group(1)
        if ident in ("ident", "ty"):
            continue
        r = re.search(r'#\[darling\(rename\s*=\s*"([^"]+)"\)\]', f)
        names.append(r.group(1) if r else ident)
    if not names:
        raise ExtractError("%s: no attributes found in %s" % (rel, struct_name))
    return names


def emissions(rel, header_re):
    """Error variants (`…ErrorKind::Variant`) and panicking macros (`PANIC`) inside the block, in source order."""
    src = strip_comments(read(rel))
    body = block_after(src, header_re, rel)
    pat = re.compile(r"\b(%s)::(\w+)|(%s)" % ("|".join(KIND_ENUMS), PANIC_RE))
    out = []
    for m in pat.finditer(body):
        out.append("PANIC" if m.group(3) else m.group(2))
    return out


REQUIRED_RULES = {
    "!self.attrs.skip&&!self.attrs.ignore_missing": "notSkipNotAllowMissing",
    "!self.skip&&!self.default_when_missing": "notSkipNotAllowMissing",
    "!self.skip": "notSkip",
}


def required_rule(rel):
    src = strip_comments(read(rel))
    body = block_after(src, r"fn\s+is_required\s*\(\s*&self\s*\)\s*->\s*bool", rel)
    key = re.sub(r"\s+", "", body)
    if key not in REQUIRED_RULES:
        raise ExtractError("%s: unknown is_required rule `%s`" % (rel, body.strip()))
    return REQUIRED_RULES[key]


def strs(xs):
    return "[" + ", ".join('"%s"' % x for x in xs) + "]"


def render():
    defs = []

    def d(name, typ, val, comment):
        defs.append("/-- %s -/\ndef %s : %s := %s\n" % (comment, name, typ, val))

    # attributes
    d("svStructAttrs", "List String", strs(darling_attrs(SV, "Attributes")), "`#[derive(SerializeValue)]` struct attributes (%s)" % SV)
    d("svFieldAttrs", "List String", strs(darling_attrs(SV, "FieldAttributes")), "`#[derive(SerializeValue)]` field attributes")
    d("srStructAttrs", "List String", strs(darling_attrs(SR, "Attributes")), "`#[derive(SerializeRow)]` struct attributes (%s)" % SR)
    d("srFieldAttrs", "List String", strs(darling_attrs(SR, "FieldAttributes")), "`#[derive(SerializeRow)]` field attributes")
    d("dvStructAttrs", "List String", strs(darling_attrs(DV, "StructAttrs")), "`#[derive(DeserializeValue)]` struct attributes (%s)" % DV)
    d("dvFieldAttrs", "List String", strs(darling_attrs(DV, "Field")), "`#[derive(DeserializeValue)]` field attributes")
    d("drStructAttrs", "List String", strs(darling_attrs(DR, "StructAttrs")), "`#[derive(DeserializeRow)]` struct attributes (%s)" % DR)
    d("drFieldAttrs", "List String", strs(darling_attrs(DR, "Field")), "`#[derive(DeserializeRow)]` field attributes")
    # is_required
    d("svRequiredRule", "String", '"%s"' % required_rule(SV), "`Field::is_required` of serialize/value.rs")
    d("dvRequiredRule", "String", '"%s"' % required_rule(DV), "`Field::is_required` of deserialize/value.rs")
    d("drRequiredRule", "String", '"%s"' % required_rule(DR), "`Field::is_required` of deserialize/row.rs")
    # emissions per generator
    gens = [
        ("svByNameEmits", SV, r"impl\s+Generator\s+for\s+FieldSortingGenerator\b", "FieldSortingGenerator"),
        ("svOrderedEmits", SV, r"impl\s+Generator\s+for\s+FieldOrderedGenerator\b", "FieldOrderedGenerator"),
        ("srByNameEmits", SR, r"impl\s+Generator\s+for\s+ColumnSortingGenerator\b", "ColumnSortingGenerator"),
        ("srOrderedEmits", SR, r"impl\s+Generator\s+for\s+ColumnOrderedGenerator\b", "ColumnOrderedGenerator"),
        ("srByNameRuntimeEmits", MI, r"impl<T:\s*SerializeRowByName>\s*ByName\b", "ByName::serialize"),
        ("srSerializeColumnEmits", MI, r"pub\s+fn\s+serialize_column\b", "serialize_column"),
        ("srOrderedRuntimeEmits", MI, r"impl\s+NextColumnSerializer\b", "NextColumnSerializer"),
        ("dvExtractFieldsEmits", DV, r"fn\s+generate_extract_fields_from_type\b", "generate_extract_fields_from_type"),
        ("dvTcOrderedEmits", DV, r"impl\s+TypeCheckAssumeOrderGenerator\b", "TypeCheckAssumeOrderGenerator"),
        ("dvDeOrderedEmits", DV, r"impl\s+DeserializeAssumeOrderGenerator\b", "DeserializeAssumeOrderGenerator"),
        ("dvTcByNameEmits", DV, r"impl\s+TypeCheckUnorderedGenerator\b", "TypeCheckUnorderedGenerator"),
        ("dvDeByNameEmits", DV, r"impl\s+DeserializeUnorderedGenerator\b", "DeserializeUnorderedGenerator"),
        ("drTcOrderedEmits", DR, r"impl\s+TypeCheckAssumeOrderGenerator\b", "TypeCheckAssumeOrderGenerator"),
        ("drDeOrderedEmits", DR, r"impl\s+DeserializeAssumeOrderGenerator\b", "DeserializeAssumeOrderGenerator"),
        ("drTcByNameEmits", DR, r"impl\s+TypeCheckUnorderedGenerator\b", "TypeCheckUnorderedGenerator"),
        ("drDeByNameEmits", DR, r"impl\s+DeserializeUnorderedGenerator\b", "DeserializeUnorderedGenerator"),
    ]
    for name, rel, hdr, what in gens:
        d(name, "List String", strs(emissions(rel, hdr)),
          "error variants / panicking macros planted by `%s` (%s), in source order" % (what, rel))
    head = [
        "/-",
        "GENERATED by tools/extract_derive_c16.py from the derive-macro sources in /repo - DO NOT EDIT.",
        "Rewritten on every `./check C16`; `Props/C16.lean` proves the interpreter `Model/Derive.lean` against these",
        "definitions, so a macro edit that adds / drops / reorders an attribute or an error emission breaks a proof obligation.",
        "-/",
        "namespace ScyllaVerif.Generated.DeriveC16",
        "",
    ]
    return "\n".join(head) + "\n".join(defs) + "\nend ScyllaVerif.Generated.DeriveC16\n"


def main():
    write_if_changed(OUT, render())
    return 0


if __name__ == "__main__":
    try:
        sys.exit(main())
    except ExtractError as e:
        print("extract_derive_c16: " + str(e), file=sys.stderr)
        sys.exit(1)

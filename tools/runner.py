"""Check runner: proof obligations (Lean) + correspondence (Rust harness vs Lean model) + oracle search.

See DESIGN.md section 2.4.  Everything is rebuilt (incrementally) from /repo's current working tree.
"""
import concurrent.futures as cf
import fcntl
import json
import math
import os
import re
import shutil
import subprocess
import sys
import time

import props as P

VERIF = os.path.dirname(os.path.dirname(os.path.abspath(__file__)))
LEAN = os.path.join(VERIF, "lean")
HARNESS = os.path.join(VERIF, "harness")
WORK = os.path.join(VERIF, "work")
HX = os.path.join(HARNESS, "target", "release", "hx")


def modeldriver(pid):
    """One model-driver executable per property (lean/Driver/<pid>.lean → md_<pid>)."""
    return os.path.join(LEAN, ".lake", "build", "bin", "md_" + pid)

ALLOWED_AXIOMS = {"propext", "Classical.choice", "Quot.sound"}
FORBIDDEN = re.compile(r"\bsorry\b|\badmit\b|^axiom |native_decide|bv_decide|implemented_by|\bunsafe |maxHeartbeats 0|\bextern\b", re.M)

ENV = dict(os.environ)
ENV["CARGO_NET_OFFLINE"] = "true"
ENV.setdefault("CARGO_TERM_COLOR", "never")


def log(msg):
    print(msg, flush=True)


def sh(cmd, cwd=None, timeout=None, env=None, stdin=None, stdout=subprocess.PIPE):
    p = subprocess.run(cmd, cwd=cwd, env=env or ENV, stdin=stdin, stdout=stdout, stderr=subprocess.STDOUT,
                       timeout=timeout, text=True)
    return p.returncode, p.stdout if stdout == subprocess.PIPE else ""


class Lock:
    """Serialises builds (cargo / lake) between concurrently started checks."""

    def __init__(self, name):
        os.makedirs(WORK, exist_ok=True)
        self.path = os.path.join(WORK, name + ".lock")

    def __enter__(self):
        self.f = open(self.path, "w")
        fcntl.flock(self.f, fcntl.LOCK_EX)

    def __exit__(self, *a):
        fcntl.flock(self.f, fcntl.LOCK_UN)
        self.f.close()


# ----------------------------------------------------------------------------------------------
# Lean side
# ----------------------------------------------------------------------------------------------

def strip_lean_comments(src):
    out = []
    i, depth, n = 0, 0, len(src)
    while i < n:
        if src.startswith("/-", i):
            depth += 1
            i += 2
        elif depth and src.startswith("-/", i):
            depth -= 1
            i += 2
        elif depth:
            if src[i] == "\n":
                out.append("\n")
            i += 1
        elif src.startswith("--", i):
            while i < n and src[i] != "\n":
                i += 1
        else:
            out.append(src[i])
            i += 1
    return "".join(out)


def lean_files():
    res = []
    for root in (os.path.join(LEAN, "ScyllaVerif"), os.path.join(LEAN, "Driver")):
        for d, _, fs in os.walk(root):
            for f in fs:
                if f.endswith(".lean"):
                    res.append(os.path.join(d, f))
    return sorted(res)


def module_path(mod):
    return os.path.join(LEAN, mod.replace(".", "/") + ".lean")


def import_closure(roots):
    """Lean files (within /verif/lean) transitively imported by the given modules."""
    seen, todo = [], list(roots)
    while todo:
        m = todo.pop()
        path = module_path(m)
        if path in seen or not os.path.exists(path):
            continue
        seen.append(path)
        for im in re.findall(r"^import\s+((?:ScyllaVerif|Driver)\.\S+)", strip_lean_comments(open(path).read()), re.M):
            todo.append(im)
    return sorted(seen)


def forbidden_tokens(roots=None):
    hits = []
    for f in (import_closure(roots) if roots else lean_files()):
        src = strip_lean_comments(open(f).read())
        for m in FORBIDDEN.finditer(src):
            line = src.count("\n", 0, m.start()) + 1
            hits.append("%s:%d: %s" % (os.path.relpath(f, LEAN), line, m.group(0).strip()))
    return hits


def theorems_of(module):
    """Public theorems (name, line) of a Props module, fully qualified."""
    path = os.path.join(LEAN, module.replace(".", "/") + ".lean")
    src = strip_lean_comments(open(path).read())
    ns = []
    res = []
    for ln, line in enumerate(src.split("\n"), 1):
        m = re.match(r"namespace\s+(\S+)", line)
        if m:
            ns.append(m.group(1))
            continue
        m = re.match(r"end\s+(\S+)", line)
        if m and ns and ns[-1] == m.group(1):
            ns.pop()
            continue
        m = re.match(r"(?:@\[[^\]]*\]\s*)?theorem\s+(\S+)", line)
        if m:
            res.append((".".join(ns + [m.group(1)]), ln))
    return res


def lake_build(targets, timeout=3000):
    with Lock("lake"):
        return sh(["lake", "build"] + targets, cwd=LEAN, timeout=timeout)


def audit_axioms(pid, modules, thms):
    """Run `#print axioms` on every property theorem. Returns {name: [axioms]} (None if unknown)."""
    os.makedirs(WORK, exist_ok=True)
    path = os.path.join(WORK, "audit_%s.lean" % pid)
    with open(path, "w") as f:
        for m in modules:
            f.write("import %s\n" % m)
        for name, _ in thms:
            f.write("#print axioms %s\n" % name)
    rc, out = sh(["lake", "env", "lean", path], cwd=LEAN, timeout=1200)
    res = {name: None for name, _ in thms}
    text = out.replace("\n ", " ").replace("\n", "\x00")
    for chunk in text.split("\x00"):
        m = re.match(r"'([^']+)' depends on axioms: \[(.*)\]", chunk)
        if m:
            res[m.group(1)] = [a.strip() for a in m.group(2).split(",") if a.strip()]
            continue
        m = re.match(r"'([^']+)' does not depend on any axioms", chunk)
        if m:
            res[m.group(1)] = []
    return res, out, path


# ----------------------------------------------------------------------------------------------
# Rust side
# ----------------------------------------------------------------------------------------------

def cargo_build(timeout=3000):
    lock_src = "/repo/Cargo.lock"
    lock_dst = os.path.join(HARNESS, "Cargo.lock")
    if not os.path.exists(lock_dst) and os.path.exists(lock_src):
        shutil.copy(lock_src, lock_dst)
    with Lock("cargo"):
        return sh(["cargo", "build", "--release", "--offline"], cwd=HARNESS, timeout=timeout)


def read_cases(path):
    return [l.rstrip("\n") for l in open(path) if l.strip() and not l.startswith("#")]


def run_chunk(pid, idx, cases, workdir, timeout):
    """Runs the implementation and the model on one chunk. Returns (impl_lines, model_lines, oracle, err)."""
    cpath = os.path.join(workdir, "cases_%d.txt" % idx)
    ipath = os.path.join(workdir, "impl_%d.txt" % idx)
    opath = os.path.join(workdir, "oracle_%d.txt" % idx)
    with open(cpath, "w") as f:
        f.write("\n".join(cases) + "\n")
    err = None
    try:
        with open(cpath) as fin, open(ipath, "w") as fout:
            p = subprocess.run([HX, pid, "run", "--oracle-out", opath], stdin=fin, stdout=fout,
                               stderr=subprocess.PIPE, timeout=timeout, env=ENV, cwd=workdir, text=True)
        if p.returncode != 0:
            err = "hx run exited with %s: %s" % (p.returncode, (p.stderr or "")[-2000:])
    except subprocess.TimeoutExpired:
        err = "hx run timed out after %ss" % timeout
    impl = [l.rstrip("\n") for l in open(ipath)]
    oracle = []
    if os.path.exists(opath):
        for l in open(opath):
            i, _, msg = l.rstrip("\n").partition("\t")
            oracle.append((int(i), msg))
    if err and len(impl) < len(cases):
        # the process died (abort / stack overflow / OOM / timeout) on the case after the last output line
        k = len(impl)
        oracle.append((k, "process-died: " + err.replace("\n", " ")[:300]))
        impl = impl + ["CRASH"] + ["NOT-RUN"] * (len(cases) - k - 1)
    if len(impl) != len(cases):
        # never let the streams go out of step: a short or long output is a harness error of its own
        err = (err or "") + " hx run produced %d lines for %d cases" % (len(impl), len(cases))
        impl = (impl + ["NOT-RUN"] * len(cases))[:len(cases)]
    model = None
    if os.path.exists(modeldriver(pid)):
        mi = "\n".join(c + "\t" + o for c, o in zip(cases, impl)) + "\n"
        try:
            p = subprocess.run([modeldriver(pid)], input=mi, stdout=subprocess.PIPE, stderr=subprocess.PIPE,
                               timeout=timeout, text=True)
            model = p.stdout.split("\n")
            if model and model[-1] == "":
                model.pop()
            if p.returncode != 0 or len(model) != len(cases):
                err = (err or "") + " modeldriver rc=%s lines=%d/%d %s" % (p.returncode, len(model), len(cases), p.stderr[-500:])
                model = (model + ["MODEL-NO-OUTPUT"] * len(cases))[:len(cases)]
        except subprocess.TimeoutExpired:
            err = (err or "") + " modeldriver timed out"
            model = ["MODEL-TIMEOUT"] * len(cases)
    return impl, model, oracle, err


def run_cases(pid, cases, tag, timeout):
    """Run all cases (chunked over the cores). Returns dict with impl, model, oracle [(idx,msg)], errors."""
    # one directory per process: two concurrent checks of the same property must not share scratch files
    workdir = os.path.join(WORK, pid, "%s.%d" % (tag, os.getpid()))
    shutil.rmtree(workdir, ignore_errors=True)
    os.makedirs(workdir)
    cfgp = P.PROPS[pid]
    per = cfgp.get("chunk", 4000)
    jobs = max(1, min(os.cpu_count() or 4, math.ceil(len(cases) / per)))
    size = math.ceil(len(cases) / jobs) if cases else 1
    chunks = [cases[i:i + size] for i in range(0, len(cases), size)]
    impl, model, oracle, errors = [], [], [], []
    with cf.ThreadPoolExecutor(max_workers=jobs) as ex:
        futs = [ex.submit(run_chunk, pid, i, ch, workdir, timeout) for i, ch in enumerate(chunks)]
        base = 0
        for ch, fu in zip(chunks, futs):
            i, m, o, e = fu.result()
            impl += i
            model += (m if m is not None else [None] * len(ch))
            oracle += [(base + k, msg) for k, msg in o]
            if e:
                errors.append(e)
            base += len(ch)
    shutil.rmtree(workdir, ignore_errors=True)
    return dict(impl=impl, model=model, oracle=oracle, errors=errors)


def generate(pid, seed, tier, timeout=1200):
    rc = subprocess.run([HX, pid, "gen", "--seed", str(seed), "--tier", tier], stdout=subprocess.PIPE,
                        stderr=subprocess.PIPE, env=ENV, timeout=timeout, text=True)
    if rc.returncode != 0:
        raise RuntimeError("hx gen failed: " + rc.stderr[-2000:])
    return [l for l in rc.stdout.split("\n") if l.strip()]


def corpus_cases(pid):
    d = os.path.join(VERIF, "corpus", pid)
    res = []
    if os.path.isdir(d):
        for f in sorted(os.listdir(d)):
            if f.endswith(".case"):
                res += read_cases(os.path.join(d, f))
    return res


# ----------------------------------------------------------------------------------------------
# known findings
# ----------------------------------------------------------------------------------------------

def load_known(pid):
    path = os.path.join(VERIF, "known_findings.json")
    if not os.path.exists(path):
        return []
    data = json.load(open(path))
    return [k for k in data.get("known", []) if k["property"] == pid]


def match_known(known, case, msg):
    for k in known:
        if re.search(k["case_regex"], case) and re.search(k.get("oracle_regex", ""), msg):
            return k
    return None


# ----------------------------------------------------------------------------------------------
# shrinking (delta debugging on the operations inside one case line)
# ----------------------------------------------------------------------------------------------

def still_fails(pid, case, pred, timeout=120):
    r = run_cases(pid, [case], "shrink", timeout)
    return pred(case, r)


def shrink_case(pid, case, pred):
    """ddmin over the `sep`-separated operations of the case line (property-specific `shrink` config)."""
    cfgp = P.PROPS[pid]
    sh_cfg = cfgp.get("shrink")
    if not sh_cfg:
        return case
    head, sep = sh_cfg["head_words"], sh_cfg["sep"]
    words = case.split(" ")
    prefix, body = words[:head], " ".join(words[head:])
    ops = [o for o in body.split(sep) if o != ""]
    t_end = time.time() + sh_cfg.get("budget_s", 60)
    n = 2
    while len(ops) >= 2 and time.time() < t_end:
        size = math.ceil(len(ops) / n)
        reduced = False
        for i in range(0, len(ops), size):
            cand = ops[:i] + ops[i + size:]
            if not cand:
                continue
            line = " ".join(prefix + [sep.join(cand)])
            try:
                if still_fails(pid, line, pred):
                    ops = cand
                    n = max(n - 1, 2)
                    reduced = True
                    break
            except Exception:
                pass
        if not reduced:
            if n >= len(ops):
                break
            n = min(len(ops), n * 2)
    return " ".join(prefix + [sep.join(ops)])


# ----------------------------------------------------------------------------------------------
# main check
# ----------------------------------------------------------------------------------------------

def write_replay(pid, seed, header, cases):
    d = os.path.join(VERIF, "replays")
    os.makedirs(d, exist_ok=True)
    path = os.path.join(d, "%s-%s.case" % (pid, seed))
    with open(path, "w") as f:
        for h in header:
            f.write("# " + h.replace("\n", " ") + "\n")
        for c in cases:
            f.write(c + "\n")
    return path


def check_property(pid, tier, seed, replay=None):
    t0 = time.time()
    cfgp = P.PROPS[pid]
    broken = []          # proof obligations / tie elements that no longer check
    notes = []
    timeout = cfgp.get("timeout_s", {"quick": 900, "thorough": 7200})[tier]

    # 1. constants regenerated from the source (translator)
    if cfgp.get("tables"):
        import extract_tables
        try:
            extract_tables.main()
        except Exception as e:  # fail closed
            broken.append("extractor tools/extract_tables.py: %s" % e)
    for mod in cfgp.get("extractors", []):  # property-specific translators (tools/<mod>.py, `main()`), fail closed
        try:
            __import__(mod).main()
        except Exception as e:
            broken.append("extractor tools/%s.py: %s" % (mod, e))

    # 2. Lean: model driver + property theorems
    rc, out = lake_build(["md_" + pid])
    if rc != 0:
        broken.append("lake build md_%s failed (model or driver does not compile): %s" % (pid, out[-1500:]))
        try:
            os.remove(modeldriver(pid))
        except OSError:
            pass
    modules = cfgp["lean_modules"]
    thms = []
    for m in modules:
        thms += theorems_of(m)
    rc, out = lake_build(modules)
    failed_thms = []
    if rc != 0:
        # map error positions back to theorem names
        for m in modules:
            rel = m.replace(".", "/") + ".lean"
            tl = theorems_of(m)
            for em in re.finditer(re.escape(rel) + r":(\d+):\d+: error", out):
                ln = int(em.group(1))
                cands = [n for n, l in tl if l <= ln]
                if cands and cands[-1] not in failed_thms:
                    failed_thms.append(cands[-1])
        broken.append("lake build %s failed; theorems no longer checking: %s ; %s" % (
            " ".join(modules), ", ".join(failed_thms) or "(in an imported module)", out[-1200:].replace("\n", " | ")))

    # 3. axiom audit + forbidden tokens
    axioms, audit_out, audit_path = ({}, "", "")
    discharged = 0
    if rc == 0:
        axioms, audit_out, audit_path = audit_axioms(pid, modules, thms)
        for name, _ in thms:
            ax = axioms.get(name)
            if ax is None:
                broken.append("axiom audit: no `#print axioms` answer for %s" % name)
            elif not set(ax) <= ALLOWED_AXIOMS:
                broken.append("axiom audit: %s depends on %s" % (name, ax))
            else:
                discharged += 1
    hits = forbidden_tokens(modules + ["Driver." + pid])
    if hits:
        broken.append("forbidden tokens in Lean sources: " + "; ".join(hits[:10]))
        discharged = 0
    leanchecker = None
    if tier == "thorough" and rc == 0:
        lrc, lout = sh(["lake", "env", "leanchecker"] + modules, cwd=LEAN, timeout=3000)
        leanchecker = "ok" if lrc == 0 else "FAILED: " + lout[-500:]
        if lrc != 0:
            broken.append("leanchecker rejected %s: %s" % (modules, lout[-500:]))

    # 4. harness against the current working tree
    rc_c, out_c = cargo_build()
    if rc_c != 0:
        broken.append("cargo build of the harness against /repo failed (hooks or API changed): " + out_c[-1500:].replace("\n", " | "))

    # 5./6. corpus + generated cases: implementation vs model, oracle on the implementation
    known = load_known(pid)
    results = None
    cases = []
    n_corpus = 0
    if rc_c == 0:
        if replay:
            cases = read_cases(replay)
        else:
            corp = corpus_cases(pid)
            n_corpus = len(corp)
            cases = corp + generate(pid, seed, tier)
        results = run_cases(pid, cases, "main", timeout)

    oracle_new, oracle_known, disagreements = [], {}, []
    if results:
        for idx, msg in results["oracle"]:
            k = match_known(known, cases[idx], msg)
            if k:
                oracle_known.setdefault(k["id"], (k, []))[1].append((idx, msg))
            else:
                oracle_new.append((idx, msg))
        known_idx = {i for (_, lst) in oracle_known.values() for i, _ in lst}
        for i, (a, b) in enumerate(zip(results["impl"], results["model"])):
            if b is not None and a != b and a != "NOT-RUN" and i not in known_idx:
                disagreements.append(i)
        for e in results["errors"]:
            notes.append(e)
            if not oracle_new:
                broken.append("harness run error: " + e[:500])

    # widened search when something is broken but no failing input was found yet
    widened = 0
    if (broken or disagreements) and not oracle_new and rc_c == 0 and not replay:
        for extra in range(1, cfgp.get("widen_seeds", 6) + 1):
            wc = generate(pid, seed * 1000003 + extra, tier)
            wr = run_cases(pid, wc, "widen", timeout)
            widened += len(wc)
            fresh = [(i, m) for i, m in wr["oracle"] if not match_known(known, wc[i], m)]
            if fresh:
                base = len(cases)
                cases += wc
                results["impl"] += wr["impl"]
                results["model"] += wr["model"]
                oracle_new += [(base + i, m) for i, m in fresh]
                break

    # 7. verdict
    violations = 0
    rc_final = 0
    for kid, (k, lst) in sorted(oracle_known.items()):
        log("KNOWN-FINDING: property=%s %s (%d case(s) in this run, e.g. `%s`)" % (pid, k["what"], len(lst), cases[lst[0][0]][:200]))
    if oracle_new:
        violations = len(oracle_new)
        idx, msg = oracle_new[0]
        case = cases[idx]

        def pred(c, r):
            return any(not match_known(known, c, m) for _, m in r["oracle"])
        small = shrink_case(pid, case, pred)
        header = ["property=%s seed=%s tier=%s" % (pid, seed, tier),
                  "oracle failure on the implementation (independent of the model): " + msg,
                  "implementation output: " + str(results["impl"][idx])[:400],
                  "model output: " + str(results["model"][idx])[:400],
                  "replay: ./check %s --replay <this file>" % pid]
        rp = write_replay(pid, seed, header, [small] + ([case] if small != case else []))
        log("oracle failures: %d (first: %s)" % (len(oracle_new), msg[:300]))
        log("VIOLATION property=%s replay=%s" % (pid, rp))
        rc_final = 1
    elif broken or disagreements:
        violations = len(disagreements) + len(broken)
        header = ["property=%s seed=%s tier=%s" % (pid, seed, tier),
                  "no failing input found (searched %d cases + %d widened)" % (len(cases), widened)]
        for b in broken:
            header.append("NO LONGER CHECKS: " + b)
        if disagreements:
            header.append("correspondence ScyllaVerif model (md_%s) vs implementation (hx %s run) disagrees on %d case(s)" % (pid, pid, len(disagreements)))
        rcases = []
        for i in disagreements[:20]:
            header.append("case `%s`: impl=`%s` model=`%s`" % (cases[i][:300], str(results["impl"][i])[:300], str(results["model"][i])[:300]))
            rcases.append(cases[i])
        rp = write_replay(pid, seed, header, rcases)
        for b in broken:
            log("BROKEN: " + b[:600])
        if disagreements:
            i = disagreements[0]
            log("model/implementation disagreement on %d case(s); first: `%s` impl=`%s` model=`%s`" % (
                len(disagreements), cases[i][:300], str(results["impl"][i])[:300], str(results["model"][i])[:300]))
        log("VIOLATION property=%s replay=%s no-failing-input-found" % (pid, rp))
        rc_final = 1

    # evidence
    wall = time.time() - t0
    if not replay:
        write_evidence(pid, tier, seed, cfgp, thms, axioms, discharged, cases, n_corpus, results, oracle_new,
                       oracle_known, disagreements, broken, widened, leanchecker, wall, violations, notes)
    log("%s %s: %d theorems (%d discharged), %d cases, %d disagreements, %d oracle failures (%d known), %.1fs" % (
        pid, tier, len(thms), discharged, len(cases), len(disagreements), len(oracle_new),
        sum(len(l) for _, l in oracle_known.values()), wall))
    return rc_final


def write_evidence(pid, tier, seed, cfgp, thms, axioms, discharged, cases, n_corpus, results, oracle_new,
                   oracle_known, disagreements, broken, widened, leanchecker, wall, violations, notes):
    nontrivial = set()
    hist = {}
    out_hist = {}
    samples = []
    if results:
        triv = cfgp.get("trivial", lambda c, o: False)
        for c, o in zip(cases, results["impl"]):
            kind = c.split(" ", 1)[0]
            hist[kind] = hist.get(kind, 0) + 1
            okind = cfgp.get("out_kind", lambda o: o.split(" ", 1)[0] if o and not o[0].isdigit() and o[0] != '-' else "value")(o)
            out_hist[okind] = out_hist.get(okind, 0) + 1
            if not triv(c, o):
                nontrivial.add(c)
        seen_kinds = set()
        for c, o in zip(cases, results["impl"]):
            kind = c.split(" ", 1)[0]
            if kind not in seen_kinds and len(c) < 600:
                seen_kinds.add(kind)
                samples.append({"case": c, "implementation": o[:300], "model_agrees": True})
            if len(samples) >= 12:
                break
    samples += [{"theorem": n, "axioms": axioms.get(n)} for n, _ in thms[:40]]
    ev = {
        "property_id": pid,
        "tier": tier,
        "seed": seed,
        "level": "proof",
        "coverage": {
            "obligations": len(thms),
            "discharged": discharged,
            "checker_cmd": "cd /verif/lean && lake build %s && lake env lean /verif/work/audit_%s.lean  (#print axioms on every theorem)%s" % (
                " ".join(cfgp["lean_modules"]), pid, " && lake env leanchecker " + " ".join(cfgp["lean_modules"]) if tier == "thorough" else ""),
            "trusted_base": P.COMMON_TRUSTED + cfgp.get("trusted", []),
            "theorems": [n for n, _ in thms],
            "axioms_used": sorted({a for v in axioms.values() if v for a in v}),
            "leanchecker": leanchecker,
            "evaluations": len(cases),
            "corpus_cases": n_corpus,
            "distinct_nontrivial": len(nontrivial),
            "rule": cfgp.get("rule", "distinct case lines"),
            "traces_validated_against_impl": len(cases) - len(disagreements) if results else 0,
            "disagreements_checked": len(cases) if results else 0,
            "model_vs_implementation_disagreements": len(disagreements),
            "implementation_vs_oracle_failures": len(oracle_new),
            "known_findings_hit": {k: len(l) for k, (_, l) in oracle_known.items()},
            "widened_search_cases": widened,
            "broken_obligations_or_tie": broken,
            "input_distribution": hist,
            "output_distribution": dict(sorted(out_hist.items(), key=lambda kv: -kv[1])[:25]),
            "partial": cfgp.get("partial", []),
            "samples": samples,
            "explanation": cfgp.get("explanation", ""),
            "notes": notes[:10],
        },
        "assumptions": cfgp.get("assumptions", []),
        "wall_s": round(wall, 2),
        "violations": violations,
    }
    os.makedirs(os.path.join(VERIF, "evidence"), exist_ok=True)
    with open(os.path.join(VERIF, "evidence", pid + ".json"), "w") as f:
        json.dump(ev, f, indent=1, sort_keys=False)
        f.write("\n")


def setup():
    t0 = time.time()
    try:
        import extract_tables
        extract_tables.main()
    except ImportError:
        pass
    try:
        claimed = sorted(c["property_id"] for c in json.load(open(os.path.join(VERIF, "MANIFEST.json")))["checks"])
    except Exception:
        claimed = sorted(P.PROPS)
    claimed = [p for p in claimed if p in P.PROPS]
    mods = [m for p in claimed for m in P.PROPS[p]["lean_modules"]]
    rc, out = lake_build(mods + ["md_" + p for p in claimed])
    log(out[-3000:])
    if rc != 0:
        log("setup: lake build failed")
        return 1
    rc, out = cargo_build()
    log(out[-3000:])
    if rc != 0:
        log("setup: cargo build failed")
        return 1
    log("setup done in %.0fs" % (time.time() - t0))
    return 0


def main(argv):
    os.chdir(VERIF)
    if not argv or argv[0] in ("-h", "--help"):
        print(__doc__)
        return 2
    if argv[0] == "--setup":
        return setup()
    pid = argv[0]
    if pid not in P.PROPS:
        print("unknown property", pid)
        return 2
    tier = os.environ.get("VERIF_TIER", "quick")
    seed = int(os.environ.get("VERIF_SEED", "1"))
    replay = None
    i = 1
    while i < len(argv):
        if argv[i] == "--tier":
            tier = argv[i + 1]
            i += 2
        elif argv[i] == "--seed":
            seed = int(argv[i + 1])
            i += 2
        elif argv[i] == "--replay":
            replay = argv[i + 1]
            i += 2
        else:
            print("bad argument", argv[i])
            return 2
    if tier not in ("quick", "thorough"):
        tier = "quick"
    return check_property(pid, tier, seed, replay)

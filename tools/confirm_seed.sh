#!/bin/bash
# Developer tool: confirm a seeded change (from a mutation sub-agent) in a fresh scratch worktree:
#   demo passes at HEAD, demo fails with the patch, the touched crates' unit tests behave as at HEAD.
# usage: tools/confirm_seed.sh <outdir with patch.diff demo.diff meta.json> <crate> [<crate>...]
set -u
OUT=$(readlink -f "$1"); shift
WT=$(mktemp -d /tmp/confirm.XXXXXX)
export CARGO_TARGET_DIR=/tmp/confirm-target
git -C /repo worktree add -q --detach "$WT/wt" HEAD || exit 2
cd "$WT/wt"
ID=$(basename "$OUT")
DEMO=$(python3 -c "import json,sys;print(json.load(open('$OUT/meta.json'))['demo_cmd'])" | sed "s#\$WORKTREE#$WT/wt#g; s#\$OUTDIR#$OUT#g; s#/tmp/mut-target#/tmp/confirm-target#g; s#/tmp/mutwt/$ID#$WT/wt#g; s#CARGO_TARGET_DIR=[^ ;&]*#CARGO_TARGET_DIR=/tmp/confirm-target#g")
echo "demo_cmd: $DEMO"
git apply --check "$OUT/patch.diff" || { echo "PATCH DOES NOT APPLY"; }
# 1. baseline unit tests of the touched crates at HEAD
for c in "$@"; do cargo test -p $c --lib --offline 2>&1 | grep -E "^test result|FAILED|failed" | tail -3 | sed "s/^/[HEAD $c] /"; done
# 2. demo at HEAD (expected: pass); the demo diff is applied here, never by the command itself
DEMO=$(echo "$DEMO" | sed -E "s#git apply [^&;]*demo.diff *(&&|;)##g; s#[[:space:]]+\\([^()]*\\)[[:space:]]*\$##; s#[[:space:]]+\\([^()]*\\)[[:space:]]*(&&|;)# \\1#g")
[ -f "$OUT/demo.diff" ] && { git apply "$OUT/demo.diff" || echo "DEMO DIFF DOES NOT APPLY"; }
bash -c "$DEMO" > "$WT/demo_head.txt" 2>&1; echo "[demo at HEAD] exit=$?"; grep -E "^test result|panicked|FAILED|error" "$WT/demo_head.txt" | head -5
# 3. with the patch
git apply "$OUT/patch.diff" || echo "patch apply failed"
bash -c "$DEMO" > "$WT/demo_mut.txt" 2>&1; echo "[demo with change] exit=$?"; grep -E "^test result|panicked|FAILED|^error" "$WT/demo_mut.txt" | head -5
for c in "$@"; do cargo test -p $c --lib --offline 2>&1 | grep -E "^test result|FAILED|failed" | tail -3 | sed "s/^/[MUT $c] /"; done
cd /; git -C /repo worktree remove --force "$WT/wt"; rm -rf "$WT"

"""Per-property configuration of the check runner (what is proved, what is tied how, what is trusted)."""

COMMON_TRUSTED = [
    "Lean 4.33.0 kernel; axioms allowed in property theorems: propext, Classical.choice, Quot.sound (audited with #print axioms on every run)",
    "no sorry/admit/axiom/native_decide/bv_decide/implemented_by/unsafe in /verif/lean (grep on every run)",
    "hand-written Lean model tied to /repo by differential correspondence (harness/src + tools/runner.py); differential testing bounds what it sees by generator quality",
    "rustc/cargo, the Rust harness (hx), python3 runner",
]

PROPS = {}
NOT_CLAIMED = {}

PROPS["C11"] = dict(
    level_text="Theorems (Props/C11.lean) prove for every shard count, msb_ignore<64 and i64 token that the u64 implementation equals ScyllaDB's stated algorithm and is < nr_shards; for every shard and port range that the drawable/iterable ports are exactly the ports of the range congruent to the shard (each once, any pivot/index), and that None/empty is produced iff no such port exists. The model is tied to sharding.rs by a differential run (exhaustive corner sweep + boundary/random cases) with a brute-force oracle.",
    level_note="Trusted: Lean kernel + {propext, Classical.choice, Quot.sound}; hand-written model Model/Sharding.lean (tie = differential harness through cfg(scylla_verif) pass-throughs); RNG choices are explicit model arguments (membership check). msb_ignore >= 64 (malformed SUPPORTED) is outside the property's domain.",
    lean_modules=["ScyllaVerif.Props.C11"],
    rule="case = (operation, shard count, msb/shard, token or port range); distinct case lines whose implementation output is not `none`/`-`/`0` count as non-trivial",
    trivial=lambda c, o: o in ("none", "-", "0"),
    trusted=[
        "Model/Sharding.lean transcribes sharding.rs:121-237, 85-103, 274-308; u128 product modelled on Nat (product_fits_u128)",
        "rand::rng() index/pivot are explicit arguments of the model; correspondence for draw/iter is membership (model checks the observed output is producible by some random choice)",
    ],
    assumptions=[
        "msb_ignore < 64 for shardOfImpl_eq_spec (the value range ScyllaDB sends); shard < nr_shards and hi <= 65535 (u16) for the port theorems - both enforced by the Rust types/asserts",
    ],
    partial=[],
)

PROPS["C03"] = dict(
    level_text="Theorems (Props/C03.lean) prove, for every list of chunks (empty and 1-byte chunks included), that the driver's buffered three-phase Murmur3 `write`/`finish` returns exactly the one-shot Cassandra MurmurHash3_x64_128 (signed tail bytes) token of the concatenation, normalised MIN->MAX (never i64::MIN); that for every permutation of bind markers the partition key is extracted in partition-key order (`(extract (pkIndexesOfWire wire) values)[seq] = values[wire[seq]]`, non-key markers skipped); that the token is murmur3Spec of the single component / of the composite encoding be16 len ++ bytes ++ 0 (and equals the CDC token under the CDC partitioner); that a composite component of >= 65536 bytes is rejected; and chunking independence of the CDC hasher. The models are tied to partitioner.rs / prepared.rs / result.rs by a differential run with model-independent oracles (chunked = one-shot, != i64::MIN, independent Cassandra reference, real-cluster vectors).",
    level_note="Trusted: Lean kernel + {propext, Classical.choice, Quot.sound}; hand-written models Model/Murmur3.lean, Model/PartitionKey.lean (tie = differential harness: public hashers, forged PREPARED frames through deser_prepared_metadata, PreparedStatement::calculate_token/compute_partition_key via the cfg(scylla_verif) pass-through statement_from_prepared). Fidelity of murmur3Spec to Cassandra's Java is by transliteration + the four server-derived vectors (no server in the sandbox).",
    lean_modules=["ScyllaVerif.Props.C03"],
    rule="case = (operation, bytes, chunking) or (partitioner, pk wire order, bound values); distinct case lines whose implementation output carries a token or an error kind count as non-trivial",
    trivial=lambda c, o: o in ("-", "bad-case"),
    out_kind=lambda o: ("token-err" if " tok=err" in o else "token-panic" if "tok=panic" in o else "token-none" if "tok=none" in o else "token-ok") if o.startswith("pk=") else (o.split(" ", 1)[0] if o and not (o[0].isdigit() or o[0] == "-") else "value"),
    trusted=[
        "Model/Murmur3.lean transcribes partitioner.rs:145-313 (Wrapping<i64> on UInt64: same bit patterns, right shifts are on `as u64`), 316-381 (CDC), routing/mod.rs:38-43 (Token::new)",
        "Model/PartitionKey.lean transcribes prepared.rs:782-860, 348-360, result.rs:976-984 (sort_unstable_by_key modelled by a stable sort; equal marker indexes are checked up to the order of equal keys), partitioner.rs:396-423",
        "murmur3Spec = Cassandra's MurmurHash.hash3_x64_128 one-shot form by transliteration, validated by the four (string, token) vectors obtained from a real cluster (partitioner.rs tests) - `example ... := by decide +kernel` in Props/C03.lean and `vector` cases in every run",
        "u16 arithmetic in PartitionKey::new is modelled with overflow checks on (as the harness is built): repeated marker indexes (never sent by a server) panic there, wrap in a release build",
    ],
    assumptions=[
        "extract_in_pk_order / token_formula: the marker indexes of the PREPARED frame are distinct and below the number of bound values (<= 65535), every key component is bound to a value (null/unset key components are skipped by the code; the server rejects such requests)",
        "bound_values.element_count() = col_specs.len() (enforced by serialize_values)",
    ],
    partial=[],
    chunk=3000,
)

PROPS["C09"] = dict(
    level_text="Theorems (Props/C09.lean) prove for the Lean model of the request encoder (QUERY, PREPARE, EXECUTE with/without result-metadata id, BATCH, STARTUP, REGISTER, OPTIONS, AUTH_RESPONSE; every subset of the optional fields; any value list with null/unset; any batch shape): frame_valid (version 4, flags = compression|tracing bits, spec opcode, u32 length = payload size), parse_encode (an independent parser written from the CQL v4 spec reads the emitted frame back to exactly the request: text/id, consistency, serial consistency, page size, paging state, timestamp, skip-metadata, values in order, batch statements in order with their values), compressed_body (payload decompresses to the uncompressed body, from the hypothesis decompress(compress b)=b), oversize_refused + representable_accepted (the encoder succeeds exactly on requests that fit a v4 frame: statements < 2^31 B, ids/strings < 2^16 B, <= 65535 values/statements, one value list per statement; otherwise an error, never truncation). Opcodes, flag bits, consistency/batch codes are re-extracted from the Rust source on every run (tools/extract_tables.py) and proved equal to the protocol literals. The model is tied to scylla-cql by a differential run through the public API with an independent Rust-side spec parser as oracle.",
    level_note="Trusted: Lean kernel + {propext, Classical.choice, Quot.sound}; hand-written model Model/Request.lean + Model/WirePrim.lean (tie = byte-exact differential run against SerializedRequest::make through the public API, plus a model-independent protocol parser in harness/src/c09.rs as oracle); the regex extractor tools/extract_tables.py (fails closed). LZ4/Snappy block codecs are parameters of the model (assumed to invert; checked on every compressed case by decompressing with the same crates). Bodies >= 4 GiB ((len-9) as u32 cast) are outside the theorems' hypothesis and cannot be built here. STARTUP map order is an explicit argument (checker mode: any permutation).",
    lean_modules=["ScyllaVerif.Props.C09"],
    tables=True,
    rule="case = (request kind, compression, tracing, stream id, fields...); distinct case lines whose implementation output is a frame (`ok ...`) or an error kind count as non-trivial",
    trivial=lambda c, o: o in ("bad-case",),
    out_kind=lambda o: " ".join(w for w in o.split(" ")[:4] if not (len(w) > 24 or w.lstrip("-").isdigit())) if o.startswith("err") else o.split(" ", 1)[0],
    trusted=[
        "Model/Request.lean transcribes frame/mod.rs:70-112, 273-323, request/query.rs:49-56, 120-176, execute.rs:74-90, batch.rs:63-159, 195-213, prepare.rs, startup.rs, register.rs, auth_response.rs, options.rs, serialize/row.rs:594-615 (add_value), writers.rs:104-131; Model/WirePrim.lean transcribes frame/types.rs write_* (checked u16 / i32 length conversions)",
        "Model/ReqParse.lean is the specification side: a parser of CQL v4 request frames written from native_protocol_v4.spec (+ ScyllaDB's result-metadata-id extension of EXECUTE) with literal constants; it imports nothing from the encoder model",
        "tools/extract_tables.py copies request/response opcodes, frame/QUERY/BATCH flag bits, consistency, batch type and kind codes, null/unset markers, event names and the header layout of SerializedRequest::make from the Rust text into Generated/Constants.lean on every run (regex-based, fails closed)",
        "LZ4 / Snappy block codecs (lz4_flex, snap) are parameters of the model; the driver instantiates them with the block the implementation produced (header, flags, length field, LZ4 length prefix and the decompressed body are still compared); HashMap iteration order of STARTUP is read off the implementation's frame and must be a permutation of the requested entries",
        "SerializedValues are built in the harness with add_value on blob-typed cells (null = None, unset = MaybeUnset::Unset); 2^31-byte inputs (`biglen` cases) are lazily mapped zero pages and only the model's length guard is run on them",
    ],
    assumptions=[
        "frame_valid / parse_encode / compressed_body: payload below 2^32 bytes (the `(len - 9) as u32` cast; frame_length_field_is_cast states the unconditional modulo form) and, for LZ4, uncompressed body below 2^32 bytes",
        "compressed_body: unlz4 (lz4 b) |b| = b and snappy b = c -> unsnappy c = b (explicit hypotheses, not axioms)",
        "page size is an i32, timestamps i64, stream id i16 (the Rust types)",
    ],
    partial=[
        "Batch::do_serialize's per-statement TooManyValues branch (> 65535 values written by one RawBatchValues row) is modelled but not exercised by the harness: with Vec<SerializedValues> the count is capped earlier by add_value; the RawBatchValuesAdapter path of the scylla crate is not driven",
        "session-level capture of frames through the mock node (timestamps / page sizes chosen by the session layer) is not part of this check; the frame layer is driven directly through SerializedRequest::make",
        "accepted inputs just below 2^31 bytes are not executed (they would copy 2 GiB); only the refusal at 2^31 is",
    ],
    chunk=800,
)

PROPS["C16"] = dict(
    level_text="Theorems (Props/C16.lean) about a generic interpreter of the code the derive macros generate, for EVERY struct descriptor (any number of fields, any attribute combination passing the macro's name-collision check), every database field list and every value assignment: by-name UDT serialization writes each bound field's value at its column's database position, nulls (or nothing, at the end) elsewhere (serValueByName_position / _unmatched_null); it succeeds exactly when every listed column is acceptable (value fits the type; excess column iff not forbid_excess_udt_fields) and every field without allow_missing/skip has a column (serValueByName_accepts_iff, _excess), a missing required field is always an error wherever it is declared - the F7 shape included (serValueByName_missing_required); acceptance and the cell at each column's position do not depend on the database order (serValueByName_perm_accepts / _perm_cells, tcValueByName_perm); the by-name UDT type check accepts exactly: acceptable columns, no bound field listed twice, required fields listed (tcValueByName_accepts_iff); by-name UDT deserialization fills each field from the like-named column (skip / missing allow_missing -> default, null with default_when_null -> default) (deserValueByName_spec); value -> cells -> value is the identity in any database order (byname_roundtrip); by-name row serialization is characterised exactly, cells position by position (serRowByName_iff); the ordered UDT flavor accepts only subsequences of the declared names in declared order containing every required field, excess only at the end and only without forbid (svOrdered_sound, dvTcOrd_sound, dvTcOrd_declared). The interpreter is tied to scylla-macros by a differential run of 50 structs compiled with the real derive macros (descriptor and struct generated from ONE table) over all permutations of up to 6 columns, every subset missing, excess / duplicated / retyped columns at every position, null patterns, truncated cell lists, with a model-independent oracle (value at its column's position, round trip, documented accept/reject rule, missing required field never dropped, declared order for the ordered flavor).",
    level_note="Trusted: Lean kernel + {propext, Classical.choice, Quot.sound}; hand-written interpreter Model/Derive.lean (tie = differential harness on the fixed family; macro expansion itself is not modelled). Field values are abstract payloads (typed encoding is C01). Proved for the UDT derives and by-name SerializeRow; DeserializeRow, ordered rows, skip_name_checks and flatten are tied and oracle-checked differentially only (see partial).",
    lean_modules=["ScyllaVerif.Props.C16"],
    rule="case = (trait, struct descriptor, database column list, values or cells); distinct case lines count as non-trivial unless the output is bad-case",
    trivial=lambda c, o: o.startswith("bad-case"),
    out_kind=lambda o: " ".join(o.split(" ")[:3]) if o.startswith("err") else o.split(" ", 1)[0],
    trusted=[
        "Model/Derive.lean transcribes serialize/value.rs:261-553, serialize/row.rs:203-472, _macro_internal.rs:141-310, deserialize/value.rs:226-898, deserialize/row.rs:175-670 as an interpreter over a struct descriptor; loops are structural recursions returning the cells written from the current column on; `saved_cql_field` + iterator are one list",
        "value level kept abstract: i32 = 4-byte payload, String = ASCII bytes (UTF-8 validation not modelled), Option None = null (typed encodings: C01)",
        "the derive macros' compile-time validation (name collisions, skip_name_checks restrictions) is represented by the hypothesis ValidNames; the family table and descriptor strings come from the same macro_rules tokens (harness/src/c16_structs.rs)",
    ],
    assumptions=[
        "ValidNames: non-skipped fields have pairwise distinct database names (enforced by the macros at compile time)",
        "byname_roundtrip: database names distinct, column types equal the like-named fields' types, values well-typed (None only for Option, i32 payload 4 bytes)",
    ],
    partial=[
        "DeserializeRow (by name and ordered), ordered SerializeRow, skip_name_checks and #[scylla(flatten)] are modelled (Model/Derive.lean: tcRow*/deRow*/srOrdered/serRowByNameN/serRowOrderedN) and checked differentially + by the harness oracle, but have no theorem yet",
        "ordered flavor: soundness (only declared-order subsequences are accepted) and acceptance of the declared order are proved; the full iff with the greedy allow_missing rule and the ordered deserialize walk are differential only",
        "error KIND exactness is proved for the missing-required-field case; for other rejections the theorems state acceptance iff (the differential run compares kinds)",
    ],
    chunk=4000,
)

PROPS["C02"] = dict(
    level_text="Theorems (Props/C02.lean) prove, for EVERY event sequence of the connection model (inductive invariant `Inv` over `step`, lifted to all runs) and the full 32768-id space: the bitmap allocator returns the least free id and fails iff all ids are used, `free` clears exactly one bit (bit level refines the abstract set); two unanswered requests never share a stream id (including after cancellation before enqueue / before write / after write / after the response); the reader's lookup for an answer the server owes finds exactly the handler of the request it answers (or the orphan mark) and never `Missing`; a frame on a stream the server does not owe never reaches a handler; any caller that completes with a frame holds the frame produced for its own request; the Rust assert in `allocate` cannot fire; exhaustion gives UnableToAllocStreamId and leaves the map unchanged. The model is tied to connection.rs by a differential run at hook level (ResponseHandlerMap op sequences: exhaustive over 3 request ids / 3 streams up to length 5, random, full 32768-id exhaustion) and end to end (the real router/reader/writer/orphaner over an in-memory stream, requests through the real send_request, under a deterministic schedule that covers all four cancellation points, out-of-order answers, unsolicited frames, blocked writes), each with a model-independent oracle.",
    level_note="Trusted: Lean kernel + {propext, Classical.choice, Quot.sound}; hand-written models Model/StreamMap.lean, Model/Conn.lean (tie = differential harness through cfg(scylla_verif) hooks StreamMap / RawConnection). Each critical section of reader/writer/orphaner is one atomic model step (they run on one task and never hold the map lock across an await); tokio scheduling, socket buffering and memory-model effects are outside the model. The abstract server answers only stream ids it has received, at most once each.",
    lean_modules=["ScyllaVerif.Props.C02"],
    rule="case = one operation sequence (hook level `map`, or end-to-end schedule `conn`); distinct case lines whose implementation output contains at least one routed response (`H<req>` / `ok:`) count as non-trivial",
    trivial=lambda c, o: not ("H" in o or "ok:" in o),
    out_kind=lambda o: (("broken:" + o.rsplit("broken=", 1)[1]) if not o.endswith("broken=-") else ("conn-ok" if "ok:" in o else "conn-no-answer")) if "| srv=" in o else ("map-full" if "full" in o else ("map-routed" if "H" in o else "map-other")),
    trusted=[
        "Model/StreamMap.lean transcribes connection.rs:2296-2450 (HashMaps as association lists observed through get/erase/insert, orphan timestamps dropped); Model/Conn.lean transcribes connection.rs:136-223, 1541-1786 with each critical section of reader/writer/orphaner as one atomic step",
        "abstract server: answers only stream ids it has received, at most once each; tokio mpsc/oneshot: FIFO, close-on-drop; the bounded submit channel is modelled by the `submitFull`/`enqueue` events",
        "end-to-end schedules are deterministic (current-thread runtime, futures polled by the test, settle = 16 yields); the driver Drive/C02.lean maps each schedule operation to model events",
    ],
    assumptions=[
        "the server does not answer a stream id before it has received the request frame carrying it (a frame on an id that is allocated but still in the writer's buffer is outside the property)",
    ],
    partial=[],
    shrink=dict(head_words=1, sep=";"),
    chunk=3000,
)

PROPS["C18"] = dict(
    lean_modules=["ScyllaVerif.Props.C18"],
    level_text="Theorems (Props/C18.lean) prove, for every interleaving of any number of threads running the load / compute_next / compare_exchange loop and for every clock behaviour (stalled, repeated, backwards, pre-epoch - the clock is an arbitrary input of each compute step), that the values installed by successful CASes are strictly increasing (hence pairwise distinct, and strictly increasing along each thread's own calls), and that an explicit statement timestamp is chosen in preference to the generator. Tied to timestamp_generator.rs by single-thread runs under a scripted clock compared value by value, and multi-thread runs validated as model traces (membership) plus a distinct/increasing oracle.",
    level_note="Trusted: Lean kernel + standard axioms; hand-written model Model/Timestamp.lean; sequential consistency of the SeqCst AtomicI64 operations; values stay below 2^63 (last + 1 does not overflow; ~year 294000); the scripted clock hook (one shadowing line in compute_next, cfg(scylla_verif)). The statement-timestamp preference (connection.rs) is proved on the model and is tied to the code only by the mock-node run of C07/C14 when present.",
    rule="case = (single-thread script, calls) or (threads x scripts, calls); distinct case lines count as non-trivial when the clock script makes at least one reading not exceed the previous timestamp (stall / backwards / pre-epoch), i.e. the output contains two consecutive values differing by exactly 1",
    trivial=lambda c, o: not any(b - a == 1 for part in o.split("|") for a, b in zip([int(x) for x in part.split(",") if x.lstrip("-").isdigit()], [int(x) for x in part.split(",") if x.lstrip("-").isdigit()][1:])),
    trusted=[
        "Model/Timestamp.lean transcribes timestamp_generator.rs:96-157 (compute_next, next_timestamp CAS loop) and the `statement.get_timestamp().or_else(generator)` choice of connection.rs",
        "sequential consistency of AtomicI64 SeqCst load / compare_exchange (each is one atomic step of the model)",
        "verif_hooks::clock scripted clock (thread-local), which replaces only the SystemTime::now() reading",
    ],
    assumptions=["timestamps stay below i64::MAX (no overflow of last + 1)", "multi-thread correspondence is membership: the observed per-thread value lists must be producible by some interleaving of the model"],
    partial=["explicit_timestamp_wins is proved on the model; its tie to connection.rs is by the mock-node end-to-end run (C07/C14 harness), not by the hook-level check"],
    chunk=400,
)


def _c06_out_kind(o):
    if o.startswith("A="):
        w = o.split(" ")
        n = 0 if w[0] == "A=-" else len(w[0].split(","))
        r = w[2][2:]
        r = "err:last" if r.startswith("err:last") else r.split(":")[0] if r.startswith(("ok", "ignored")) else r
        return "fiber attempts=%d %s" % (n, r)
    last = o.split(" ")[-1] if o else ""
    return "dec last=" + last.split(":")[0]


PROPS["C06"] = dict(
    level_text="Theorems (Props/C06.lean) prove, for every plan (targets with or without a connection), every history of per-attempt outcomes of any length (every RequestAttemptError / DbError variant with arbitrary field values), the idempotence flag, the initial consistency and each of the three built-in retry policies: a request not marked idempotent gets attempt k+1 only if attempt k failed with unavailable / bootstrapping / no free stream id / read timeout (never after a broken connection, overloaded / server / truncate error or write timeout); the default policy makes at most one attempt at serial consistency; attempts <= plan length + 2 / 1 / 0 same-node retries (so the loop terminates: the model's fuel is proved never exhausted); the fiber sends exactly 1 + (number of retry decisions) attempts unless the plan ran out, on the target and at the consistency the decision named; fallthrough sends one attempt. The models are tied to retry/*.rs and execution.rs by a differential run (exhaustive decision tables over all reachable session states + the real run_request_no_side_effects over synthetic targets) with an oracle written from the property text.",
    level_note="Trusted: Lean kernel + {propext, Classical.choice, Quot.sound}; hand-written models Model/Retry.lean, Model/Exec.lean (tie = differential harness through the cfg(scylla_verif) pass-throughs request_info / run_request). The transparent re-prepare inside one attempt is C14, speculative fibers are C13.",
    lean_modules=["ScyllaVerif.Props.C06"],
    rule="case = (dec: policy, idempotence, history of (consistency, error) fed to one retry session) or (run: policy, idempotence, initial consistency, plan, scripted outcomes) or (runx: the same under a scripted test retry policy); distinct case lines whose implementation output contains a retry/ignore decision or at least one attempt count as non-trivial",
    trivial=lambda c, o: o in ("-", "bad-case") or o.startswith("A=- "),
    out_kind=_c06_out_kind,
    trusted=[
        "Model/Retry.lean transcribes default.rs:57-170, downgrading_consistency.rs:54-214, fallthrough.rs:30-32 (i32 fields as Int: only compared, never computed with); Model/Exec.lean transcribes execution.rs:525-650 (one fiber; labelled continue/break as recursion on (rest of plan, same target))",
        "the hook's synthetic targets either always or never yield a connection; a target whose pool breaks between two same-target attempts is outside the correspondence (the model treats it like the code: next target, nothing sent)",
        "run_request_once is scripted: the k-th call returns the k-th scripted outcome; what an attempt does on the wire (incl. the re-prepare after UNPREPARED) is C14's subject",
    ],
    assumptions=[
        "no speculative execution policy (single fiber); no client-side request timeout (the timeout only cuts a history short)",
        "the retry policy is one of DefaultRetryPolicy, DowngradingConsistencyRetryPolicy, FallthroughRetryPolicy",
    ],
    partial=[
        "DESIGN X(c) (thorough tier: the same histories injected end-to-end by the mock cluster, counting QUERY/EXECUTE/BATCH frames) is not built: the execution loop is tied at RequestExecutionParams::run_request_no_side_effects with a scripted run_request_once, so 'one run_request_once call = one request frame' is C14's/C09's subject, not re-checked here",
    ],
    explanation="dec cases: exhaustive decision tables (112 error classes with concrete boundary field values x idempotence x 11 consistencies x every session state reachable by flag-setting histories of length <= 3 (default) / <= 2 + sampled 3 (downgrading; all of length 3 in the thorough tier)) against the real RetrySession objects, plus random histories of length <= 7. run cases: the real run_request_no_side_effects over synthetic targets (plans of 0..5 targets incl. targets without a connection): exhaustive outcome sequences of length <= 2 (thorough 3) over a 14-letter alphabet on all plans of length <= 3, directed same-error-forever and flag-order histories, random histories of length <= plan + 3; the retry policy is wrapped in a recording policy, the oracle checks the property text on the attempt log (re-send of a non-idempotent request only after a proof error, default/serial <= 1 attempt, attempts <= plan + 2/1/0, attempts = 1 + retry decisions unless the plan ran out, target and consistency of every attempt as decided, session consulted with the right error/idempotence/consistency, one session). runx cases: the same loop under a scripted test RetryPolicy so that every decision arm is driven with every consistency (no built-in policy returns RetryNextTarget(Some)). A scratch-copy mutation self-test (24 seeded changes to default.rs / downgrading_consistency.rs / execution.rs) was detected 24/24 (20 by the oracle with a replayable case, 4 behaviour changes that do not violate the property text by the model diff).",
    shrink=dict(head_words=3, sep=";"),
    chunk=6000,
)


def _c15_out_kind(o):
    if o.startswith("ok "):
        return "payload ok" + (" (no replicas)" if o.endswith(":-") else "")
    if o.startswith(("err ", "absent")):
        return "payload " + o
    if o and o[0].isdigit():
        return "exh digest"
    if "panic" in o:
        return "tab with panic (ill-formed insert)"
    return "tab" if ";" in o or o in ("n", "a") else o.split(" ", 1)[0]


PROPS["C15"] = dict(
    level_text="Theorems (Props/C15.lean) prove, for every history of inserts and maintenance steps of any length over unbounded tokens: the tablet list stays sorted with prev.last < next.first and first <= last (so the standard library's binary search - modelled loop by loop - is applied to a partitioned list: its precondition is a lemma, not an assumption); tablet_for_token answers exactly the latest insert covering the token unless a later insert overlapped it or maintenance discarded it (refinement to a history-based spec; never a stale answer); an insert removes exactly the overlapping tablets; per-datacenter replicas are the order-preserving filter of the full replica list; an accepted payload (a, b] becomes [a+1, b] with a < b and is rejected iff b <= a. The model is tied to tablets.rs by a differential run (exhaustive histories over a 6-token universe, long random histories over full i64, maintenance, TabletsInfo, payload bytes) with a brute-force history shadow as oracle.",
    level_note="Trusted: Lean kernel + {propext, Classical.choice, Quot.sound}; hand-written model Model/Tablets.lean (tie = differential harness through the cfg(scylla_verif) pass-through VerifTablets / raw_tablet_from_payload); Arc<Node> identity modelled by a generation counter; HashMaps as association lists (only looked up by key, dumps sorted).",
    lean_modules=["ScyllaVerif.Props.C15"],
    rule="case = one history (tab), one payload cell (payload) or one exhaustive subtree (exh); distinct case lines whose implementation output contains at least one answered lookup / non-empty dump / accepted-or-rejected payload / visited history count as non-trivial",
    trivial=lambda c, o: o in ("-", "bad-case", "absent") or (c.startswith("tab ") and ":" not in o),
    out_kind=_c15_out_kind,
    trusted=[
        "Model/Tablets.lean transcribes tablets.rs:66-122 (payload), 135-169, 252-324, 369-469, 523-538, 598-662 and core::slice::binary_search_by/partition_point of the toolchain's std (1.95: fixed-iteration base/size loop)",
        "Vec::drain(left..right) with left > right panics before mutating (only reachable with an ill-formed tablet first > last, which from_custom_payload never produces); the model's add returns `none` there and the driver prints `panic`",
        "the node set / keyspace list handed to maintenance are explicit arguments (what ClusterState computes from old/new known_nodes is cluster/state.rs:375-405, outside this model)",
    ],
    assumptions=[
        "every inserted tablet has first <= last (proved for everything from_custom_payload accepts: payload_range); tokens are unbounded integers in the theorems (the code compares i64 only, the +1 overflow is excluded by payload_range)",
    ],
    partial=[],
    shrink=dict(head_words=1, sep=";"),
    chunk=1500,
)


def _c13_out_kind(o):
    if o in ("true", "false", "HANG", "PANIC", "bad-case"):
        return o
    w = o.split(" ")
    if o.startswith("starts="):
        n = w[0].count(",") + 1
        res = w[2].split(":")[0].replace("res=", "")
        return "spec started=%d %s" % (n, res)
    if o.startswith("att="):
        n = 0 if w[0] == "att=-" else w[0].count(",") + 1
        res = w[1].split(":")[0].replace("res=", "")
        return "gate attempts=%s %s %s" % (n if n < 4 else "4+", res, w[3])
    return w[0]


PROPS["C13"] = dict(
    level_text="Theorems (Props/C13.lean) prove for EVERY schedule (any list of events timerFires / pop i / send i / attemptDone i / complete i outcome; impossible events are no-ops, ties between the timer and a completion are both orders) of the select!-loop state machine of speculative_execution::execute behind the idempotence gate of run_request_no_side_effects, for every policy and plan: a non-idempotent request (or one without a policy) has exactly one execution, at most one running fiber and at most one attempt on the wire at every point (nonidempotent_single_fiber); at most 1+max executions are started, never one after a fiber reported the plan exhausted (started_le, no_start_after_exhaustion); the shared plan hands every target out at most once, in plan order, so the attempts on the wire are on pairwise distinct targets (handed_is_plan_prefix, distinct_targets, outstanding_attempts_distinct); the returned value is the first consumed result that is a success or definitive error, otherwise the last error (EmptyPlan if none) and then only when nothing runs and nothing may be started, and conversely it has returned as soon as that holds (result_spec, first_real_answer_wins, otherwise_last_error, returns_when_exhausted); a not-yet-returned call always has a running fiber or an armed timer that will start one (never_waits_on_nothing - the all-branches-disabled state in which select! would panic and the useless-timer-only state are unreachable) and every fair infinite schedule returns after at most 4+3*max select! branches (always_returns, branches_bounded); can_be_ignored is stated outright over the whole error universe (canBeIgnored_err_iff). The model is tied to the code by a differential run in virtual time (tokio paused clock): the real execute over scripted fibers (exhaustive delay x outcome grids incl. ties, 1-5 fibers, max 0..4) and the real run_request_no_side_effects (gate + SharedPlan + real fibers, scripted retry policy) over synthetic targets, with a model-independent oracle.",
    level_note="Trusted: Lean kernel + {propext, Classical.choice, Quot.sound}; hand-written model Model/Speculative.lean (tie = differential harness through the cfg(scylla_verif) pass-throughs speculative::execute / can_be_ignored / exec::run_request). Partial: futures::select!'s pseudo-random choice among ready branches is the model's tie nondeterminism (the model driver explores every order of simultaneous wake-ups and acts as a checker there); tokio's timer and FuturesUnordered are trusted to deliver wake-ups in virtual-time order; a fiber is abstract in the theorems (it pops targets, has at most one attempt outstanding, eventually completes - its retry logic is C06); Session-level glue (how is_idempotent and the policy reach RequestExecutionParams) and real sockets are not exercised (no mock-node end-to-end run).",
    lean_modules=["ScyllaVerif.Props.C13"],
    rule="case = one classification query (ign), one scripted schedule of synthetic executions through speculative_execution::execute (spec), or one scripted plan through run_request_no_side_effects (gate); every distinct case line counts (each returns a value, an error kind or HANG)",
    trivial=lambda c, o: o in ("bad-case",),
    out_kind=_c13_out_kind,
    trusted=[
        "Model/Speculative.lean transcribes speculative_execution.rs:108-155 (can_be_ignored), 165-218 (execute: retries_remaining, FuturesUnordered as the list `running`, the fused sleep as `sleepArmed`, last_error, the None branch, the return test), error.rs:451-488 (can_speculative_retry), execution.rs:71-86 (SharedPlan = one popped list), 417-484 (the gate; the single-fiber arm `.await.unwrap_or(Err(EmptyPlan))` is the same machine with retries 0 and no timer), 519-644 (a fiber seen from outside)",
        "futures::select! polls the ready branches in pseudo-random order: at one virtual instant every order of the pending wake-ups (timer, fibers) is explored by Drive/C13.lean and the implementation's line must be one of the results (echo) - on tie-free schedules the comparison is exact (start time of every execution, consumption order, result, return time; for gate: every attempt (time, target), result, return time, max attempts in flight)",
        "tokio::time (paused clock, ms granularity) and FuturesUnordered deliver wake-ups in deadline order; Fuse<Sleep> reports terminated after firing until re-set; FuturesUnordered::is_terminated is reset by push (the empty-async_tasks-while-retries-remain path is exercised by the corpus and the grids)",
        "the harness's oracle uses its own hand-written ignorable/definitive table (from the property statement), independent of the Lean table; harness/src/c13.rs also carries a developer self-test (`mut<k>` cases, never generated) that runs a local copy of the loop with seeded bugs through the same oracle",
    ],
    assumptions=[
        "always_returns: fairness = while the call has not returned, some enabled select! branch is eventually taken (each started fiber eventually completes, the armed timer eventually fires); some_branch_enabled shows such a branch exists in every reachable state; retry_interval is finite",
        "distinct_targets / outstanding_attempts_distinct: the plan itself has no duplicates (C05)",
    ],
    partial=[
        "tie resolution of futures::select! is nondeterministic: checked by membership, not equality, on schedules with simultaneous events",
        "end-to-end (Session, pools, sockets, mock-node delays) not built: the gate is exercised through verif_hooks::exec::run_request (the real run_request_no_side_effects with synthetic targets)",
    ],
    shrink=dict(head_words=3, sep=" "),
    chunk=6000,
)

PROPS["C08"] = dict(
    level_text="Theorems (Props/C08.lean) about a total Lean model of the response decoders (primitive readers, frame header, body extensions, every response kind, result/prepared metadata, binary and custom-string column type parsers, raw rows): every decoder terminates with ok or err (no other outcome exists), requested allocation is proportional to the input, recursion depth is bounded, well-formed responses round-trip, truncated primitives are errors. The model is tied to the code by a differential run over well-formed frames of every kind, all their truncation points, field-aware mutations, deep nesting, custom type strings and random bytes, with a model-independent oracle (panic, hang watchdog, counting allocator, process death, well-formed frame decodes to what was encoded).",
    level_note="Trusted: Lean kernel + {propext, Classical.choice, Quot.sound}; hand-written model (tie = differential harness on the public API of scylla-cql). LZ4/Snappy are external crates: the decompressed body is a parameter of the model (handed over by the harness). Typed column VALUE decoding is C01's model: here it is only driven for the crash/hang/allocation oracle. Not claimed: read_response_frame reserving the header-announced length (frames announcing > 1 MiB more than is present are not handed to it); custom type strings with non-ASCII characters are not modelled (implementation still run under the oracle).",
    lean_modules=["ScyllaVerif.Props.C08"],
    rule="case = (features, cached-metadata flag, negotiated compression, frame bytes) or (primitive reader, bytes); distinct case lines whose implementation output is not a header-level error count as non-trivial",
    trivial=lambda c, o: o.startswith("err hdr."),
    out_kind=lambda o: (lambda w: ("err " + ".".join(w[w.index("err") + 1].split(".")[:2]) if "err" in w else next((x for x in w if x.isupper() or x in ("ok",)), w[0] if w else "")))(o.split(" ")[:12]) if o else "",
    chunk=2500,
    trusted=[
        "Model/ReadPrim.lean, TypeParser.lean, Response.lean, FrameHdr.lean transcribe scylla-cql(-core) frame/types.rs, frame/mod.rs, response/{mod,result,event,supported,authenticate,custom_type_parser}.rs, response/error.rs, deserialize/{result,row}.rs (raw cells only)",
        "UTF-8 validation: Lean's ByteArray.validateUTF8 stands for str::from_utf8 (validated differentially on boundary strings); Uuid::try_parse modelled from the uuid crate's parser",
        "LZ4/Snappy decompression is a parameter of the model (the harness hands the decompressed body over); only the size guard in front of LZ4 is modelled",
    ],
    assumptions=[
        "frames whose header announces more than 1 MiB beyond the bytes present are not handed to read_response_frame (its up-front reservation is the driver's own TODO, outside C08)",
        "rows of a result with zero columns are iterated up to 1000 (each costs no input byte; rows_count is only bounded by i32::MAX)",
    ],
    partial=[
        "wellformed_roundtrip is proved for the primitives ([short], [int], [string], [bytes]/null) and the kinds READY, AUTHENTICATE, AUTH_CHALLENGE, AUTH_SUCCESS, RESULT/Void, RESULT/SetKeyspace (wellformed_roundtrip_partial); for ERROR, SUPPORTED, EVENT, RESULT/Rows, /Prepared, /SchemaChange it is checked per run by the harness oracle against an independent encoder, not proved",
        "truncation_is_error is proved for [short], [int] and [string] (readString_truncation); for whole responses it is covered by the exhaustive truncation cases of the differential run",
        "alloc ghost counts capacity REQUESTS (with_capacity / reserve) in element slots, not bytes copied while parsing (those are bounded by the bytes consumed)",
    ],
)

PROPS["C01"] = dict(
    level_text="Theorems (Props/C01.lean) prove, for every CQL type (natives, list/set/map, tuple, UDT, fixed- and variable-width vector, arbitrarily nested), every value and every output buffer, that the placeholder/back-patch serializer (encImpl) appends exactly the bytes of the CQL v4 definition length++content (encSpec) and fails with the same error kind; that null/unset/empty cells are ff ff ff ff / ff ff ff fe / 00 00 00 00; that content above i32::MAX bytes is SizeOverflow; that zig-zag + vint round-trip for every i64 and every continuation; the round trip decVal(encSpec v) = pad v on the decidable domain wfVal, encode totality on that domain (only SizeOverflow/TooManyElements can fail), and carrier_factor: every typed carrier's own serializer (scalars, Option, MaybeUnset, MaybeEmpty, Vec, sets, maps, tuples, CqlValue, nested) equals the dynamic serializer of its embedding. The model is tied to serialize/value.rs, writers.rs, deserialize/value.rs, frame_slice.rs, frame/types.rs by a differential run (dynamic CqlValue over all types, ~80 typed Rust carriers incl. chrono/time/num-bigint/bigdecimal/secrecy, malformed decoder input) with an oracle that is independent of the model (own protocol encoder + decode(encode v) == pad v).",
    level_note="Trusted: Lean kernel + {propext, Classical.choice, Quot.sound}; hand-written models Model/Vint.lean, Model/Cql.lean, Model/Codec.lean (tie = differential harness on the public API of scylla-cql-core, no hook). UTF-8 validity is a parameter `u` of the decoder model (the driver uses Lean's ByteArray.validateUTF8). Three shapes on which the current tree violates the round trip are known findings C01-F1, C01-F2, C01-F9 (counterexample theorems + corpus witnesses); C01-F8 was repaired in /repo (808d80c) and is a regression case.",
    lean_modules=["ScyllaVerif.Props.C01"],
    rule="case = (kind dyn|carrier|carrierset|dec, CQL type, value or cell bytes); distinct case lines whose implementation output is not an error line count as non-trivial",
    trivial=lambda c, o: o.startswith("err ") or o == "bad-case",
    out_kind=lambda o: ("err-" + o.split(" ")[1]) if o.startswith("err ") else ("decode-" + o.split(" -> err ")[1] if " -> err " in o else ("roundtrip-ok" if " -> " in o else ("cell" if o[:1] in "0123456789abcdef" else o.split(" ")[0]))),
    chunk=2500,
    trusted=[
        "Model/Codec.lean transcribes serialize/value.rs:93-706,750-1150, serialize/writers.rs:103-218, deserialize/value.rs:67-248,296-800,923-1593,1748-2092, deserialize/frame_slice.rs:151-195, frame/types.rs:174-218; Model/Vint.lean transcribes frame/types.rs:255-305",
        "u64::leading_zeros modelled as 64 - bit length (Nat.log2); u8::leading_ones as a comparison chain proved equal to the bitwise count (leadingOnes8_spec)",
        "error values are compared as kinds (innermost kind of the Rust error chain)",
        "typed Rust carriers: Model/TypedCarrier.lean transcribes the typed SerializeValue impls (value.rs:93-621, 847-930) and carrier_factor reduces them to encImpl of the embedding; the harness rebuilds each Rust value from its embedding (harness/src/c01/carrier.rs) and compares bytes with the model and the typed decode with the original value",
        "chrono/time/num-bigint/bigdecimal/secrecy carriers are differential-only (harness/src/c01/external.rs): their conversions to the core carriers are not modelled; value ranges are restricted to what the external types can represent",
    ],
    assumptions=[
        "round trip domain wfVal: value has the shape of the type; text is UTF-8, ascii is ASCII; time in 0..=86399999999999; varint has at least one byte; tuple/UDT types have at least one field, vector dimension > 0 (no such CQL types exist otherwise); UDT type field names distinct and every value field named in the type",
        "cells above i32::MAX bytes are covered by theorems only (not by the differential run)",
    ],
    partial=[
        "roundtrip_partial / roundtrip_cell_partial: the full round-trip statement (every value with the shape of the type) is false of the current tree on three shapes, each with a proved counterexample theorem and a corpus witness replayed on the real code: C01-F1 zero-field tuple value for a non-empty tuple type (roundtrip_counterexample), C01-F2 null/unset element directly inside a vector (carrier_counterexample), C01-F9 `empty` element of a fixed-width vector (vector_empty_element_counterexample); wfVal excludes exactly these (and non-CQL degenerate types)",
        "carrier_factor covers serialization; the typed DeserializeValue impls are not modelled in Lean (typed decode == original value is checked by the harness oracle on every carrier case)",
        "cells above i32::MAX bytes: error branch proved (size_overflow_*, encode_total), not exercised by the differential run",
    ],
)

PROPS["C19"] = dict(
    level_text="Theorems (Props/C19.lean, invariant in Proofs/MergeChannel.lean) prove, for EVERY interleaving of the atomic steps of Sender::modify / Drop for Sender / Receiver::recv / cancellation of a suspended recv / Drop for Receiver (a transition system with one program counter per endpoint, so also for two OS threads under sequential consistency): received ++ in-flight ++ slot = merged (each merged update in exactly one received value, in order, none lost or duplicated; received values non-empty); a parked consumer with a pending value or a dropped sender has been notified AND its waker woken, or the producer's next step is that notify_one (no lost wake-up, cancel/restart included; a cancelled notified wait re-stores the permit); recv returns None only at a step where the sender is dropped, the slot is empty and everything merged was already returned; modify observing receiver_dropped returns SendError without applying f, and nothing is ever applied afterwards; every MetadataUpdate::merge_* keeps all refresh reply channels (list equality) and the newest topology wins. The models are tied to merge_channel.rs / update.rs by a differential run: the real channel polled manually with a counting waker over all legal poll-granularity interleavings to depth 8 (quick) / 10 (thorough) plus long random ones, UpdateSlot op sequences, and a 2-thread stress run, with a model-independent oracle.",
    level_note="Trusted: Lean kernel + {propext, Classical.choice, Quot.sound}; hand-written models Model/MergeChannel.lean, Model/MetaUpdate.lean (tie = differential harness through the cfg(scylla_verif) pass-throughs verif_hooks::merge_channel); the tokio::sync::Notify contract N1-N5 written out in Model/MergeChannel.lean (validated at poll granularity by the differential run incl. wake counts, not verified); sequential consistency of the flag atomics / the slot mutex / Notify. The differential run cannot interleave INSIDE modify/recv; that is covered by the theorems only and sampled by the stress run.",
    lean_modules=["ScyllaVerif.Props.C19"],
    rule="case = (chan: sequence of producer/consumer operations at poll granularity | slot: sequence of merge_* / take operations | stress: n merges on a second OS thread); distinct case lines with at least one received value, pending poll, or non-empty take count as non-trivial",
    trivial=lambda c, o: not ("ready[" in o or "pending" in o or "full " in o or "partial " in o or o.startswith("received=")),
    out_kind=lambda o: ("stress" if o.startswith("received=") else "bad-case" if o == "bad-case" else
                        "chan:" + "+".join(k for k in ("ready[", "pending", "none:", "senderror", "cancelled", "rxdropped", "dropped:") if k in o).replace("[", "").replace(":", "")
                        if (":" in o.split(";")[0] and "=" not in o.split(";")[0]) else
                        "slot:" + "+".join(k for k in ("full ", "partial ", "none ") if k in o).replace(" ", "")),
    trusted=[
        "Model/MergeChannel.lean transcribes merge_channel.rs:45-54, 102-129, 149-182 (one atomic step per shared-memory access, in the code's order); Model/MetaUpdate.lean transcribes update.rs:74-85, 89-191, 258-265 and metadata/mod.rs:349-370 (Metadata/peer list abstracted to a topology tag, reply channel to the refresh id, HashMaps to association lists)",
        "tokio::sync::Notify (tokio 1.53.1 notify.rs) contract N1-N5: one stored permit; notify_one unlinks+marks the registered waiter (waking its waker if it stored one) else sets the permit; enable() consumes the permit or registers without waker; poll: Done/notified -> Ready, else store waker, Pending; dropping a Waiting future unlinks it and, if it was notified by notify_one but never polled, re-stores the permit; each of these is one atomic step",
        "sequential consistency: every access to slot (std Mutex), sender_dropped / receiver_dropped (Release/Acquire AtomicBool) and Notify is one indivisible step of an interleaving",
        "only a suspended recv() future can be dropped (never polled, or parked at line 173); Drop for Receiver needs no recv future alive (the &mut borrow)",
        "merge_client_routes_update / ClientRoutes::merge are modelled and covered by the theorems but have no pass-through, so they are not in the differential run",
    ],
    assumptions=[
        "single producer, single consumer (both endpoints are !Clone and their methods take &mut self): at most one Notified waiter",
        "the closure passed to modify does not panic and leaves the slot Some (true of the hook's push and of every MetadataUpdate::merge_*: merge_fills_slot); a closure leaving None is not modelled",
        "no_lost_wakeup is a safety statement (notified and woken, or the notify is the producer's next step); that the runtime polls a woken task and that threads keep being scheduled is assumed",
    ],
    partial=[
        "the differential run drives the channel at poll granularity only (it cannot preempt inside modify/recv); the finer interleavings are covered by the theorems under the Notify/SC assumptions and sampled by the 2-thread stress cases",
        "end-to-end Session::refresh_metadata against a mock cluster (DESIGN X, thorough) is not part of this check",
    ],
    shrink=dict(head_words=1, sep=";"),
)

PROPS["C04"] = dict(
    level_text="Theorems (Props/C04.lean) prove for every token ring sorted by token (duplicate tokens allowed), every node placement (datacenter, rack, rack-less and datacenter-less nodes, vnodes), every token, every replication factor (0 .. above the node count) and every set S of precomputed keyspace strategies: the driver's SimpleStrategy walk is the first RF distinct nodes clockwise (simple_eq_spec); its NTS iterator (replicas_left / used_racks / acceptable_repeats) computes the stated per-datacenter rack rule (nts_eq_spec) and yields exactly min(RF, nodes) replicas (nts_len); the prefix properties behind the precomputed lists (simple_prefix, nts_prefix up to the rack count) and the snap of a token to its ring member (ringRange_snap); the locator's answer (compressed list / per-RF list / global max-RF list with prefix lookup / on-the-fly fallback) equals the on-the-fly walk for every strategy whether or not it was precomputed (precomputed_eq_onthefly*); restricting to a datacenter equals filtering the unrestricted answer (dc_restrict_eq_filter_*); and for every replica set len = |iter|, choose(i) = iter[i], the ring-ordered view is a permutation of iter and a subsequence of the distinct nodes clockwise from the token (views_agree). The model is tied to routing/locator/*.rs and cluster/state.rs by a differential run through ClusterState::new (hook cluster_from_topology) with a brute-force oracle of the two placement rules.",
    level_note="Trusted: Lean kernel + {propext, Classical.choice, Quot.sound}; hand-written models Model/Ring.lean, Model/Replicas.lean (tie = differential harness: exhaustive small universe + random topologies, every view of ReplicaSet, get_token_endpoints). Agreement with the servers' placement is by the rule in the property statement (specSimple / specNtsDc). Tablets are C15. Shards of the returned (node, shard) pairs are not compared (pool-less nodes: C11/C12).",
    lean_modules=["ScyllaVerif.Props.C04"],
    rule="case = (topology, precomputed keyspace strategies, queried strategy, datacenter restriction, token); distinct case lines whose replica set is non-empty count as non-trivial",
    trivial=lambda c, o: o.startswith("len=0 ") or o in ("bad-case", "PANIC"),
    out_kind=lambda o: "bad-case" if not o.startswith("len=") else (lambda f: ("len=%s" % (f[0][4:] if int(f[0][4:]) < 5 else "5+")) + (" ord!=iter" if f[1][5:] != f[3][4:] else ""))(o.split(" ")),
    trusted=[
        "Model/Ring.lean transcribes token_ring.rs:15-60 (partition_point on a sorted slice = index of the first token >= tok), itertools unique (first occurrence wins), Token::new; Model/Replicas.lean transcribes replication_info.rs:62-202, precomputed_replicas.rs:80-210, locator/mod.rs:62-271, 314-434, 436-589, 694-935 (ReplicaSetIterator::nth / size_hint are not modelled: nth is checked by the harness oracle against the iteration), cluster/state.rs:504-530",
        "HashMap<String, usize> of NTS = association list with distinct keys; HashMap/BTreeSet/HashSet iteration orders are irrelevant where the code uses them (sums, maxima, set membership) - datacenter and rack names are abstracted to numbers (only compared for equality)",
        "std: stable sort_by_key, slice::partition_point on a partitioned slice; rand 0.9 random_range(0..len) = (u32 * len) >> 32 (the harness scripts the RNG to sweep every index); node identity = host_id",
    ],
    assumptions=[
        "the ring is sorted by token (established by TokenRing::new: ring_sorted); NTS datacenter keys are distinct (a HashMap); no other hypothesis - in particular none about duplicate tokens since the repair ad6cb90",
    ],
    partial=[
        "ReplicaSetIterator::nth and size_hint, choose_filtered's fallback through IteratorRandom::choose, and the (node, shard) pairing are outside the model; the harness oracle checks nth(k) = k-th iterated replica and that choose_filtered respects its predicate",
    ],
    chunk=3000,
    shrink=dict(head_words=1, sep=";"),
)


def _c07_out_kind(o):
    if not o.startswith("rows="):
        return o.split(" ", 1)[0]
    w = o.split(" ")
    rows = 0 if w[0] == "rows=-" else w[0].count(",") + 1
    fin = w[1][4:]
    reqs = 0 if w[2] == "log=-" else w[2].count(",") + 1
    rb = "0" if rows == 0 else "1-6" if rows <= 6 else "7-50" if rows <= 50 else "51-200"
    qb = "1" if reqs == 1 else "2-4" if reqs <= 4 else "5-20" if reqs <= 20 else "21+"
    return "fin=%s rows=%s requests=%s" % (fin, rb, qb)


PROPS["C07"] = dict(
    level_text="Theorems (Props/C07.lean; invariants in Proofs/Pager.lean) about a transition system of the pager - producer loop with its program counter, capacity-1 channel, consumer with current page and row cursor, first page fetched on the caller's task - prove for EVERY server script (any page sizes incl. empty pages and an empty last page, any paging-state bytes), EVERY sequence of per-attempt outcomes (success, retried failure, final failure, ignored error) and EVERY interleaving of producer steps, polls and the drop of the pager: rows_exact_prefix / rows_exact (the rows handed out are always a prefix of the pages' rows in server order; if the stream ended with None without an error and no IgnoreWriteError decision was taken it handed out all of them - accounting invariant delivered ++ current page ++ channel ++ page held by send ++ pages not yet fetched ++ pages given up = all rows); paging_state_chain / paging_requests_in_order (every request for page k, first attempt or retry, before or after a drop, carries the state returned with page k-1, none for k=0; requests are in page order); error_after_earlier_rows / first_page_error / error_at_most_once / nothing_after_end_or_error (a non-retried failure on page k surfaces once, after exactly the rows of pages < k, then the stream ends; a first-page failure is the constructor's error); terminates_poll / bounded_work / no_deadlock_reachable / terminates / eager_consumer_gets_everything (no pending page and producer done -> None; a measure strictly decreases on every effective step; no deadlock; under round-robin scheduling the stream ends within measure(init) rounds); prefetch_bound / early_drop_stops_producer (at most 2 pages prefetched; after a drop nothing is delivered or enqueued and only the page request in flight is finished); conn_rows_exact (the single-connection pager needs no side condition); ignore_truncates_silently (an IgnoreWriteError decision ends the stream without error - why rows_exact excludes it). The model is tied to pager.rs by a differential run of the REAL pagers against a scripted CQL server over loopback TCP: Connection::execute_iter (SingleConnectionPagingExecutor) and Session::execute_iter (PagingExecutor, default retry policy, one-node mock cluster), with an oracle computed from the script and the frames the server received.",
    level_note="Trusted: Lean kernel + {propext, Classical.choice, Quot.sound}; hand-written model Model/Pager.lean (tie = differential harness: real QueryPager/TypedRowStream over a real Connection / Session against harness/src/mocknode.rs on a current-thread tokio runtime); tokio mpsc(1) semantics (one buffered item, send waits, receiver drop fails send and discards the buffer, sender drop lets the receiver drain then see None) and task scheduling are represented by arbitrary interleaving of atomic steps - real wake-ups are exercised only by the differential run; the retry policy is represented by per-attempt outcomes (C06 owns its model); drop cases are checked as membership (request log between the laziest and the most eager producer). Only prepared statements are driven (Session::query_iter's unprepared pager shares PagingExecutor::query_remaining_pages but its page_query closure is not exercised); node switches need a multi-node mock cluster and are not in the differential run (the chain theorem covers them: the state does not depend on the target).",
    lean_modules=["ScyllaVerif.Props.C07"],
    rule="case = (pager kind pg|sess, skip-metadata flag, consumer eager|slow|drop after k rows, page script: rows per page, paging state returned, faults injected before the page is served); distinct case lines whose implementation output shows at least two page requests count as non-trivial",
    trivial=lambda c, o: "," not in o.split("log=")[-1],
    out_kind=_c07_out_kind,
    trusted=[
        "Model/Pager.lean transcribes pager.rs:199-253 (query_remaining_pages), 257-296 + 372-459 (first page), 461-496 (process_next_page), 550-684 (SingleConnectionPagingExecutor: fetch_one_page, page_from_outcome, fetch_remaining_pages), 718-791 (QueryPager::next, poll_fill_page, poll_next_page), 1089-1163 (new_for_connection_execute_iter), 872-915/1015-1083 (channel creation, worker spawn); one atomic step per producer await point (one fetch attempt, one send) and per consumer poll; the producer's return and the drop of its Sender are one step with its last send",
        "connAttempts / sessAttempts (Model/Pager.lean) map the harness's server faults to attempt outcomes: connection.rs:1046-1145 (one transparent re-execute after UNPREPARED), FallthroughRetryPolicy for the single-connection pager; DefaultRetryPolicy on a one-node plan for the session pager (digest-only ReadTimeout retried once per page on the same target, everything else final because RetryNextTarget exhausts the plan); a non-Rows first response of the session pager = empty stream (pager.rs:436-454)",
        "tokio::sync::mpsc::channel(1): FIFO of capacity 1, send suspends when full, Receiver drop closes the channel (pending and later sends fail, buffered items are discarded), Sender drop lets the receiver drain the buffer and then return None; tokio::spawn runs the producer concurrently with the consumer (any interleaving)",
        "harness/src/mocknode.rs: scripted CQL v4 server (independent frame codec); pages are served by position, the paging state presented with every EXECUTE is recorded; the session family answers the control connection's system.peers / system.local queries itself (schema fetch disabled)",
        "ghost fields of the model state (taken, lost, ignored) are written but never read by the transitions",
    ],
    assumptions=[
        "rows_exact: no attempt is answered with IgnoreWriteError (hypothesis `Attempt.ignore not in faults`; proved unnecessary for the single-connection pager: conn_rows_exact). For the session pagers an IgnoreWriteError decision on a page request ends the stream silently (pager.rs:220-226) - theorem ignore_truncates_silently; reachable only with a retry policy that ignores write errors and a server answering a read with a write error",
        "the server answers the k-th successful fetch with the k-th scripted page (a deterministic function of the request number; the chain theorem shows the presented state is the one of page k-1, so a server keyed by state sees the same thing when states are distinct)",
        "termination theorem: producer and consumer are scheduled in turn (round robin); for other fair schedules bounded_work + no_deadlock_reachable are the general statements",
        "rows are well-formed and of the prepared statement's column type (per-page type check / row deserialization errors of TypedRowStream are not modelled)",
    ],
    partial=[
        "unprepared session pager (Session::query_iter) and the control connection's own use of the pager are not driven separately (same PagingExecutor / SingleConnectionPagingExecutor code; the control connection's queries do run through the single-connection pager when the mock cluster session is built)",
        "node switch between pages / retry on the next node (coordinator stability, pager.rs:337-365) needs a multi-node mock cluster: not in the differential run; speculative execution inside a page fetch is C13",
        "client-side request timeout is exercised with real time on a few cases only (8+3 quick, 48+16 thorough)",
        "metadata-id change between pages (SCYLLA_USE_METADATA_ID) and per-page type-check failures are not scripted",
    ],
    shrink=dict(head_words=3, sep=" "),
    chunk=900,
)

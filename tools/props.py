"""Per-property configuration of the check runner (what is proved, what is tied how, what is trusted)."""

COMMON_TRUSTED = [
    "Lean 4.33.0 kernel; axioms allowed in property theorems: propext, Classical.choice, Quot.sound (audited with #print axioms on every run)",
    "no sorry/admit/axiom/native_decide/bv_decide/implemented_by/unsafe in /verif/lean (grep on every run)",
    "hand-written Lean model tied to /repo by differential correspondence (harness/src + tools/runner.py); differential testing bounds what it sees by generator quality",
    "rustc/cargo, the Rust harness (hx), python3 runner",
]

PROPS = {}
NOT_CLAIMED = {}


# One file per property: tools/props.d/Cxx.py, each assigning PROPS["Cxx"] = dict(...).
import glob as _glob
import os as _os

for _f in sorted(_glob.glob(_os.path.join(_os.path.dirname(_os.path.abspath(__file__)), "props.d", "C*.py"))):
    with open(_f) as _fh:
        exec(compile(_fh.read(), _f, "exec"))

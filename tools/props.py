"""Per-property configuration of the check runner (what is proved, what is tied how, what is trusted)."""

COMMON_TRUSTED = [
    "Lean 4.33.0 kernel; axioms allowed in property theorems: propext, Classical.choice, Quot.sound (audited with #print axioms on every run)",
    "no sorry/admit/axiom/native_decide/bv_decide/implemented_by/unsafe in /verif/lean (grep on every run)",
    "hand-written Lean model tied to /repo by differential correspondence (harness/src + tools/runner.py); differential testing bounds what it sees by generator quality",
    "rustc/cargo, the Rust harness (hx), python3 runner",
]

PROPS = {}
NOT_CLAIMED = {}

PROPS["C11"] = dict(
    level_text="Theorems (Props/C11.lean) prove for every shard count, msb_ignore<64 and i64 token that the u64 implementation equals ScyllaDB's stated algorithm and is < nr_shards; for every shard and port range that the drawable/iterable ports are exactly the ports of the range congruent to the shard (each once, any pivot/index), and that None/empty is produced iff no such port exists. The model is tied to sharding.rs by a differential run (exhaustive corner sweep + boundary/random cases) with a brute-force oracle.",
    level_note="Trusted: Lean kernel + {propext, Classical.choice, Quot.sound}; hand-written model Model/Sharding.lean (tie = differential harness through cfg(scylla_verif) pass-throughs); RNG choices are explicit model arguments (membership check). msb_ignore >= 64 (malformed SUPPORTED) is outside the property's domain.",
    lean_modules=["ScyllaVerif.Props.C11"],
    rule="case = (operation, shard count, msb/shard, token or port range); distinct case lines whose implementation output is not `none`/`-`/`0` count as non-trivial",
    trivial=lambda c, o: o in ("none", "-", "0"),
    trusted=[
        "Model/Sharding.lean transcribes sharding.rs:121-237, 85-103, 274-308; u128 product modelled on Nat (product_fits_u128)",
        "rand::rng() index/pivot are explicit arguments of the model; correspondence for draw/iter is membership (model checks the observed output is producible by some random choice)",
    ],
    assumptions=[
        "msb_ignore < 64 for shardOfImpl_eq_spec (the value range ScyllaDB sends); shard < nr_shards and hi <= 65535 (u16) for the port theorems - both enforced by the Rust types/asserts",
    ],
    partial=[],
)

PROPS["C03"] = dict(
    level_text="Theorems (Props/C03.lean) prove, for every list of chunks (empty and 1-byte chunks included), that the driver's buffered three-phase Murmur3 `write`/`finish` returns exactly the one-shot Cassandra MurmurHash3_x64_128 (signed tail bytes) token of the concatenation, normalised MIN->MAX (never i64::MIN); that for every permutation of bind markers the partition key is extracted in partition-key order (`(extract (pkIndexesOfWire wire) values)[seq] = values[wire[seq]]`, non-key markers skipped); that the token is murmur3Spec of the single component / of the composite encoding be16 len ++ bytes ++ 0 (and equals the CDC token under the CDC partitioner); that a composite component of >= 65536 bytes is rejected; and chunking independence of the CDC hasher. The models are tied to partitioner.rs / prepared.rs / result.rs by a differential run with model-independent oracles (chunked = one-shot, != i64::MIN, independent Cassandra reference, real-cluster vectors).",
    level_note="Trusted: Lean kernel + {propext, Classical.choice, Quot.sound}; hand-written models Model/Murmur3.lean, Model/PartitionKey.lean (tie = differential harness: public hashers, forged PREPARED frames through deser_prepared_metadata, PreparedStatement::calculate_token/compute_partition_key via the cfg(scylla_verif) pass-through statement_from_prepared). Fidelity of murmur3Spec to Cassandra's Java is by transliteration + the four server-derived vectors (no server in the sandbox).",
    lean_modules=["ScyllaVerif.Props.C03"],
    rule="case = (operation, bytes, chunking) or (partitioner, pk wire order, bound values); distinct case lines whose implementation output carries a token or an error kind count as non-trivial",
    trivial=lambda c, o: o in ("-", "bad-case"),
    out_kind=lambda o: ("token-err" if " tok=err" in o else "token-panic" if "tok=panic" in o else "token-none" if "tok=none" in o else "token-ok") if o.startswith("pk=") else (o.split(" ", 1)[0] if o and not (o[0].isdigit() or o[0] == "-") else "value"),
    trusted=[
        "Model/Murmur3.lean transcribes partitioner.rs:145-313 (Wrapping<i64> on UInt64: same bit patterns, right shifts are on `as u64`), 316-381 (CDC), routing/mod.rs:38-43 (Token::new)",
        "Model/PartitionKey.lean transcribes prepared.rs:782-860, 348-360, result.rs:976-984 (sort_unstable_by_key modelled by a stable sort; equal marker indexes are checked up to the order of equal keys), partitioner.rs:396-423",
        "murmur3Spec = Cassandra's MurmurHash.hash3_x64_128 one-shot form by transliteration, validated by the four (string, token) vectors obtained from a real cluster (partitioner.rs tests) - `example ... := by decide +kernel` in Props/C03.lean and `vector` cases in every run",
        "u16 arithmetic in PartitionKey::new is modelled with overflow checks on (as the harness is built): repeated marker indexes (never sent by a server) panic there, wrap in a release build",
    ],
    assumptions=[
        "extract_in_pk_order / token_formula: the marker indexes of the PREPARED frame are distinct and below the number of bound values (<= 65535), every key component is bound to a value (null/unset key components are skipped by the code; the server rejects such requests)",
        "bound_values.element_count() = col_specs.len() (enforced by serialize_values)",
    ],
    partial=[],
    chunk=3000,
)

PROPS["C09"] = dict(
    level_text="Theorems (Props/C09.lean) prove for the Lean model of the request encoder (QUERY, PREPARE, EXECUTE with/without result-metadata id, BATCH, STARTUP, REGISTER, OPTIONS, AUTH_RESPONSE; every subset of the optional fields; any value list with null/unset; any batch shape): frame_valid (version 4, flags = compression|tracing bits, spec opcode, u32 length = payload size), parse_encode (an independent parser written from the CQL v4 spec reads the emitted frame back to exactly the request: text/id, consistency, serial consistency, page size, paging state, timestamp, skip-metadata, values in order, batch statements in order with their values), compressed_body (payload decompresses to the uncompressed body, from the hypothesis decompress(compress b)=b), oversize_refused + representable_accepted (the encoder succeeds exactly on requests that fit a v4 frame: statements < 2^31 B, ids/strings < 2^16 B, <= 65535 values/statements, one value list per statement; otherwise an error, never truncation). Opcodes, flag bits, consistency/batch codes are re-extracted from the Rust source on every run (tools/extract_tables.py) and proved equal to the protocol literals. The model is tied to scylla-cql by a differential run through the public API with an independent Rust-side spec parser as oracle.",
    level_note="Trusted: Lean kernel + {propext, Classical.choice, Quot.sound}; hand-written model Model/Request.lean + Model/WirePrim.lean (tie = byte-exact differential run against SerializedRequest::make through the public API, plus a model-independent protocol parser in harness/src/c09.rs as oracle); the regex extractor tools/extract_tables.py (fails closed). LZ4/Snappy block codecs are parameters of the model (assumed to invert; checked on every compressed case by decompressing with the same crates). Bodies >= 4 GiB ((len-9) as u32 cast) are outside the theorems' hypothesis and cannot be built here. STARTUP map order is an explicit argument (checker mode: any permutation).",
    lean_modules=["ScyllaVerif.Props.C09"],
    tables=True,
    rule="case = (request kind, compression, tracing, stream id, fields...); distinct case lines whose implementation output is a frame (`ok ...`) or an error kind count as non-trivial",
    trivial=lambda c, o: o in ("bad-case",),
    out_kind=lambda o: " ".join(w for w in o.split(" ")[:4] if not (len(w) > 24 or w.lstrip("-").isdigit())) if o.startswith("err") else o.split(" ", 1)[0],
    trusted=[
        "Model/Request.lean transcribes frame/mod.rs:70-112, 273-323, request/query.rs:49-56, 120-176, execute.rs:74-90, batch.rs:63-159, 195-213, prepare.rs, startup.rs, register.rs, auth_response.rs, options.rs, serialize/row.rs:594-615 (add_value), writers.rs:104-131; Model/WirePrim.lean transcribes frame/types.rs write_* (checked u16 / i32 length conversions)",
        "Model/ReqParse.lean is the specification side: a parser of CQL v4 request frames written from native_protocol_v4.spec (+ ScyllaDB's result-metadata-id extension of EXECUTE) with literal constants; it imports nothing from the encoder model",
        "tools/extract_tables.py copies request/response opcodes, frame/QUERY/BATCH flag bits, consistency, batch type and kind codes, null/unset markers, event names and the header layout of SerializedRequest::make from the Rust text into Generated/Constants.lean on every run (regex-based, fails closed)",
        "LZ4 / Snappy block codecs (lz4_flex, snap) are parameters of the model; the driver instantiates them with the block the implementation produced (header, flags, length field, LZ4 length prefix and the decompressed body are still compared); HashMap iteration order of STARTUP is read off the implementation's frame and must be a permutation of the requested entries",
        "SerializedValues are built in the harness with add_value on blob-typed cells (null = None, unset = MaybeUnset::Unset); 2^31-byte inputs (`biglen` cases) are lazily mapped zero pages and only the model's length guard is run on them",
    ],
    assumptions=[
        "frame_valid / parse_encode / compressed_body: payload below 2^32 bytes (the `(len - 9) as u32` cast; frame_length_field_is_cast states the unconditional modulo form) and, for LZ4, uncompressed body below 2^32 bytes",
        "compressed_body: unlz4 (lz4 b) |b| = b and snappy b = c -> unsnappy c = b (explicit hypotheses, not axioms)",
        "page size is an i32, timestamps i64, stream id i16 (the Rust types)",
    ],
    partial=[
        "Batch::do_serialize's per-statement TooManyValues branch (> 65535 values written by one RawBatchValues row) is modelled but not exercised by the harness: with Vec<SerializedValues> the count is capped earlier by add_value; the RawBatchValuesAdapter path of the scylla crate is not driven",
        "session-level capture of frames through the mock node (timestamps / page sizes chosen by the session layer) is not part of this check; the frame layer is driven directly through SerializedRequest::make",
        "accepted inputs just below 2^31 bytes are not executed (they would copy 2 GiB); only the refusal at 2^31 is",
    ],
    chunk=800,
)

PROPS["C16"] = dict(
    level_text="Theorems (Props/C16.lean) about a generic interpreter of the code the derive macros generate, for EVERY struct descriptor (any number of fields, any attribute combination passing the macro's name-collision check), every database field list and every value assignment: by-name UDT serialization writes each bound field's value at its column's database position, nulls (or nothing, at the end) elsewhere (serValueByName_position / _unmatched_null); it succeeds exactly when every listed column is acceptable (value fits the type; excess column iff not forbid_excess_udt_fields) and every field without allow_missing/skip has a column (serValueByName_accepts_iff, _excess), a missing required field is always an error wherever it is declared - the F7 shape included (serValueByName_missing_required); acceptance and the cell at each column's position do not depend on the database order (serValueByName_perm_accepts / _perm_cells, tcValueByName_perm); the by-name UDT type check accepts exactly: acceptable columns, no bound field listed twice, required fields listed (tcValueByName_accepts_iff); by-name UDT deserialization fills each field from the like-named column (skip / missing allow_missing -> default, null with default_when_null -> default) (deserValueByName_spec); value -> cells -> value is the identity in any database order (byname_roundtrip); by-name row serialization is characterised exactly, cells position by position (serRowByName_iff); the ordered UDT flavor accepts only subsequences of the declared names in declared order containing every required field, excess only at the end and only without forbid (svOrdered_sound, dvTcOrd_sound, dvTcOrd_declared). The interpreter is tied to scylla-macros by a differential run of 50 structs compiled with the real derive macros (descriptor and struct generated from ONE table) over all permutations of up to 6 columns, every subset missing, excess / duplicated / retyped columns at every position, null patterns, truncated cell lists, with a model-independent oracle (value at its column's position, round trip, documented accept/reject rule, missing required field never dropped, declared order for the ordered flavor).",
    level_note="Trusted: Lean kernel + {propext, Classical.choice, Quot.sound}; hand-written interpreter Model/Derive.lean (tie = differential harness on the fixed family; macro expansion itself is not modelled). Field values are abstract payloads (typed encoding is C01). Proved for the UDT derives and by-name SerializeRow; DeserializeRow, ordered rows, skip_name_checks and flatten are tied and oracle-checked differentially only (see partial).",
    lean_modules=["ScyllaVerif.Props.C16"],
    rule="case = (trait, struct descriptor, database column list, values or cells); distinct case lines count as non-trivial unless the output is bad-case",
    trivial=lambda c, o: o.startswith("bad-case"),
    out_kind=lambda o: " ".join(o.split(" ")[:3]) if o.startswith("err") else o.split(" ", 1)[0],
    trusted=[
        "Model/Derive.lean transcribes serialize/value.rs:261-553, serialize/row.rs:203-472, _macro_internal.rs:141-310, deserialize/value.rs:226-898, deserialize/row.rs:175-670 as an interpreter over a struct descriptor; loops are structural recursions returning the cells written from the current column on; `saved_cql_field` + iterator are one list",
        "value level kept abstract: i32 = 4-byte payload, String = ASCII bytes (UTF-8 validation not modelled), Option None = null (typed encodings: C01)",
        "the derive macros' compile-time validation (name collisions, skip_name_checks restrictions) is represented by the hypothesis ValidNames; the family table and descriptor strings come from the same macro_rules tokens (harness/src/c16_structs.rs)",
    ],
    assumptions=[
        "ValidNames: non-skipped fields have pairwise distinct database names (enforced by the macros at compile time)",
        "byname_roundtrip: database names distinct, column types equal the like-named fields' types, values well-typed (None only for Option, i32 payload 4 bytes)",
    ],
    partial=[
        "DeserializeRow (by name and ordered), ordered SerializeRow, skip_name_checks and #[scylla(flatten)] are modelled (Model/Derive.lean: tcRow*/deRow*/srOrdered/serRowByNameN/serRowOrderedN) and checked differentially + by the harness oracle, but have no theorem yet",
        "ordered flavor: soundness (only declared-order subsequences are accepted) and acceptance of the declared order are proved; the full iff with the greedy allow_missing rule and the ordered deserialize walk are differential only",
        "error KIND exactness is proved for the missing-required-field case; for other rejections the theorems state acceptance iff (the differential run compares kinds)",
    ],
    chunk=4000,
)

PROPS["C02"] = dict(
    level_text="Theorems (Props/C02.lean) prove, for EVERY event sequence of the connection model (inductive invariant `Inv` over `step`, lifted to all runs) and the full 32768-id space: the bitmap allocator returns the least free id and fails iff all ids are used, `free` clears exactly one bit (bit level refines the abstract set); two unanswered requests never share a stream id (including after cancellation before enqueue / before write / after write / after the response); the reader's lookup for an answer the server owes finds exactly the handler of the request it answers (or the orphan mark) and never `Missing`; a frame on a stream the server does not owe never reaches a handler; any caller that completes with a frame holds the frame produced for its own request; the Rust assert in `allocate` cannot fire; exhaustion gives UnableToAllocStreamId and leaves the map unchanged. The model is tied to connection.rs by a differential run at hook level (ResponseHandlerMap op sequences: exhaustive over 3 request ids / 3 streams up to length 5, random, full 32768-id exhaustion) and end to end (the real router/reader/writer/orphaner over an in-memory stream, requests through the real send_request, under a deterministic schedule that covers all four cancellation points, out-of-order answers, unsolicited frames, blocked writes), each with a model-independent oracle.",
    level_note="Trusted: Lean kernel + {propext, Classical.choice, Quot.sound}; hand-written models Model/StreamMap.lean, Model/Conn.lean (tie = differential harness through cfg(scylla_verif) hooks StreamMap / RawConnection). Each critical section of reader/writer/orphaner is one atomic model step (they run on one task and never hold the map lock across an await); tokio scheduling, socket buffering and memory-model effects are outside the model. The abstract server answers only stream ids it has received, at most once each.",
    lean_modules=["ScyllaVerif.Props.C02"],
    rule="case = one operation sequence (hook level `map`, or end-to-end schedule `conn`); distinct case lines whose implementation output contains at least one routed response (`H<req>` / `ok:`) count as non-trivial",
    trivial=lambda c, o: not ("H" in o or "ok:" in o),
    out_kind=lambda o: (("broken:" + o.rsplit("broken=", 1)[1]) if not o.endswith("broken=-") else ("conn-ok" if "ok:" in o else "conn-no-answer")) if "| srv=" in o else ("map-full" if "full" in o else ("map-routed" if "H" in o else "map-other")),
    trusted=[
        "Model/StreamMap.lean transcribes connection.rs:2296-2450 (HashMaps as association lists observed through get/erase/insert, orphan timestamps dropped); Model/Conn.lean transcribes connection.rs:136-223, 1541-1786 with each critical section of reader/writer/orphaner as one atomic step",
        "abstract server: answers only stream ids it has received, at most once each; tokio mpsc/oneshot: FIFO, close-on-drop; the bounded submit channel is modelled by the `submitFull`/`enqueue` events",
        "end-to-end schedules are deterministic (current-thread runtime, futures polled by the test, settle = 16 yields); the driver Drive/C02.lean maps each schedule operation to model events",
    ],
    assumptions=[
        "the server does not answer a stream id before it has received the request frame carrying it (a frame on an id that is allocated but still in the writer's buffer is outside the property)",
    ],
    partial=[],
    shrink=dict(head_words=1, sep=";"),
    chunk=3000,
)

PROPS["C18"] = dict(
    lean_modules=["ScyllaVerif.Props.C18"],
    level_text="Theorems (Props/C18.lean) prove, for every interleaving of any number of threads running the load / compute_next / compare_exchange loop and for every clock behaviour (stalled, repeated, backwards, pre-epoch - the clock is an arbitrary input of each compute step), that the values installed by successful CASes are strictly increasing (hence pairwise distinct, and strictly increasing along each thread's own calls), and that an explicit statement timestamp is chosen in preference to the generator. Tied to timestamp_generator.rs by single-thread runs under a scripted clock compared value by value, and multi-thread runs validated as model traces (membership) plus a distinct/increasing oracle.",
    level_note="Trusted: Lean kernel + standard axioms; hand-written model Model/Timestamp.lean; sequential consistency of the SeqCst AtomicI64 operations; values stay below 2^63 (last + 1 does not overflow; ~year 294000); the scripted clock hook (one shadowing line in compute_next, cfg(scylla_verif)). The statement-timestamp preference (connection.rs) is proved on the model and is tied to the code only by the mock-node run of C07/C14 when present.",
    rule="case = (single-thread script, calls) or (threads x scripts, calls); distinct case lines count as non-trivial when the clock script makes at least one reading not exceed the previous timestamp (stall / backwards / pre-epoch), i.e. the output contains two consecutive values differing by exactly 1",
    trivial=lambda c, o: not any(b - a == 1 for part in o.split("|") for a, b in zip([int(x) for x in part.split(",") if x.lstrip("-").isdigit()], [int(x) for x in part.split(",") if x.lstrip("-").isdigit()][1:])),
    trusted=[
        "Model/Timestamp.lean transcribes timestamp_generator.rs:96-157 (compute_next, next_timestamp CAS loop) and the `statement.get_timestamp().or_else(generator)` choice of connection.rs",
        "sequential consistency of AtomicI64 SeqCst load / compare_exchange (each is one atomic step of the model)",
        "verif_hooks::clock scripted clock (thread-local), which replaces only the SystemTime::now() reading",
    ],
    assumptions=["timestamps stay below i64::MAX (no overflow of last + 1)", "multi-thread correspondence is membership: the observed per-thread value lists must be producible by some interleaving of the model"],
    partial=["explicit_timestamp_wins is proved on the model; its tie to connection.rs is by the mock-node end-to-end run (C07/C14 harness), not by the hook-level check"],
    chunk=400,
)


def _c06_out_kind(o):
    if o.startswith("A="):
        w = o.split(" ")
        n = 0 if w[0] == "A=-" else len(w[0].split(","))
        r = w[2][2:]
        r = "err:last" if r.startswith("err:last") else r.split(":")[0] if r.startswith(("ok", "ignored")) else r
        return "fiber attempts=%d %s" % (n, r)
    last = o.split(" ")[-1] if o else ""
    return "dec last=" + last.split(":")[0]


PROPS["C06"] = dict(
    level_text="Theorems (Props/C06.lean) prove, for every plan (targets with or without a connection), every history of per-attempt outcomes of any length (every RequestAttemptError / DbError variant with arbitrary field values), the idempotence flag, the initial consistency and each of the three built-in retry policies: a request not marked idempotent gets attempt k+1 only if attempt k failed with unavailable / bootstrapping / no free stream id / read timeout (never after a broken connection, overloaded / server / truncate error or write timeout); the default policy makes at most one attempt at serial consistency; attempts <= plan length + 2 / 1 / 0 same-node retries (so the loop terminates: the model's fuel is proved never exhausted); the fiber sends exactly 1 + (number of retry decisions) attempts unless the plan ran out, on the target and at the consistency the decision named; fallthrough sends one attempt. The models are tied to retry/*.rs and execution.rs by a differential run (exhaustive decision tables over all reachable session states + the real run_request_no_side_effects over synthetic targets) with an oracle written from the property text.",
    level_note="Trusted: Lean kernel + {propext, Classical.choice, Quot.sound}; hand-written models Model/Retry.lean, Model/Exec.lean (tie = differential harness through the cfg(scylla_verif) pass-throughs request_info / run_request). The transparent re-prepare inside one attempt is C14, speculative fibers are C13.",
    lean_modules=["ScyllaVerif.Props.C06"],
    rule="case = (dec: policy, idempotence, history of (consistency, error) fed to one retry session) or (run: policy, idempotence, initial consistency, plan, scripted outcomes) or (runx: the same under a scripted test retry policy); distinct case lines whose implementation output contains a retry/ignore decision or at least one attempt count as non-trivial",
    trivial=lambda c, o: o in ("-", "bad-case") or o.startswith("A=- "),
    out_kind=_c06_out_kind,
    trusted=[
        "Model/Retry.lean transcribes default.rs:57-170, downgrading_consistency.rs:54-214, fallthrough.rs:30-32 (i32 fields as Int: only compared, never computed with); Model/Exec.lean transcribes execution.rs:525-650 (one fiber; labelled continue/break as recursion on (rest of plan, same target))",
        "the hook's synthetic targets either always or never yield a connection; a target whose pool breaks between two same-target attempts is outside the correspondence (the model treats it like the code: next target, nothing sent)",
        "run_request_once is scripted: the k-th call returns the k-th scripted outcome; what an attempt does on the wire (incl. the re-prepare after UNPREPARED) is C14's subject",
    ],
    assumptions=[
        "no speculative execution policy (single fiber); no client-side request timeout (the timeout only cuts a history short)",
        "the retry policy is one of DefaultRetryPolicy, DowngradingConsistencyRetryPolicy, FallthroughRetryPolicy",
    ],
    partial=[
        "DESIGN X(c) (thorough tier: the same histories injected end-to-end by the mock cluster, counting QUERY/EXECUTE/BATCH frames) is not built: the execution loop is tied at RequestExecutionParams::run_request_no_side_effects with a scripted run_request_once, so 'one run_request_once call = one request frame' is C14's/C09's subject, not re-checked here",
    ],
    explanation="dec cases: exhaustive decision tables (112 error classes with concrete boundary field values x idempotence x 11 consistencies x every session state reachable by flag-setting histories of length <= 3 (default) / <= 2 + sampled 3 (downgrading; all of length 3 in the thorough tier)) against the real RetrySession objects, plus random histories of length <= 7. run cases: the real run_request_no_side_effects over synthetic targets (plans of 0..5 targets incl. targets without a connection): exhaustive outcome sequences of length <= 2 (thorough 3) over a 14-letter alphabet on all plans of length <= 3, directed same-error-forever and flag-order histories, random histories of length <= plan + 3; the retry policy is wrapped in a recording policy, the oracle checks the property text on the attempt log (re-send of a non-idempotent request only after a proof error, default/serial <= 1 attempt, attempts <= plan + 2/1/0, attempts = 1 + retry decisions unless the plan ran out, target and consistency of every attempt as decided, session consulted with the right error/idempotence/consistency, one session). runx cases: the same loop under a scripted test RetryPolicy so that every decision arm is driven with every consistency (no built-in policy returns RetryNextTarget(Some)). A scratch-copy mutation self-test (24 seeded changes to default.rs / downgrading_consistency.rs / execution.rs) was detected 24/24 (20 by the oracle with a replayable case, 4 behaviour changes that do not violate the property text by the model diff).",
    shrink=dict(head_words=3, sep=";"),
    chunk=6000,
)


def _c15_out_kind(o):
    if o.startswith("ok "):
        return "payload ok" + (" (no replicas)" if o.endswith(":-") else "")
    if o.startswith(("err ", "absent")):
        return "payload " + o
    if o and o[0].isdigit():
        return "exh digest"
    if "panic" in o:
        return "tab with panic (ill-formed insert)"
    return "tab" if ";" in o or o in ("n", "a") else o.split(" ", 1)[0]


PROPS["C15"] = dict(
    level_text="Theorems (Props/C15.lean) prove, for every history of inserts and maintenance steps of any length over unbounded tokens: the tablet list stays sorted with prev.last < next.first and first <= last (so the standard library's binary search - modelled loop by loop - is applied to a partitioned list: its precondition is a lemma, not an assumption); tablet_for_token answers exactly the latest insert covering the token unless a later insert overlapped it or maintenance discarded it (refinement to a history-based spec; never a stale answer); an insert removes exactly the overlapping tablets; per-datacenter replicas are the order-preserving filter of the full replica list; an accepted payload (a, b] becomes [a+1, b] with a < b and is rejected iff b <= a. The model is tied to tablets.rs by a differential run (exhaustive histories over a 6-token universe, long random histories over full i64, maintenance, TabletsInfo, payload bytes) with a brute-force history shadow as oracle.",
    level_note="Trusted: Lean kernel + {propext, Classical.choice, Quot.sound}; hand-written model Model/Tablets.lean (tie = differential harness through the cfg(scylla_verif) pass-through VerifTablets / raw_tablet_from_payload); Arc<Node> identity modelled by a generation counter; HashMaps as association lists (only looked up by key, dumps sorted).",
    lean_modules=["ScyllaVerif.Props.C15"],
    rule="case = one history (tab), one payload cell (payload) or one exhaustive subtree (exh); distinct case lines whose implementation output contains at least one answered lookup / non-empty dump / accepted-or-rejected payload / visited history count as non-trivial",
    trivial=lambda c, o: o in ("-", "bad-case", "absent") or (c.startswith("tab ") and ":" not in o),
    out_kind=_c15_out_kind,
    trusted=[
        "Model/Tablets.lean transcribes tablets.rs:66-122 (payload), 135-169, 252-324, 369-469, 523-538, 598-662 and core::slice::binary_search_by/partition_point of the toolchain's std (1.95: fixed-iteration base/size loop)",
        "Vec::drain(left..right) with left > right panics before mutating (only reachable with an ill-formed tablet first > last, which from_custom_payload never produces); the model's add returns `none` there and the driver prints `panic`",
        "the node set / keyspace list handed to maintenance are explicit arguments (what ClusterState computes from old/new known_nodes is cluster/state.rs:375-405, outside this model)",
    ],
    assumptions=[
        "every inserted tablet has first <= last (proved for everything from_custom_payload accepts: payload_range); tokens are unbounded integers in the theorems (the code compares i64 only, the +1 overflow is excluded by payload_range)",
    ],
    partial=[],
    shrink=dict(head_words=1, sep=";"),
    chunk=1500,
)


def _c13_out_kind(o):
    if o in ("true", "false", "HANG", "PANIC", "bad-case"):
        return o
    w = o.split(" ")
    if o.startswith("starts="):
        n = w[0].count(",") + 1
        res = w[2].split(":")[0].replace("res=", "")
        return "spec started=%d %s" % (n, res)
    if o.startswith("att="):
        n = 0 if w[0] == "att=-" else w[0].count(",") + 1
        res = w[1].split(":")[0].replace("res=", "")
        return "gate attempts=%s %s %s" % (n if n < 4 else "4+", res, w[3])
    return w[0]


PROPS["C13"] = dict(
    level_text="Theorems (Props/C13.lean) prove for EVERY schedule (any list of events timerFires / pop i / send i / attemptDone i / complete i outcome; impossible events are no-ops, ties between the timer and a completion are both orders) of the select!-loop state machine of speculative_execution::execute behind the idempotence gate of run_request_no_side_effects, for every policy and plan: a non-idempotent request (or one without a policy) has exactly one execution, at most one running fiber and at most one attempt on the wire at every point (nonidempotent_single_fiber); at most 1+max executions are started, never one after a fiber reported the plan exhausted (started_le, no_start_after_exhaustion); the shared plan hands every target out at most once, in plan order, so the attempts on the wire are on pairwise distinct targets (handed_is_plan_prefix, distinct_targets, outstanding_attempts_distinct); the returned value is the first consumed result that is a success or definitive error, otherwise the last error (EmptyPlan if none) and then only when nothing runs and nothing may be started, and conversely it has returned as soon as that holds (result_spec, first_real_answer_wins, otherwise_last_error, returns_when_exhausted); a not-yet-returned call always has a running fiber or an armed timer that will start one (never_waits_on_nothing - the all-branches-disabled state in which select! would panic and the useless-timer-only state are unreachable) and every fair infinite schedule returns after at most 4+3*max select! branches (always_returns, branches_bounded); can_be_ignored is stated outright over the whole error universe (canBeIgnored_err_iff). The model is tied to the code by a differential run in virtual time (tokio paused clock): the real execute over scripted fibers (exhaustive delay x outcome grids incl. ties, 1-5 fibers, max 0..4) and the real run_request_no_side_effects (gate + SharedPlan + real fibers, scripted retry policy) over synthetic targets, with a model-independent oracle.",
    level_note="Trusted: Lean kernel + {propext, Classical.choice, Quot.sound}; hand-written model Model/Speculative.lean (tie = differential harness through the cfg(scylla_verif) pass-throughs speculative::execute / can_be_ignored / exec::run_request). Partial: futures::select!'s pseudo-random choice among ready branches is the model's tie nondeterminism (the model driver explores every order of simultaneous wake-ups and acts as a checker there); tokio's timer and FuturesUnordered are trusted to deliver wake-ups in virtual-time order; a fiber is abstract in the theorems (it pops targets, has at most one attempt outstanding, eventually completes - its retry logic is C06); Session-level glue (how is_idempotent and the policy reach RequestExecutionParams) and real sockets are not exercised (no mock-node end-to-end run).",
    lean_modules=["ScyllaVerif.Props.C13"],
    rule="case = one classification query (ign), one scripted schedule of synthetic executions through speculative_execution::execute (spec), or one scripted plan through run_request_no_side_effects (gate); every distinct case line counts (each returns a value, an error kind or HANG)",
    trivial=lambda c, o: o in ("bad-case",),
    out_kind=_c13_out_kind,
    trusted=[
        "Model/Speculative.lean transcribes speculative_execution.rs:108-155 (can_be_ignored), 165-218 (execute: retries_remaining, FuturesUnordered as the list `running`, the fused sleep as `sleepArmed`, last_error, the None branch, the return test), error.rs:451-488 (can_speculative_retry), execution.rs:71-86 (SharedPlan = one popped list), 417-484 (the gate; the single-fiber arm `.await.unwrap_or(Err(EmptyPlan))` is the same machine with retries 0 and no timer), 519-644 (a fiber seen from outside)",
        "futures::select! polls the ready branches in pseudo-random order: at one virtual instant every order of the pending wake-ups (timer, fibers) is explored by Drive/C13.lean and the implementation's line must be one of the results (echo) - on tie-free schedules the comparison is exact (start time of every execution, consumption order, result, return time; for gate: every attempt (time, target), result, return time, max attempts in flight)",
        "tokio::time (paused clock, ms granularity) and FuturesUnordered deliver wake-ups in deadline order; Fuse<Sleep> reports terminated after firing until re-set; FuturesUnordered::is_terminated is reset by push (the empty-async_tasks-while-retries-remain path is exercised by the corpus and the grids)",
        "the harness's oracle uses its own hand-written ignorable/definitive table (from the property statement), independent of the Lean table; harness/src/c13.rs also carries a developer self-test (`mut<k>` cases, never generated) that runs a local copy of the loop with seeded bugs through the same oracle",
    ],
    assumptions=[
        "always_returns: fairness = while the call has not returned, some enabled select! branch is eventually taken (each started fiber eventually completes, the armed timer eventually fires); some_branch_enabled shows such a branch exists in every reachable state; retry_interval is finite",
        "distinct_targets / outstanding_attempts_distinct: the plan itself has no duplicates (C05)",
    ],
    partial=[
        "tie resolution of futures::select! is nondeterministic: checked by membership, not equality, on schedules with simultaneous events",
        "end-to-end (Session, pools, sockets, mock-node delays) not built: the gate is exercised through verif_hooks::exec::run_request (the real run_request_no_side_effects with synthetic targets)",
    ],
    shrink=dict(head_words=3, sep=" "),
    chunk=6000,
)

PROPS["C08"] = dict(
    level_text="Theorems (Props/C08.lean) about a total Lean model of the response decoders (primitive readers, frame header, body extensions, every response kind, result/prepared metadata, binary and custom-string column type parsers, raw rows): every decoder terminates with ok or err (no other outcome exists), requested allocation is proportional to the input, recursion depth is bounded, well-formed responses round-trip, truncated primitives are errors. The model is tied to the code by a differential run over well-formed frames of every kind, all their truncation points, field-aware mutations, deep nesting, custom type strings and random bytes, with a model-independent oracle (panic, hang watchdog, counting allocator, process death, well-formed frame decodes to what was encoded).",
    level_note="Trusted: Lean kernel + {propext, Classical.choice, Quot.sound}; hand-written model (tie = differential harness on the public API of scylla-cql). LZ4/Snappy are external crates: the decompressed body is a parameter of the model (handed over by the harness). Typed column VALUE decoding is C01's model: here it is only driven for the crash/hang/allocation oracle. Not claimed: read_response_frame reserving the header-announced length (frames announcing > 1 MiB more than is present are not handed to it); custom type strings with non-ASCII characters are not modelled (implementation still run under the oracle).",
    lean_modules=["ScyllaVerif.Props.C08"],
    rule="case = (features, cached-metadata flag, negotiated compression, frame bytes) or (primitive reader, bytes); distinct case lines whose implementation output is not a header-level error count as non-trivial",
    trivial=lambda c, o: o.startswith("err hdr."),
    out_kind=lambda o: (lambda w: ("err " + ".".join(w[w.index("err") + 1].split(".")[:2]) if "err" in w else next((x for x in w if x.isupper() or x in ("ok",)), w[0] if w else "")))(o.split(" ")[:12]) if o else "",
    chunk=2500,
    trusted=[
        "Model/ReadPrim.lean, TypeParser.lean, Response.lean, FrameHdr.lean transcribe scylla-cql(-core) frame/types.rs, frame/mod.rs, response/{mod,result,event,supported,authenticate,custom_type_parser}.rs, response/error.rs, deserialize/{result,row}.rs (raw cells only)",
        "UTF-8 validation: Lean's ByteArray.validateUTF8 stands for str::from_utf8 (validated differentially on boundary strings); Uuid::try_parse modelled from the uuid crate's parser",
        "LZ4/Snappy decompression is a parameter of the model (the harness hands the decompressed body over); only the size guard in front of LZ4 is modelled",
    ],
    assumptions=[
        "frames whose header announces more than 1 MiB beyond the bytes present are not handed to read_response_frame (its up-front reservation is the driver's own TODO, outside C08)",
        "rows of a result with zero columns are iterated up to 1000 (each costs no input byte; rows_count is only bounded by i32::MAX)",
    ],
    partial=[
        "wellformed_roundtrip is proved for the primitives ([short], [int], [string], [bytes]/null) and the kinds READY, AUTHENTICATE, AUTH_CHALLENGE, AUTH_SUCCESS, RESULT/Void, RESULT/SetKeyspace (wellformed_roundtrip_partial); for ERROR, SUPPORTED, EVENT, RESULT/Rows, /Prepared, /SchemaChange it is checked per run by the harness oracle against an independent encoder, not proved",
        "truncation_is_error is proved for [short], [int] and [string] (readString_truncation); for whole responses it is covered by the exhaustive truncation cases of the differential run",
        "alloc ghost counts capacity REQUESTS (with_capacity / reserve) in element slots, not bytes copied while parsing (those are bounded by the bytes consumed)",
    ],
)

PROPS["C01"] = dict(
    level_text="Theorems (Props/C01.lean) prove, for every CQL type (natives, list/set/map, tuple, UDT, fixed- and variable-width vector, arbitrarily nested), every value and every output buffer, that the placeholder/back-patch serializer (encImpl) appends exactly the bytes of the CQL v4 definition length++content (encSpec) and fails with the same error kind; that null/unset/empty cells are ff ff ff ff / ff ff ff fe / 00 00 00 00; that content above i32::MAX bytes is SizeOverflow; that zig-zag + vint round-trip for every i64 and every continuation; the round trip decVal(encSpec v) = pad v on the decidable domain wfVal, encode totality on that domain (only SizeOverflow/TooManyElements can fail), and carrier_factor: every typed carrier's own serializer (scalars, Option, MaybeUnset, MaybeEmpty, Vec, sets, maps, tuples, CqlValue, nested) equals the dynamic serializer of its embedding. The model is tied to serialize/value.rs, writers.rs, deserialize/value.rs, frame_slice.rs, frame/types.rs by a differential run (dynamic CqlValue over all types, ~80 typed Rust carriers incl. chrono/time/num-bigint/bigdecimal/secrecy, malformed decoder input) with an oracle that is independent of the model (own protocol encoder + decode(encode v) == pad v).",
    level_note="Trusted: Lean kernel + {propext, Classical.choice, Quot.sound}; hand-written models Model/Vint.lean, Model/Cql.lean, Model/Codec.lean (tie = differential harness on the public API of scylla-cql-core, no hook). UTF-8 validity is a parameter `u` of the decoder model (the driver uses Lean's ByteArray.validateUTF8). Three shapes on which the current tree violates the round trip are known findings C01-F1, C01-F2, C01-F9 (counterexample theorems + corpus witnesses); C01-F8 was repaired in /repo (808d80c) and is a regression case.",
    lean_modules=["ScyllaVerif.Props.C01"],
    rule="case = (kind dyn|carrier|carrierset|dec, CQL type, value or cell bytes); distinct case lines whose implementation output is not an error line count as non-trivial",
    trivial=lambda c, o: o.startswith("err ") or o == "bad-case",
    out_kind=lambda o: ("err-" + o.split(" ")[1]) if o.startswith("err ") else ("decode-" + o.split(" -> err ")[1] if " -> err " in o else ("roundtrip-ok" if " -> " in o else ("cell" if o[:1] in "0123456789abcdef" else o.split(" ")[0]))),
    chunk=2500,
    trusted=[
        "Model/Codec.lean transcribes serialize/value.rs:93-706,750-1150, serialize/writers.rs:103-218, deserialize/value.rs:67-248,296-800,923-1593,1748-2092, deserialize/frame_slice.rs:151-195, frame/types.rs:174-218; Model/Vint.lean transcribes frame/types.rs:255-305",
        "u64::leading_zeros modelled as 64 - bit length (Nat.log2); u8::leading_ones as a comparison chain proved equal to the bitwise count (leadingOnes8_spec)",
        "error values are compared as kinds (innermost kind of the Rust error chain)",
        "typed Rust carriers: Model/TypedCarrier.lean transcribes the typed SerializeValue impls (value.rs:93-621, 847-930) and carrier_factor reduces them to encImpl of the embedding; the harness rebuilds each Rust value from its embedding (harness/src/c01/carrier.rs) and compares bytes with the model and the typed decode with the original value",
        "chrono/time/num-bigint/bigdecimal/secrecy carriers are differential-only (harness/src/c01/external.rs): their conversions to the core carriers are not modelled; value ranges are restricted to what the external types can represent",
    ],
    assumptions=[
        "round trip domain wfVal: value has the shape of the type; text is UTF-8, ascii is ASCII; time in 0..=86399999999999; varint has at least one byte; tuple/UDT types have at least one field, vector dimension > 0 (no such CQL types exist otherwise); UDT type field names distinct and every value field named in the type",
        "cells above i32::MAX bytes are covered by theorems only (not by the differential run)",
    ],
    partial=[
        "roundtrip_partial / roundtrip_cell_partial: the full round-trip statement (every value with the shape of the type) is false of the current tree on three shapes, each with a proved counterexample theorem and a corpus witness replayed on the real code: C01-F1 zero-field tuple value for a non-empty tuple type (roundtrip_counterexample), C01-F2 null/unset element directly inside a vector (carrier_counterexample), C01-F9 `empty` element of a fixed-width vector (vector_empty_element_counterexample); wfVal excludes exactly these (and non-CQL degenerate types)",
        "carrier_factor covers serialization; the typed DeserializeValue impls are not modelled in Lean (typed decode == original value is checked by the harness oracle on every carrier case)",
        "cells above i32::MAX bytes: error branch proved (size_overflow_*, encode_total), not exercised by the differential run",
    ],
)

PROPS["C19"] = dict(
    level_text="Theorems (Props/C19.lean, invariant in Proofs/MergeChannel.lean) prove, for EVERY interleaving of the atomic steps of Sender::modify / Drop for Sender / Receiver::recv / cancellation of a suspended recv / Drop for Receiver (a transition system with one program counter per endpoint, so also for two OS threads under sequential consistency): received ++ in-flight ++ slot = merged (each merged update in exactly one received value, in order, none lost or duplicated; received values non-empty); a parked consumer with a pending value or a dropped sender has been notified AND its waker woken, or the producer's next step is that notify_one (no lost wake-up, cancel/restart included; a cancelled notified wait re-stores the permit); recv returns None only at a step where the sender is dropped, the slot is empty and everything merged was already returned; modify observing receiver_dropped returns SendError without applying f, and nothing is ever applied afterwards; every MetadataUpdate::merge_* keeps all refresh reply channels (list equality) and the newest topology wins. The models are tied to merge_channel.rs / update.rs by a differential run: the real channel polled manually with a counting waker over all legal poll-granularity interleavings to depth 8 (quick) / 10 (thorough) plus long random ones, UpdateSlot op sequences, and a 2-thread stress run, with a model-independent oracle.",
    level_note="Trusted: Lean kernel + {propext, Classical.choice, Quot.sound}; hand-written models Model/MergeChannel.lean, Model/MetaUpdate.lean (tie = differential harness through the cfg(scylla_verif) pass-throughs verif_hooks::merge_channel); the tokio::sync::Notify contract N1-N5 written out in Model/MergeChannel.lean (validated at poll granularity by the differential run incl. wake counts, not verified); sequential consistency of the flag atomics / the slot mutex / Notify. The differential run cannot interleave INSIDE modify/recv; that is covered by the theorems only and sampled by the stress run.",
    lean_modules=["ScyllaVerif.Props.C19"],
    rule="case = (chan: sequence of producer/consumer operations at poll granularity | slot: sequence of merge_* / take operations | stress: n merges on a second OS thread); distinct case lines with at least one received value, pending poll, or non-empty take count as non-trivial",
    trivial=lambda c, o: not ("ready[" in o or "pending" in o or "full " in o or "partial " in o or o.startswith("received=")),
    out_kind=lambda o: ("stress" if o.startswith("received=") else "bad-case" if o == "bad-case" else
                        "chan:" + "+".join(k for k in ("ready[", "pending", "none:", "senderror", "cancelled", "rxdropped", "dropped:") if k in o).replace("[", "").replace(":", "")
                        if (":" in o.split(";")[0] and "=" not in o.split(";")[0]) else
                        "slot:" + "+".join(k for k in ("full ", "partial ", "none ") if k in o).replace(" ", "")),
    trusted=[
        "Model/MergeChannel.lean transcribes merge_channel.rs:45-54, 102-129, 149-182 (one atomic step per shared-memory access, in the code's order); Model/MetaUpdate.lean transcribes update.rs:74-85, 89-191, 258-265 and metadata/mod.rs:349-370 (Metadata/peer list abstracted to a topology tag, reply channel to the refresh id, HashMaps to association lists)",
        "tokio::sync::Notify (tokio 1.53.1 notify.rs) contract N1-N5: one stored permit; notify_one unlinks+marks the registered waiter (waking its waker if it stored one) else sets the permit; enable() consumes the permit or registers without waker; poll: Done/notified -> Ready, else store waker, Pending; dropping a Waiting future unlinks it and, if it was notified by notify_one but never polled, re-stores the permit; each of these is one atomic step",
        "sequential consistency: every access to slot (std Mutex), sender_dropped / receiver_dropped (Release/Acquire AtomicBool) and Notify is one indivisible step of an interleaving",
        "only a suspended recv() future can be dropped (never polled, or parked at line 173); Drop for Receiver needs no recv future alive (the &mut borrow)",
        "merge_client_routes_update / ClientRoutes::merge are modelled and covered by the theorems but have no pass-through, so they are not in the differential run",
    ],
    assumptions=[
        "single producer, single consumer (both endpoints are !Clone and their methods take &mut self): at most one Notified waiter",
        "the closure passed to modify does not panic and leaves the slot Some (true of the hook's push and of every MetadataUpdate::merge_*: merge_fills_slot); a closure leaving None is not modelled",
        "no_lost_wakeup is a safety statement (notified and woken, or the notify is the producer's next step); that the runtime polls a woken task and that threads keep being scheduled is assumed",
    ],
    partial=[
        "the differential run drives the channel at poll granularity only (it cannot preempt inside modify/recv); the finer interleavings are covered by the theorems under the Notify/SC assumptions and sampled by the 2-thread stress cases",
        "end-to-end Session::refresh_metadata against a mock cluster (DESIGN X, thorough) is not part of this check",
    ],
    shrink=dict(head_words=1, sep=";"),
)

PROPS["C04"] = dict(
    level_text="Theorems (Props/C04.lean) prove for every token ring sorted by token (duplicate tokens allowed), every node placement (datacenter, rack, rack-less and datacenter-less nodes, vnodes), every token, every replication factor (0 .. above the node count) and every set S of precomputed keyspace strategies: the driver's SimpleStrategy walk is the first RF distinct nodes clockwise (simple_eq_spec); its NTS iterator (replicas_left / used_racks / acceptable_repeats) computes the stated per-datacenter rack rule (nts_eq_spec) and yields exactly min(RF, nodes) replicas (nts_len); the prefix properties behind the precomputed lists (simple_prefix, nts_prefix up to the rack count) and the snap of a token to its ring member (ringRange_snap); the locator's answer (compressed list / per-RF list / global max-RF list with prefix lookup / on-the-fly fallback) equals the on-the-fly walk for every strategy whether or not it was precomputed (precomputed_eq_onthefly*); restricting to a datacenter equals filtering the unrestricted answer (dc_restrict_eq_filter_*); and for every replica set len = |iter|, choose(i) = iter[i], the ring-ordered view is a permutation of iter and a subsequence of the distinct nodes clockwise from the token (views_agree). The model is tied to routing/locator/*.rs and cluster/state.rs by a differential run through ClusterState::new (hook cluster_from_topology) with a brute-force oracle of the two placement rules.",
    level_note="Trusted: Lean kernel + {propext, Classical.choice, Quot.sound}; hand-written models Model/Ring.lean, Model/Replicas.lean (tie = differential harness: exhaustive small universe + random topologies, every view of ReplicaSet, get_token_endpoints). Agreement with the servers' placement is by the rule in the property statement (specSimple / specNtsDc). Tablets are C15. Shards of the returned (node, shard) pairs are not compared (pool-less nodes: C11/C12).",
    lean_modules=["ScyllaVerif.Props.C04"],
    rule="case = (topology, precomputed keyspace strategies, queried strategy, datacenter restriction, token); distinct case lines whose replica set is non-empty count as non-trivial",
    trivial=lambda c, o: o.startswith("len=0 ") or o in ("bad-case", "PANIC"),
    out_kind=lambda o: "bad-case" if not o.startswith("len=") else (lambda f: ("len=%s" % (f[0][4:] if int(f[0][4:]) < 5 else "5+")) + (" ord!=iter" if f[1][5:] != f[3][4:] else ""))(o.split(" ")),
    trusted=[
        "Model/Ring.lean transcribes token_ring.rs:15-60 (partition_point on a sorted slice = index of the first token >= tok), itertools unique (first occurrence wins), Token::new; Model/Replicas.lean transcribes replication_info.rs:62-202, precomputed_replicas.rs:80-210, locator/mod.rs:62-271, 314-434, 436-589, 694-935 (ReplicaSetIterator::nth / size_hint are not modelled: nth is checked by the harness oracle against the iteration), cluster/state.rs:504-530",
        "HashMap<String, usize> of NTS = association list with distinct keys; HashMap/BTreeSet/HashSet iteration orders are irrelevant where the code uses them (sums, maxima, set membership) - datacenter and rack names are abstracted to numbers (only compared for equality)",
        "std: stable sort_by_key, slice::partition_point on a partitioned slice; rand 0.9 random_range(0..len) = (u32 * len) >> 32 (the harness scripts the RNG to sweep every index); node identity = host_id",
    ],
    assumptions=[
        "the ring is sorted by token (established by TokenRing::new: ring_sorted); NTS datacenter keys are distinct (a HashMap); no other hypothesis - in particular none about duplicate tokens since the repair ad6cb90",
    ],
    partial=[
        "ReplicaSetIterator::nth and size_hint, choose_filtered's fallback through IteratorRandom::choose, and the (node, shard) pairing are outside the model; the harness oracle checks nth(k) = k-th iterated replica and that choose_filtered respects its predicate",
    ],
    chunk=3000,
    shrink=dict(head_words=1, sep=";"),
)


def _c07_out_kind(o):
    if not o.startswith("rows="):
        return o.split(" ", 1)[0]
    w = o.split(" ")
    rows = 0 if w[0] == "rows=-" else w[0].count(",") + 1
    fin = w[1][4:]
    reqs = 0 if w[2] == "log=-" else w[2].count(",") + 1
    rb = "0" if rows == 0 else "1-6" if rows <= 6 else "7-50" if rows <= 50 else "51-200"
    qb = "1" if reqs == 1 else "2-4" if reqs <= 4 else "5-20" if reqs <= 20 else "21+"
    return "fin=%s rows=%s requests=%s" % (fin, rb, qb)


PROPS["C07"] = dict(
    level_text="WORK IN PROGRESS",
    level_note="WORK IN PROGRESS",
    lean_modules=["ScyllaVerif.Props.C07"],
    rule="case = (skip-metadata flag, consumer behaviour, page script: rows per page, paging state returned, faults injected before the page); distinct case lines whose implementation output shows at least two page requests count as non-trivial",
    trivial=lambda c, o: "," not in o.split("log=")[-1],
    out_kind=_c07_out_kind,
    trusted=[],
    assumptions=[],
    partial=[],
    shrink=dict(head_words=3, sep=" "),
    chunk=450,
)


def _c14_out_kind(o):
    if o in ("bad-case", "PANIC"):
        return o
    ks = []
    for k, name in (("<unprepared", "unprepared"), ("meta+", "metadata-changed"), ("<rows:nometa", "cached-decode"), ("RepreparedIdChanged", "id-changed"),
                    ("RepreparedIdMissingInBatch", "id-missing"), ("BATCH", "batch"), ("DbError:9472", "unprepared-visible"), ("r=ERR", "decode-error"), ("HANG", "HANG")):
        if k in o:
            ks.append(name)
    return "+".join(ks) if ks else "plain"


PROPS["C14"] = dict(
    level_text="Theorems (Props/C14.lean) over a small-step model of the driver's prepared-statement handling (any number of callers sharing statement objects, any number of nodes, any interleaving of request building / node answering / response handling / node events, of any length). Driver part, for EVERY state and response, no assumption on the server: unprepared_transparent (first answer UNPREPARED => PREPARE of the same text to the same node; when its PREPARED answer with the same id arrives, the same EXECUTE - id, values, consistency, timestamp, page size, paging state; only skip flag / presented metadata id recomputed - to the same node; its answer is what the caller sees), reprepare_id_mismatch_is_error (+ batch form; nothing sent, nothing changed), execute_carries_statement_id (any EXECUTE put on the wire by any step carries the immutable id of its operation's statement object), batch_unknown_id_is_error, batch_known_id_reprepares_and_resends (identical frame), decode_metadata_used (server metadata if sent, else the metadata cached for this request = current metadata at build time, else empty), next_execution_presents_latest_id (incl. the zero-column rule: empty id + metadata requested), nonempty_never_replaced_by_empty, reprepare_ok (exact update rule), frame lemmas other_steps_keep_caller / statement_identity_immutable lifting them to all interleavings. End to end, by an invariant proved for all histories (inv_exec) under the explicit server assumption: decode_metadata_faithful (whenever a node with the extension omits the metadata, the metadata cached for that request has exactly the columns the node encodes the rows under) and noext_current_is_announced_at_preparation (without the extension the current metadata stays the one announced by the creating PREPARED). The model is tied to connection.rs / prepared.rs / result.rs by a differential run of the real Connection::{prepare, execute_raw_with_consistency, batch_with_consistency} against scripted CQL nodes under a deterministic frame-level scheduler (exhaustive sequential histories, node events inside an operation, random concurrent multi-node histories) with a model-independent oracle.",
    level_note="Trusted: Lean kernel + {propext, Classical.choice, Quot.sound}; hand-written model Model/Prepared.lean (tie = differential harness through the cfg(scylla_verif) pass-through VerifConn). The ABSTRACT SERVER (Model/Prepared.lean `serve`/`applyEvent`, hypotheses NodeOK/EventOK: a node's result-metadata id determines its columns, ids are non-empty, metadata + new id sent iff the presented id differs, NO_METADATA iff skip requested) is an assumption about ScyllaDB, not proved; the driver theorems do not use it. Atomicity: one load of the shared metadata per request build, load+store per response handling are single steps (true on one thread; for concurrent stores the invariants only need that every stored value was announced). Not covered: timestamp generator draw (explicit statement timestamps are), tracing, tablets payload, the session-level caching layer, QueryPager (C07).",
    lean_modules=["ScyllaVerif.Props.C14"],
    rule="case = (nodes with/without the metadata-id extension, statements with their PREPARED announcement kind and initial columns, schedule of caller steps and node events); distinct case lines in which at least one request was answered by a node (a `<...` token in the output) count as non-trivial",
    trivial=lambda c, o: "<" not in o,
    out_kind=_c14_out_kind,
    trusted=[
        "Model/Prepared.lean transcribes connection.rs:645-743 (prepare_raw/prepare/reprepare), 938-972 (handle_result_metadata_new_id), 974-1044 (calculate_cached_metadata_params), 1046-1148 (execute_raw_with_consistency), 1177-1246 (batch_with_consistency loop), prepared.rs:211-280, 567-579 (shared immutable id/text, ArcSwap current metadata), result.rs:758-805, 810-852, 901-958, 1015-1053 (which metadata decodes the rows; METADATA_CHANGED honoured only with the extension; NO_METADATA+METADATA_CHANGED is a parse error)",
        "harness/src/c14.rs: own scripted CQL v4 nodes (frame codec of harness/src/mocknode.rs, written from the spec), each caller on its own connections, every request held until the schedule lets the node consume it and every response held until the schedule delivers it; the server logic there (NodeState::answer) is written independently of the Lean `serve` and both are diffed",
        "typed decoding of cells is modelled only as far as needed to make a wrong column set observable (int = 4 bytes, text = UTF-8; the node never sends 4-byte text cells); the value codec itself is C01",
        "verif_hooks::connection::VerifConn (pass-through to the crate-private Connection methods; errors mapped to labels)",
    ],
    assumptions=[
        "server assumption (see level_note) for decode_metadata_faithful / inv_exec; a node without the extension never sets METADATA_CHANGED and never sends a metadata id in PREPARED (wire well-formedness)",
        "without the extension and with use_cached_result_metadata the driver decodes with the columns announced at the creating preparation even after a schema change / re-preparation (documented CQL v4 limitation, prepared.rs:167-198): the oracle there demands only that the columns used were announced by a server for that statement",
        "a second UNPREPARED in a row (eviction between the re-preparation and the re-sent EXECUTE) is returned to the caller as DbError Unprepared: the EXECUTE path re-sends once (unprepared_transparent: the caller sees the second response); the BATCH path loops without bound",
    ],
    partial=[
        "next_execution_presents_latest_id is a statement about the state right after the response was handled; with concurrent callers an OLDER response decoded with cached metadata and handled later re-installs the older metadata (handle_result_metadata_new_id compares the id of the metadata it decoded with, which may be the stale cached one) - decoding stays faithful (decode_metadata_faithful), the next EXECUTE presents the older id once more and is corrected by the server",
        "the generator-drawn timestamp (no explicit statement timestamp) is not exercised: connections are opened without a timestamp generator",
        "execute_iter / QueryPager is not driven here (paged execution = one EXECUTE per page with explicit paging state); the pager is C07",
    ],
    shrink=dict(head_words=3, sep=";"),
    chunk=2500,
)


def _c20_out_kind(o):
    if o.startswith(("ok ", "err ")) or o in ("ok", "race", "bad-case"):
        return " ".join(o.split(" ")[:2]) if o.startswith("err") else o.split(" ")[0]
    toks = o.split(";")
    kinds = sorted({t.split(":")[0] + (":" + t.split(":")[1] if t.startswith("e:") else "") if t.startswith("e:") else t[:1] for t in toks})
    return "pool " + "+".join(kinds)


PROPS["C20"] = dict(
    level_text="Theorems (Props/C20.lean, invariants in Proofs/Keyspace.lean) prove: name_valid_iff (VerifiedKeyspaceName::new accepts exactly the strings of 1..48 characters - counted with chars().count() - over [A-Za-z0-9_], ASCII only; empty / too long / illegal character are rejected in that order) and statement_shape (the statement is `USE name` or `USE \"name\"`, nothing else interpolated); the response-name check accepts exactly names equal up to ASCII case; use_keyspace_result answers Ok iff at least one Ok and only broken-connection errors besides (never swallows another error). For the pool refiller as a transition system over {current keyspace, published connections, open futures, setting-keyspace futures, excess, spawned use-keyspace tasks, the server-side keyspace of every connection} and EVERY sequence of events (use-keyspace request | a task's USE on a snapshot connection resolves with any server reply | task finishes | task times out | refill | connection opened on any shard / with any sharder | open failed | setting-keyspace future resolves with any reply | connection breaks | error event handled): publish_only_with_current_keyspace (a connection enters the published list only in a step in which the server has exactly the pool's current keyspace set on it; otherwise it is routed through the setting-keyspace path, where it is private: new_connection_private), published_has_keyspace (when no two requests overlapped and the newest was answered Ok - or with a broken-connection error - every published non-broken connection has that keyspace at the server, in every later state until the next request; the overlap hypothesis is shown necessary by a counterexample), published_has_initial_keyspace (pool created with the session keyspace, e.g. for a new node), success_means_all_acked and ok_answer_sound (no discipline assumed: an Ok answer means every then-published connection acknowledged the USE or is broken). For the cluster worker (requests, fan-out over the known nodes, deliveries to the refillers in any order, all pool events of all nodes, node addition/removal): cluster_pools_inv, new_nodes_inherit (a node created after the worker handled use_keyspace(k) gets a pool whose current keyspace is k), cluster_success_means_all_acked. The model is tied to connection.rs / connection_pool.rs / worker.rs by a differential run: name validation exhaustively over a 12-character alphabet to length 3, every code point to U+017F, boundary lengths with multi-byte characters and random names; one USE exchange on a real connection against a scripted node; a REAL NodeConnectionPool (refiller task included; PerHost(n) and PerShard(1) behind a shard-aware port) driven through scripted histories of use_keyspace calls, server-side connection kills, refills, rejected / mismatching / upper-cased / void / connection-closing USE answers and USE answers held at the node while the next request arrives, compared token by token with the model run to quiescence, with a model-independent oracle at the node.",
    level_note="Trusted: Lean kernel + {propext, Classical.choice, Quot.sound}; hand-written model Model/Keyspace.lean (tie = differential harness through the cfg(scylla_verif) pass-throughs verify_keyspace_name / VerifConn / VerifPool and a scripted CQL node on a loopback socket). One atomic model event stands for submit+serve of a USE on a connection: connections are FIFO and the abstract server executes a connection's requests in order (so a USE left in flight by a timed-out call is served before any later one). The cluster-worker layer (Session::use_keyspace fan-out, use of node_config.used_keyspace for new nodes) is modelled and proved about, but tied to worker.rs / node.rs / session.rs only by reading (it needs a full Session). Partial: the cluster-level lifting of published_has_keyspace (no two fan-outs overlap => no two pool requests overlap) is stated but not proved; pool/caller scheduling is sampled by the `race` cases (multi-thread runtime, oracle only).",
    lean_modules=["ScyllaVerif.Props.C20"],
    rule="case = one candidate name (name), one USE exchange on a real connection (resp), one scripted history of a real connection pool against the scripted node (pool: deterministic, compared token by token; race: concurrent, judged by the oracle at the node only); distinct case lines count as non-trivial unless the output is bad-case or race",
    trivial=lambda c, o: o in ("bad-case", "race"),
    out_kind=_c20_out_kind,
    trusted=[
        "Model/Keyspace.lean transcribes connection.rs:2452-2511 (VerifiedKeyspaceName), 1296-1341 (use_keyspace, verify_use_keyspace_result), connection_pool.rs:632-741 (run: one select! arm = one event), 862-1035 (start_filling, handle_ready_connection), 1095-1125 (maybe_reshard), 1210-1275 (remove_connection), 1282-1358 (use_keyspace task, start_setting_keyspace_for_connection), cluster/worker.rs:348-390, 398-470, 767-797, cluster/node.rs:285-293",
        "shared_conns = conns at event granularity (update_shared_conns runs in the same select! arm as every change of conns); PoolSize arithmetic (can_be_accepted, is_full, excess limit) is modelled, block_advanced_shard_awareness / metrics / connectivity events are not (no influence on keyspaces)",
        "abstract server: executes the requests of one connection in order; `USE k` either sets k and says so (name equal up to ASCII case), sets another keyspace and says so, or fails leaving the keyspace unchanged; str::eq_ignore_ascii_case modelled on characters",
        "the scripted node of harness/src/c20.rs (own accept loop, frame codec of mocknode.rs written from the protocol spec); a node-side `hold` of USE answers replaces timing in the deterministic pool cases",
        "Drive/C20.lean runs the model to quiescence after each client step with a fixed schedule; the connection a query lands on (rand) is checked by membership; connection identities are compared up to symmetry (sorted USE histories)",
    ],
    assumptions=[
        "published_has_keyspace: no use-keyspace request arrives at a pool while an earlier one is unanswered (ghost flag `overlap`; the documented usage of Session::use_keyspace); without it only success_means_all_acked holds - counterexample in Props/C20.lean",
        "a broken connection stays broken (it is leaving the pool); requests routed to it fail, they do not run in another keyspace",
    ],
    partial=[
        "cluster_published_has_keyspace (the per-pool theorem lifted through the fan-out: newest Session::use_keyspace answered Ok and no overlap => every published live connection of every known node has k) is stated in Props/C20.lean but not proved; proved instead: cluster_pools_inv, new_nodes_inherit, cluster_success_means_all_acked",
        "the cluster worker / Session layer is tied to the code by reading only (no Session-level differential run)",
        "the interleaving of the refiller with callers is a runtime schedule: the theorems cover all event orders of the model, the `pool` cases one canonical order each, the `race` cases sample real ones under the node-level oracle",
    ],
    shrink=dict(head_words=4, sep=";"),
    chunk=1000,
)


def _c05_out_kind(o):
    if not o.startswith("set="):
        return o.split(" ", 1)[0]
    w = o.split(" ")
    n = 0 if w[0] == "set=-" else w[0].count(",") + 1
    r = 0 if w[1] == "rep=-" else w[1].count(",") + 1
    return "plan nodes=%s replicas=%s %s" % (n if n < 6 else "6+", r if r < 4 else "4+", "lwt" if w[2] != "lwt=x" else "non-lwt")


PROPS["C05"] = dict(
    level_text="Theorems (Props/C05.lean) prove, for every cluster (ring with vnodes and duplicate tokens, datacenters, racks, rack-less / datacenter-less nodes, keyspace strategies, every per-node enabled / connected assignment), every DefaultPolicy configuration (token-aware or not; preference none / datacenter / datacenter+rack / inherited from the request; failover permitted or not), every request (token or none, table / keyspace known or not, confirmed-LWT flag, every consistency, request-level preference) and ALL random choices of pick and of fallback (index draws of choose_filtered, rotation offsets, one shuffle per replica group - every permutation is reachable: shuffleWith_surjective): the plan names no host id twice (plan_nodup; so no target twice and no node both with and without a shard), no node rejected by the host filter (plan_excludes_disabled), only nodes of the preferred datacenter when failover is not permitted (plan_stays_in_dc), and every other enabled token-owning node (plan_complete); the class of the nodes - written out as a decision list (classOf_eq): live local-rack replica < live local-datacenter replica < live replica elsewhere < live local-rack node < live local node < live remote node < down-but-enabled local node < down-but-enabled remote node - never decreases along the plan (plan_order, plan_members_classified); the set of nodes does not depend on the random choices (targets_rho_independent); for a request routed as LWT (flag, or consistency SERIAL / LOCAL_SERIAL) the replicas of the plan are, for every random choice, exactly the de-duplicated ring-ordered replica lists (lwt_deterministic, lwt_fallback_deterministic) and each of those lists is a subsequence of the distinct nodes met clockwise from the token (lwt_ring_order); pick always answers a member of fallback of minimal class (pick_spec); the Created -> Picked -> Fallback state machine of Plan::next yields exactly the list the theorems talk about (plan_state_machine); unique_by under the non-transitive target comparator is first-occurrence-per-host-id on the chains the policy builds (fallback_eq_dedup). The model is tied to policies/load_balancing/{default,plan}.rs by a differential run through the public API (DefaultPolicy::builder, LoadBalancingPolicy::{pick,fallback}, Plan::new) on clusters built by ClusterState::new, 20-40 sampled plans per configuration, with a brute-force oracle written from the property statement.",
    level_note="Trusted: Lean kernel + {propext, Classical.choice, Quot.sound}; hand-written model Model/Plan.lean on top of the C04 models (tie = differential harness; the thread RNG is not controlled, so the correspondence is MEMBERSHIP: the model prints the rho-independent node set / replica set / LWT replica order itself, compared exactly, and decides for every observed pick / fallback / plan whether some random choice of the model produces it - group by group: exact order, one of the rotations, or any permutation for a shuffled replica group). Latency awareness is off (not modelled). Hook nodes are pool-less: every shard is 0, only whether the policy supplied a shard is observed; with_random_shard_if_unknown is not modelled. WF hypothesis of the theorems: locator as ReplicaLocator::new builds it (ring sorted), NTS maps with distinct keys, distinct host ids in the ring.",
    lean_modules=["ScyllaVerif.Props.C05"],
    rule="case = (topology with per-node enabled/connected flags, keyspace strategies, policy configuration, request, number of sampled plans); distinct case lines whose plan is non-empty count as non-trivial",
    trivial=lambda c, o: o.startswith("set=- ") or o in ("bad-case", "PANIC"),
    out_kind=_c05_out_kind,
    trusted=[
        "Model/Plan.lean transcribes default.rs:145-316 (pick), 318-541 (fallback: the eight chained iterators, DefaultPolicyTargetComparator, unique_by), 580-618, 622-907 (routing_info, preferred_node_set, filtered_replicas, pick_replica / pick_first_replica / pick_random_replica, maybe_shuffled_replicas, randomly_rotated_nodes, pick_node, round_robin_nodes, shuffle, is_alive, is_datacenter_failover_possible), 1141-1172 (ProcessedRoutingInfo, TokenWithStrategy), plan.rs:8-157 (PlanState, Plan::next), mod.rs:24-99 (RoutingInfo, should_route_as_lwt), locator/mod.rs:316-331 (choose_filtered), cluster/node.rs:225-255 (is_connected / is_enabled: alive = enabled and connected)",
        "itertools::unique_by keeps an element iff no kept element has an equal key (HashMap keyed by the comparator: Hash by host id, Eq by the comparator); rand: random_range(0..len) is some index < len, SliceRandom::shuffle some permutation, IteratorRandom::choose some element - all explicit arguments (RhoPick, RhoFb) over which the theorems quantify",
        "fixed_seed (shuffling disabled) only determines WHICH random choices are made; it is exercised by the harness and covered by the quantification over all choices",
        "Drive/C05.lean (checker mode) derives the admissible rotations / groups from the model's own fallbackGroups / pick evaluated at every offset; the replica placement inside it is the C04 model (Model/Replicas.lean), tied separately by C04's differential run",
        "the harness oracle uses its own brute-force transcription of SimpleStrategy / NetworkTopologyStrategy placement (from the C04 property statement) and its own class function (coarser than classOf: replica rack / datacenter / remote, other live, down), independent of the Lean model",
    ],
    assumptions=[
        "WF cl: cl.loc = locOf r S with r sorted by token (ReplicaLocator::new, C04.ring_sorted); NTS replication maps of the keyspaces have distinct datacenter keys (HashMap); ring nodes with equal host id are equal (known_nodes is keyed by host id) - all three are established by ClusterState::new and exhibited by a concrete example in Props/C05.lean",
        "latency awareness disabled (pick_predicate = is_alive, no wrapping of the fallback iterator); no tablets (the hook's keyspaces are vnode based: C15/C12 cover tablets)",
        "the code on the current tree has no consistency-dependent failover rule: is_datacenter_failover_possible = preferred datacenter set and permit_dc_failover; the model follows the code",
    ],
    partial=[
        "targets_rho_independent is stated for the set of NODES (the shard marking of a node is determined by its class: plan_members_classified / the membership checker compares the marks on every run)",
        "the random shard Plan substitutes for a missing one (with_random_shard_if_unknown) is not modelled: hook nodes have no sharder (C11/C12 cover shards)",
        "the oracle's order classes are the coarse ones of the property statement; the finer order among non-replica live nodes (local rack < local < remote) and among down nodes is proved (plan_order) and checked by the membership checker, a violation there is reported as a model/implementation disagreement",
    ],
    shrink=dict(head_words=1, sep=";"),
    chunk=1500,
)

PROPS["C10"] = dict(
    level_text="Theorems (Props/C10.lean) prove for every reachable state of the connection model (every event history and in-flight set): once the router ends (reader I/O or header error, `Missing` lookup, writer error, orphan threshold, keep-alive timeout = the abstract event `break_`) no caller is left waiting - a registered one holds the connection error, a queued or parked one ChannelError; a request submitted afterwards fails immediately; nobody is handed a response after the break; a frame on a stream nobody waits on breaks the connection; and `cut_never_partial`: reading any prefix of any encoded response-frame sequence yields exactly the first n frames and then a cut-in-header / cut-in-body error unless the cut is on the boundary - never a truncated, foreign or bad-header result. Tied to the code by a differential run: `read_response_frame` over in-memory readers cut at every offset (plus garbage headers, bad versions, unknown opcodes), and the REAL router over an in-memory stream with N requests in flight and the faults FIN / garbage header / bad version / cut response stream at every offset / unsolicited stream id / silent stall with keep-alive on (tokio paused clock), with the oracle: every request completes, none hangs, no foreign or partial body, a later submit fails at once.",
    level_note="Trusted: Lean kernel + {propext, Classical.choice, Quot.sound}; models Model/Conn.lean, Model/FrameStream.lean tied by the differential harness (hooks RawConnection). PARTIAL by nature: the theorems show the state machine leaves no waiter once the break event occurs; that the event occurs promptly in real time (tokio timers, OS socket errors such as RST, pool refill, retries elsewhere) is outside the model - the keep-alive timer is the abstract `break_ keepaliveTimeout` event, observed by the end-to-end run only under tokio's virtual clock (a test). Pool membership / retry policy are not modelled.",
    lean_modules=["ScyllaVerif.Props.C10"],
    rule="case = one cut byte stream (`frames`) or one fault schedule (`conn`, `ka`); distinct case lines whose implementation output is not the empty clean stream count as non-trivial",
    trivial=lambda c, o: o == "- | clean",
    out_kind=lambda o: ("broken:" + o.rsplit("broken=", 1)[1]) if "broken=" in o else ("frames:" + o.rsplit("| ", 1)[1].split(":")[0] if "| " in o else o[:12]),
    trusted=[
        "Model/FrameStream.lean transcribes scylla-cql/src/frame/mod.rs:142-190 (whole header first, then version / opcode validation, then exactly `length` body bytes)",
        "Drive/C02.lean keepaliver mini-model (interval with MissedTickBehavior::Delay, tokio::time::timeout around send_request) - validated differentially under tokio's paused clock",
        "RST and other OS-level socket errors are represented by the same reader/writer error path as FIN (`break_ frameHeaderParseError` / `writeError`)",
    ],
    assumptions=[],
    partial=[
        "promptness in real time, OS socket faults (RST), pool removal/refill and retry-elsewhere are observed only by the virtual-time end-to-end run or not at all; the theorem covers the state machine after the abstract break event",
    ],
    shrink=dict(head_words=2, sep=";"),
    chunk=2000,
)


def _c17_out_kind(o):
    if o.startswith("ok "):
        return "ser ok"
    if o == "ok":
        return "tc ok"
    if o.startswith("err tc ") or o.startswith("err ser "):
        w = o.split(" ")
        return "ser err " + w[1] + " " + w[2].split("/")[-1] + (" nested" if "/" in w[2] else "")
    if o.startswith("err "):
        return "tc err " + o.split(" ")[1].split("/")[-1] + (" nested" if "/" in o else "")
    if " = cells=" in o:
        return "row" + (" rollback" if "err(" in o else "") + (" toomany" if "toomany" in o else "")
    return o[:16]


PROPS["C17"] = dict(
    level_text="(being built) Theorems (Props/C17.lean) over Model/Carrier.lean (acceptance relations carrier x column type for serialize and for type_check, serializers with the buffer threaded through also on failure) and Model/Row.lean (SerializedValues::add_value with rollback); differential run: ~100 concrete Rust carrier types x column types of nesting <= 2 for SerializeValue::serialize and DeserializeValue::type_check, row-level type_check, add_value sequences with failing values of every kind.",
    level_note="Trusted: Lean kernel + {propext, Classical.choice, Quot.sound}; hand-written models Model/Carrier.lean, Model/Row.lean tied by the differential harness (public API of scylla-cql-core).",
    lean_modules=["ScyllaVerif.Props.C17"],
    rule="case = (Rust carrier type, representative value, column type) for serialize / type_check, or one add_value sequence; distinct case lines count as non-trivial unless the output is bad-case",
    trivial=lambda c, o: o.startswith("bad-case"),
    out_kind=_c17_out_kind,
    trusted=[],
    assumptions=[],
    partial=[],
    shrink=dict(head_words=1, sep=" ; "),
    chunk=20000,
)

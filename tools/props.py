"""Per-property configuration of the check runner (what is proved, what is tied how, what is trusted)."""

COMMON_TRUSTED = [
    "Lean 4.33.0 kernel; axioms allowed in property theorems: propext, Classical.choice, Quot.sound (audited with #print axioms on every run)",
    "no sorry/admit/axiom/native_decide/bv_decide/implemented_by/unsafe in /verif/lean (grep on every run)",
    "hand-written Lean model tied to /repo by differential correspondence (harness/src + tools/runner.py); differential testing bounds what it sees by generator quality",
    "rustc/cargo, the Rust harness (hx), python3 runner",
]

PROPS = {}
NOT_CLAIMED = {}

PROPS["C11"] = dict(
    level_text="Theorems (Props/C11.lean) prove for every shard count, msb_ignore<64 and i64 token that the u64 implementation equals ScyllaDB's stated algorithm and is < nr_shards; for every shard and port range that the drawable/iterable ports are exactly the ports of the range congruent to the shard (each once, any pivot/index), and that None/empty is produced iff no such port exists. The model is tied to sharding.rs by a differential run (exhaustive corner sweep + boundary/random cases) with a brute-force oracle.",
    level_note="Trusted: Lean kernel + {propext, Classical.choice, Quot.sound}; hand-written model Model/Sharding.lean (tie = differential harness through cfg(scylla_verif) pass-throughs); RNG choices are explicit model arguments (membership check). msb_ignore >= 64 (malformed SUPPORTED) is outside the property's domain.",
    lean_modules=["ScyllaVerif.Props.C11"],
    rule="case = (operation, shard count, msb/shard, token or port range); distinct case lines whose implementation output is not `none`/`-`/`0` count as non-trivial",
    trivial=lambda c, o: o in ("none", "-", "0"),
    trusted=[
        "Model/Sharding.lean transcribes sharding.rs:121-237, 85-103, 274-308; u128 product modelled on Nat (product_fits_u128)",
        "rand::rng() index/pivot are explicit arguments of the model; correspondence for draw/iter is membership (model checks the observed output is producible by some random choice)",
    ],
    assumptions=[
        "msb_ignore < 64 for shardOfImpl_eq_spec (the value range ScyllaDB sends); shard < nr_shards and hi <= 65535 (u16) for the port theorems - both enforced by the Rust types/asserts",
    ],
    partial=[],
)

PROPS["C03"] = dict(
    level_text="Theorems (Props/C03.lean) prove, for every list of chunks (empty and 1-byte chunks included), that the driver's buffered three-phase Murmur3 `write`/`finish` returns exactly the one-shot Cassandra MurmurHash3_x64_128 (signed tail bytes) token of the concatenation, normalised MIN->MAX (never i64::MIN); that for every permutation of bind markers the partition key is extracted in partition-key order (`(extract (pkIndexesOfWire wire) values)[seq] = values[wire[seq]]`, non-key markers skipped); that the token is murmur3Spec of the single component / of the composite encoding be16 len ++ bytes ++ 0 (and equals the CDC token under the CDC partitioner); that a composite component of >= 65536 bytes is rejected; and chunking independence of the CDC hasher. The models are tied to partitioner.rs / prepared.rs / result.rs by a differential run with model-independent oracles (chunked = one-shot, != i64::MIN, independent Cassandra reference, real-cluster vectors).",
    level_note="Trusted: Lean kernel + {propext, Classical.choice, Quot.sound}; hand-written models Model/Murmur3.lean, Model/PartitionKey.lean (tie = differential harness: public hashers, forged PREPARED frames through deser_prepared_metadata, PreparedStatement::calculate_token/compute_partition_key via the cfg(scylla_verif) pass-through statement_from_prepared). Fidelity of murmur3Spec to Cassandra's Java is by transliteration + the four server-derived vectors (no server in the sandbox).",
    lean_modules=["ScyllaVerif.Props.C03"],
    rule="case = (operation, bytes, chunking) or (partitioner, pk wire order, bound values); distinct case lines whose implementation output carries a token or an error kind count as non-trivial",
    trivial=lambda c, o: o in ("-", "bad-case"),
    out_kind=lambda o: ("token-err" if " tok=err" in o else "token-panic" if "tok=panic" in o else "token-none" if "tok=none" in o else "token-ok") if o.startswith("pk=") else (o.split(" ", 1)[0] if o and not (o[0].isdigit() or o[0] == "-") else "value"),
    trusted=[
        "Model/Murmur3.lean transcribes partitioner.rs:145-313 (Wrapping<i64> on UInt64: same bit patterns, right shifts are on `as u64`), 316-381 (CDC), routing/mod.rs:38-43 (Token::new)",
        "Model/PartitionKey.lean transcribes prepared.rs:782-860, 348-360, result.rs:976-984 (sort_unstable_by_key modelled by a stable sort; equal marker indexes are checked up to the order of equal keys), partitioner.rs:396-423",
        "murmur3Spec = Cassandra's MurmurHash.hash3_x64_128 one-shot form by transliteration, validated by the four (string, token) vectors obtained from a real cluster (partitioner.rs tests) - `example ... := by decide +kernel` in Props/C03.lean and `vector` cases in every run",
        "u16 arithmetic in PartitionKey::new is modelled with overflow checks on (as the harness is built): repeated marker indexes (never sent by a server) panic there, wrap in a release build",
    ],
    assumptions=[
        "extract_in_pk_order / token_formula: the marker indexes of the PREPARED frame are distinct and below the number of bound values (<= 65535), every key component is bound to a value (null/unset key components are skipped by the code; the server rejects such requests)",
        "bound_values.element_count() = col_specs.len() (enforced by serialize_values)",
    ],
    partial=[],
    chunk=3000,
)

PROPS["C09"] = dict(
    level_text="WORK IN PROGRESS",
    level_note="WORK IN PROGRESS",
    lean_modules=["ScyllaVerif.Props.C09"],
    tables=True,
    rule="distinct case lines whose implementation output is a frame or an error kind",
    trivial=lambda c, o: o in ("bad-case",),
    out_kind=lambda o: " ".join(w for w in o.split(" ")[:4] if not (len(w) > 24 or w.lstrip("-").isdigit())) if o.startswith("err") else o.split(" ", 1)[0],
    trusted=[],
    assumptions=[],
    partial=[],
    chunk=800,
)

PROPS["C16"] = dict(
    level_text="Theorems (Props/C16.lean) about a generic interpreter of the code the derive macros generate, for every struct descriptor, every database field list and every value assignment (see `theorems` in the evidence). The interpreter is tied to scylla-macros by a differential run of ~50 structs compiled with the real derive macros (descriptor and struct generated from one table) over all permutations / missing / excess / duplicated / retyped columns and null patterns, with a model-independent oracle (value at its column's position, round trip, documented accept/reject rule, declared order).",
    level_note="Trusted: Lean kernel + {propext, Classical.choice, Quot.sound}; hand-written interpreter Model/Derive.lean (tie = differential harness on the fixed family; macro expansion itself is not modelled). Field values are abstract payloads (typed encoding is C01).",
    lean_modules=["ScyllaVerif.Props.C16"],
    rule="case = (trait, struct descriptor, database column list, values or cells); distinct case lines count as non-trivial unless the output is bad-case",
    trivial=lambda c, o: o.startswith("bad-case"),
    out_kind=lambda o: " ".join(o.split(" ")[:3]) if o.startswith("err") else o.split(" ", 1)[0],
    trusted=[
        "Model/Derive.lean transcribes serialize/value.rs:261-553, serialize/row.rs:203-472, _macro_internal.rs:141-310, deserialize/value.rs:226-898, deserialize/row.rs:175-670 as an interpreter over a struct descriptor",
        "value level kept abstract: i32 = 4-byte payload, String = ASCII bytes, Option None = null (typed encodings: C01)",
    ],
    assumptions=[],
    partial=[],
    chunk=4000,
)

PROPS["C02"] = dict(
    level_text="(being built) Theorems (Props/C02.lean) over Model/StreamMap.lean + Model/Conn.lean; differential run at hook level (ResponseHandlerMap op sequences, full 32768-id exhaustion) and end-to-end (real router over an in-memory stream under a deterministic schedule).",
    level_note="Trusted: Lean kernel; hand-written models Model/StreamMap.lean, Model/Conn.lean tied by the differential harness.",
    lean_modules=["ScyllaVerif.Props.C02"],
    rule="case = one operation sequence (hook level `map`, or end-to-end schedule `conn`); distinct case lines whose implementation output contains at least one routed response (`H<req>` / `ok:`) count as non-trivial",
    trivial=lambda c, o: not ("H" in o or "ok:" in o),
    out_kind=lambda o: ("broken" if "broken=" in o and not o.endswith("broken=-") else "conn-ok") if "| srv=" in o else ("full" if "full" in o or "/0:" not in o and "A" in o else "map"),
    trusted=[
        "Model/StreamMap.lean transcribes connection.rs:2296-2450 (HashMaps as association lists, orphan timestamps dropped); Model/Conn.lean transcribes connection.rs:136-223, 1541-1786 with each critical section of reader/writer/orphaner as one atomic step (they run on one task and never hold the map lock across an await)",
        "abstract server: answers only stream ids it has received, at most once each; tokio mpsc/oneshot: FIFO, close-on-drop",
    ],
    assumptions=[],
    partial=[],
    shrink=dict(head_words=1, sep=";"),
    chunk=1500,
)

PROPS["C18"] = dict(
    lean_modules=["ScyllaVerif.Props.C18"],
    level_text="Theorems (Props/C18.lean) prove, for every interleaving of any number of threads running the load / compute_next / compare_exchange loop and for every clock behaviour (stalled, repeated, backwards, pre-epoch - the clock is an arbitrary input of each compute step), that the values installed by successful CASes are strictly increasing (hence pairwise distinct, and strictly increasing along each thread's own calls), and that an explicit statement timestamp is chosen in preference to the generator. Tied to timestamp_generator.rs by single-thread runs under a scripted clock compared value by value, and multi-thread runs validated as model traces (membership) plus a distinct/increasing oracle.",
    level_note="Trusted: Lean kernel + standard axioms; hand-written model Model/Timestamp.lean; sequential consistency of the SeqCst AtomicI64 operations; values stay below 2^63 (last + 1 does not overflow; ~year 294000); the scripted clock hook (one shadowing line in compute_next, cfg(scylla_verif)). The statement-timestamp preference (connection.rs) is proved on the model and is tied to the code only by the mock-node run of C07/C14 when present.",
    rule="case = (single-thread script, calls) or (threads x scripts, calls); distinct case lines count as non-trivial when the clock script makes at least one reading not exceed the previous timestamp (stall / backwards / pre-epoch), i.e. the output contains two consecutive values differing by exactly 1",
    trivial=lambda c, o: not any(b - a == 1 for part in o.split("|") for a, b in zip([int(x) for x in part.split(",") if x.lstrip("-").isdigit()], [int(x) for x in part.split(",") if x.lstrip("-").isdigit()][1:])),
    trusted=[
        "Model/Timestamp.lean transcribes timestamp_generator.rs:96-157 (compute_next, next_timestamp CAS loop) and the `statement.get_timestamp().or_else(generator)` choice of connection.rs",
        "sequential consistency of AtomicI64 SeqCst load / compare_exchange (each is one atomic step of the model)",
        "verif_hooks::clock scripted clock (thread-local), which replaces only the SystemTime::now() reading",
    ],
    assumptions=["timestamps stay below i64::MAX (no overflow of last + 1)", "multi-thread correspondence is membership: the observed per-thread value lists must be producible by some interleaving of the model"],
    partial=["explicit_timestamp_wins is proved on the model; its tie to connection.rs is by the mock-node end-to-end run (C07/C14 harness), not by the hook-level check"],
    chunk=400,
)

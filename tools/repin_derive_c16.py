#!/usr/bin/env python3
"""Developer tool for C16 (NOT run by ./check): re-freezes lean/ScyllaVerif/Props/C16Pin.lean from the current
lean/ScyllaVerif/Generated/DeriveC16.lean.  Run it ONLY after the interpreter Model/Derive.lean has been re-read
against the changed macro sources: the pin is the record of the source text the interpreter was transcribed from."""
import os
import re

VERIF = os.path.dirname(os.path.dirname(os.path.abspath(__file__)))
GEN = os.path.join(VERIF, "lean", "ScyllaVerif", "Generated", "DeriveC16.lean")
OUT = os.path.join(VERIF, "lean", "ScyllaVerif", "Props", "C16Pin.lean")

src = open(GEN, encoding="utf-8").read()
names = ["svLines", "srLines", "dvLines", "drLines", "miLines"]
parts = []
for n in names:
    m = re.search(r"def %s : List String := (\[\n.*?\])\n" % n, src, re.S)
    if not m:
        raise SystemExit("cannot find %s in the generated file" % n)
    parts.append("DeriveC16.%s = %s" % (n, m.group(1)))
text = '''/-
C16 - PIN of the macro source lines the interpreter `Model/Derive.lean` was transcribed from.
FROZEN by tools/repin_derive_c16.py (a developer tool, not part of the check) from Generated/DeriveC16.lean at the
time the interpreter was last read against the sources.  `Generated/DeriveC16.lean` is re-extracted on every run;
`source_lines_pinned` compares the two literally.
-/
import ScyllaVerif.Generated.DeriveC16

namespace ScyllaVerif.Props.C16
open ScyllaVerif.Generated

/-- every line of the four derive generators and of `_macro_internal.rs` that mentions an attribute flag (wherever
it flows: darling field, `let`-bound local, match-arm guard, closure filter, `quote!` interpolation), a counter of the
generated code (`remaining_count`, `skipped_fields`, `saved_cql_field`, ...) or the derivation of a column name
(`rename`, `unraw`, `cql_name_literal`, `column_name`, ...) is, literally and in order, the line the interpreter was
transcribed from.  ANY edit of such a line breaks this obligation (also a harmless one: the pin is deliberately
blunt - it demands a re-read, it proves nothing about behaviour). -/
theorem source_lines_pinned :
    %s :=
  ⟨%s⟩

end ScyllaVerif.Props.C16
''' % (" ∧\n    ".join(parts), ", ".join(["rfl"] * len(parts)))
open(OUT, "w", encoding="utf-8").write(text)
print("wrote", OUT)

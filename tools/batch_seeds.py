#!/usr/bin/env python3
"""Developer tool: confirm and mutation-check a batch of seeded changes under /tmp/mutout/<id> (3 mutchecks in
parallel, confirms sequentially); prints one summary block per seed.
usage: tools/batch_seeds.py C01-4 C02-4 ...   (related checks per property are listed below)"""
import json, os, re, subprocess, sys, concurrent.futures as cf
REL = {"C01": ["C01", "C17"], "C02": ["C02", "C09"], "C03": ["C03", "C12"], "C04": ["C04", "C05"], "C05": ["C05"],
       "C06": ["C06", "C13"], "C07": ["C07", "C14"], "C08": ["C08"], "C09": ["C09"], "C10": ["C10", "C02"],
       "C11": ["C11", "C12"], "C12": ["C12", "C05"], "C13": ["C13", "C06"], "C14": ["C14", "C17"],
       "C15": ["C15", "C12"], "C16": ["C16"], "C17": ["C17", "C01"], "C18": ["C18", "C14"], "C19": ["C19"],
       "C20": ["C20", "C10"]}
os.makedirs("/tmp/seedlog", exist_ok=True)
def crates(sid):
    try:
        files = subprocess.run(["git", "-C", "/repo", "apply", "--numstat", "/tmp/mutout/%s/patch.diff" % sid],
                               capture_output=True, text=True).stdout.split("\n")
    except Exception:
        files = []
    cs = []
    for l in files:
        p = l.split("\t")[-1]
        c = p.split("/")[0]
        if c and c.startswith("scylla") and c not in cs:
            cs.append(c)
    return cs or ["scylla"]
def mut(sid):
    prop = sid.split("-")[0]
    out = subprocess.run(["/verif/tools/mutcheck.sh", "/tmp/mutout/%s/patch.diff" % sid] + REL[prop],
                         capture_output=True, text=True)
    open("/tmp/seedlog/%s.mut.txt" % sid, "w").write(out.stdout + out.stderr)
    return sid
def confirm(sid):
    out = subprocess.run(["/verif/tools/confirm_seed.sh", "/tmp/mutout/%s" % sid] + crates(sid),
                         capture_output=True, text=True)
    open("/tmp/seedlog/%s.confirm.txt" % sid, "w").write(out.stdout + out.stderr)
ids = sys.argv[1:]
with cf.ThreadPoolExecutor(max_workers=3) as ex:
    futs = [ex.submit(mut, s) for s in ids]
    for s in ids:
        confirm(s)
    for f in futs:
        f.result()
for s in ids:
    print("##", s)
    c = open("/tmp/seedlog/%s.confirm.txt" % s).read()
    print("  confirm:", " | ".join(l.strip()[:60] for l in c.split("\n") if l.startswith("[demo")))
    for l in open("/tmp/seedlog/%s.mut.txt" % s):
        if re.match(r"^===|^VIOLATION|^oracle failures|^C\d\d quick", l):
            print("  " + l.strip()[:230])

#!/usr/bin/env python3
"""Regenerates /verif/MANIFEST.json from tools/props.py (single source of truth for what is claimed)."""
import json
import os
import subprocess
import sys

sys.path.insert(0, os.path.dirname(os.path.abspath(__file__)))
import props as P

VERIF = os.path.dirname(os.path.dirname(os.path.abspath(__file__)))
ALL = ["C%02d" % i for i in range(1, 21)]


def hook_commits():
    out = subprocess.run(["git", "-C", "/repo", "log", "--format=%H %s"], capture_output=True, text=True).stdout
    return [l.split(" ", 1)[0] for l in out.splitlines() if l.split(" ", 1)[1].startswith("verif hooks")]


def ready(pid):
    """A property is claimed only when its check has produced a clean evidence file."""
    if pid not in P.PROPS or P.PROPS[pid].get("unclaimed"):
        return False
    path = os.path.join(VERIF, "evidence", pid + ".json")
    try:
        ev = json.load(open(path))
    except Exception:
        return False
    cov = ev.get("coverage", {})
    return ev.get("violations", 1) == 0 and cov.get("obligations", 0) >= 1 and cov.get("discharged") == cov.get("obligations")


def main():
    baseline = json.load(open("/root/.vp/BASELINE.json"))["cmd"]
    checks = []
    for pid in ALL:
        if not ready(pid):
            continue
        c = P.PROPS[pid]
        checks.append({
            "property_id": pid,
            "quick_cmd": "./check %s --tier quick" % pid,
            "thorough_cmd": "./check %s --tier thorough" % pid,
            "evidence_file": "/verif/evidence/%s.json" % pid,
            "replay_cmd_template": "./check %s --replay {path}" % pid,
            "engine": "lean-model+rust-harness",
            "level_claimed": {
                "category": "proof",
                "text": c["level_text"],
                "design_ref": "DESIGN.md section 6, %s" % pid,
            },
            "level_note": c["level_note"],
            "technique": "Lean 4 theorems over an executable model + differential correspondence check against the Rust implementation",
        })
    na = []
    for pid in ALL:
        if not ready(pid):
            na.append({"property_id": pid, "reason": P.NOT_CLAIMED.get(pid, "check not built yet (work in progress; the design for it is in DESIGN.md section 6)")})
    m = {
        "version": 1,
        "setup_cmd": "./check --setup",
        "hooks": {
            "guard": "scylla_verif",
            "enable": "rustc cfg: RUSTFLAGS=--cfg scylla_verif (set in /verif/harness/.cargo/config.toml); the harness crate depends on /repo's crates by path",
            "baseline_off_cmd": baseline,
            "source_commits": hook_commits(),
            "add_only": True,
        },
        "engines": [
            {"name": "lean-model", "path": "/verif/lean", "serves_properties": [c["property_id"] for c in checks],
             "kind_free_text": "Lean 4 project ScyllaVerif: executable models (Model/), property theorems (Props/), line-protocol driver (modeldriver)"},
            {"name": "rust-harness", "path": "/verif/harness", "serves_properties": [c["property_id"] for c in checks],
             "kind_free_text": "Rust crate verif-harness (bin hx): generates cases, runs the real implementation in-process (hooks on), model-independent oracles"},
        ],
        "checks": checks,
        "notes": "All checks: ./check <id> --tier quick|thorough (tools/runner.py). Lean proofs are re-checked and axiom-audited on every run; the harness is rebuilt from /repo's working tree on every run. Known findings: /verif/known_findings.json.",
        "not_applicable": na,
    }
    with open(os.path.join(VERIF, "MANIFEST.json"), "w") as f:
        json.dump(m, f, indent=1)
        f.write("\n")


if __name__ == "__main__":
    main()

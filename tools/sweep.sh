#!/bin/bash
# Developer tool: run every claimed check in the quick tier (as `vp check` does) and print one line each.
cd /verif && ./check --setup > work/sweep_setup.log 2>&1 || { echo "SETUP FAILED"; tail -5 work/sweep_setup.log; }
for p in C01 C02 C03 C04 C05 C06 C07 C08 C09 C10 C11 C12 C13 C14 C15 C16 C17 C18 C19 C20; do
  out=$(./check $p --tier ${TIER:-quick} 2>&1); rc=$?
  echo "rc=$rc $(echo "$out" | tail -1)"
  [ $rc -ne 0 ] && echo "$out" | grep -E "BROKEN|VIOLATION|disagreement" | cut -c1-400
done
